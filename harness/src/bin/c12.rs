// thin entry point: the driver is compiled inside the crate (hook H6, src/drivers/c12.rs)
fn main() {
    gpa::verif_drivers::c12::main()
}
