fn main() {
    gpa::redirector::verif_hooks::enable();
    gpa::redirector::verif_hooks::insert(1, (0, 1, 1, 0x10813FA8, 80u16.to_be()));
    println!("{:?}", gpa::redirector::verif_hooks::snapshot());
    println!("{}", gpa::redirector::ip_to_string(0x10813FA8));
}
