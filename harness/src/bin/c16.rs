// thin entry point: the driver is compiled inside the crate (hook H6, src/drivers/c16.rs)
fn main() {
    gpa::verif_drivers::c16::main()
}
