// thin entry point: the driver is compiled inside the crate (hook H6, src/drivers/c13.rs)
fn main() {
    gpa::verif_drivers::c13::main()
}
