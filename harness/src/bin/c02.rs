// thin entry point: the driver is compiled inside the crate (hook H6, src/drivers/c02.rs)
fn main() {
    gpa::verif_drivers::c02::main()
}
