// thin entry point: the driver is compiled inside the crate (hook H6, src/drivers/c18.rs)
fn main() {
    gpa::verif_drivers::c18::main()
}
