// C06 correspondence driver: the agent's REAL map operations (BpfObject::update_policy_elem_bpf_map,
// update_redirect_policy, update_skip_process_map, remove_audit_map_entry, lookup_audit), its
// encoders (hook H5) and ip_to_string / string_to_ip.
//
// BpfObject wraps a loaded aya::Ebpf and talks to the kernel through bpf(2).  This binary defines the
// C symbol `syscall` itself: aya's (and std's) `libc::syscall(..)` calls therefore land here; SYS_bpf
// is answered by a small in-process stand-in that keeps maps and RECORDS every map operation (command,
// map name, key bytes, value bytes, flags); every other system call is forwarded unchanged with the
// `syscall` instruction.  The BPF object file given by LOAD carries only the four map definitions
// (tools/checks/c06.py compiles it with `clang -target bpf` from the geometry the C side reports), so
// BpfObject::from_ebpf_file runs for real and no program is ever loaded or attached.
// The recorded operations are what tools/checks/c06.py replays, byte for byte, on the user-space build
// of the unmodified eBPF C program.
//
// stdin: one request per line; stdout: one answer per request, prefixed "@@ " (the agent logs to stdout).
//   LOAD path                      BpfObject::from_ebpf_file(path); the stand-in's maps are emptied before every
//                                  later request   -> @@ {"ok":true,"maps":[[name,type,key_size,value_size,max_entries]..]}
//                                  (maps = what the loader asked the kernel to create, BPF_MAP_CREATE)
//   BEGIN path / END               a fresh BpfObject whose maps keep their content until END: a SEQUENCE of agent
//                                  operations (start-up installer, run-time updater, ...) sees its own earlier effects
//   POLICY_ELEM lp ip port         update_policy_elem_bpf_map("x", lp, ip, port)   -> @@ {"ok":bool,"ops":[..]}
//   REDIRECT ip port lp r          update_redirect_policy(ip, port, lp, r != 0)    -> @@ {"ok":true,"ops":[..]}
//   SKIP pid                       update_skip_process_map(pid)
//   REMOVE_AUDIT sport             remove_audit_map_entry(sport)
//   LOOKUP sport                   lookup_audit(sport) on an empty audit_map (records the key it asks for)
//   DECODE v0..v4                  lookup_audit(1) with [v0..v4] stored under the key the agent asks for
//                                  -> @@ {"ok":true,"entry":[logon_id, process_id, is_admin, destination_ipv4,
//                                         destination_port, "a.b.c.d", port_in_host_byte_order],"ops":[..]}
//   every op = [cmd, map, [key words], [value words], flags]   (cmd: "update" | "delete" | "lookup")
//   the stand-in's maps are emptied before every request: each answer is a function of its request.
//   K ip port | PV lp | S pid | AK port | AKR w0 w1   the ebpf_obj constructors' to_array() images
//   I2S ip                         redirector::ip_to_string(ip)                    -> @@ "..."
//   S2I hex                        redirector::string_to_ip(utf8 text given as hex)-> @@ n
use gpa::common::constants;
use gpa::redirector::verif_ebpf::{
    destination_entry, sock_addr_audit_key, sock_addr_skip_process_entry,
};
use gpa::redirector::{ip_to_string, string_to_ip, AuditEntry, BpfObject};
use std::collections::HashMap;
use std::io::{self, BufRead, Write};
use std::path::PathBuf;
use std::sync::Mutex;

// ------------------------------------------------------------------------------------------------
// the stand-in for bpf(2)
// ------------------------------------------------------------------------------------------------
const SYS_BPF: i64 = 321;
const BPF_MAP_CREATE: i64 = 0;
const BPF_MAP_LOOKUP_ELEM: i64 = 1;
const BPF_MAP_UPDATE_ELEM: i64 = 2;
const BPF_MAP_DELETE_ELEM: i64 = 3;
const BPF_MAP_GET_NEXT_KEY: i64 = 4;

struct FakeMap {
    name: String,
    map_type: u32,
    max_entries: u32,
    key_size: usize,
    value_size: usize,
    entries: Vec<(Vec<u8>, Vec<u8>)>,
}

struct Op {
    cmd: &'static str,
    map: String,
    key: Vec<u8>,
    value: Vec<u8>,
    flags: u64,
}

struct Kernel {
    maps: HashMap<i32, FakeMap>,
    ops: Vec<Op>,
    unknown: Vec<i64>,
}

static KERNEL: Mutex<Option<Kernel>> = Mutex::new(None);

unsafe fn raw_syscall(n: i64, a1: i64, a2: i64, a3: i64, a4: i64, a5: i64, a6: i64) -> i64 {
    let ret: i64;
    core::arch::asm!(
        "syscall",
        inlateout("rax") n => ret,
        in("rdi") a1, in("rsi") a2, in("rdx") a3, in("r10") a4, in("r8") a5, in("r9") a6,
        lateout("rcx") _, lateout("r11") _,
        options(nostack)
    );
    ret
}

unsafe fn set_errno(e: i32) {
    *libc::__errno_location() = e;
}

unsafe fn rd_u32(p: *const u8, off: usize) -> u32 {
    std::ptr::read_unaligned(p.add(off) as *const u32)
}
unsafe fn rd_u64(p: *const u8, off: usize) -> u64 {
    std::ptr::read_unaligned(p.add(off) as *const u64)
}

unsafe fn fake_bpf(cmd: i64, attr: *const u8) -> i64 {
    let mut guard = KERNEL.lock().unwrap();
    let k = guard.get_or_insert_with(|| Kernel {
        maps: HashMap::new(),
        ops: Vec::new(),
        unknown: Vec::new(),
    });
    match cmd {
        BPF_MAP_CREATE => {
            // union bpf_attr: map_type, key_size, value_size, max_entries, map_flags, inner_map_fd,
            // numa_node, map_name[16]
            let map_type = rd_u32(attr, 0);
            let max_entries = rd_u32(attr, 12);
            let key_size = rd_u32(attr, 4) as usize;
            let value_size = rd_u32(attr, 8) as usize;
            let name_bytes = std::slice::from_raw_parts(attr.add(28), 16);
            let name: String = name_bytes
                .iter()
                .take_while(|b| **b != 0)
                .map(|b| *b as char)
                .collect();
            // a real descriptor, so that aya's OwnedFd closes something that is ours
            let fd = libc::open(b"/dev/null\0".as_ptr() as *const libc::c_char, libc::O_RDONLY);
            if fd < 0 {
                return -1;
            }
            k.maps.insert(
                fd,
                FakeMap {
                    name,
                    map_type,
                    max_entries,
                    key_size,
                    value_size,
                    entries: Vec::new(),
                },
            );
            fd as i64
        }
        BPF_MAP_LOOKUP_ELEM | BPF_MAP_UPDATE_ELEM | BPF_MAP_DELETE_ELEM => {
            // { __u32 map_fd; __aligned_u64 key; __aligned_u64 value; __u64 flags; }
            let fd = rd_u32(attr, 0) as i32;
            let keyp = rd_u64(attr, 8) as *const u8;
            let valp = rd_u64(attr, 16) as *mut u8;
            let flags = rd_u64(attr, 24);
            let Kernel { maps, ops, .. } = k;
            let m = match maps.get_mut(&fd) {
                Some(m) => m,
                None => {
                    set_errno(libc::EBADF);
                    return -1;
                }
            };
            let key = std::slice::from_raw_parts(keyp, m.key_size).to_vec();
            let pos = m.entries.iter().position(|(k2, _)| *k2 == key);
            match cmd {
                BPF_MAP_LOOKUP_ELEM => {
                    ops.push(Op { cmd: "lookup", map: m.name.clone(), key, value: Vec::new(), flags });
                    match pos {
                        Some(i) => {
                            std::ptr::copy_nonoverlapping(m.entries[i].1.as_ptr(), valp, m.value_size);
                            0
                        }
                        None => {
                            set_errno(libc::ENOENT);
                            -1
                        }
                    }
                }
                BPF_MAP_UPDATE_ELEM => {
                    let value = std::slice::from_raw_parts(valp as *const u8, m.value_size).to_vec();
                    ops.push(Op { cmd: "update", map: m.name.clone(), key: key.clone(), value: value.clone(), flags });
                    match pos {
                        Some(i) => m.entries[i].1 = value,
                        None => {
                            if m.entries.len() as u32 >= m.max_entries {
                                if m.map_type == 9 {
                                    // BPF_MAP_TYPE_LRU_HASH: make room (oldest first)
                                    m.entries.remove(0);
                                } else {
                                    set_errno(libc::E2BIG);
                                    return -1;
                                }
                            }
                            m.entries.push((key, value))
                        }
                    }
                    0
                }
                _ => {
                    ops.push(Op { cmd: "delete", map: m.name.clone(), key, value: Vec::new(), flags });
                    match pos {
                        Some(i) => {
                            m.entries.remove(i);
                            0
                        }
                        None => {
                            set_errno(libc::ENOENT);
                            -1
                        }
                    }
                }
            }
        }
        BPF_MAP_GET_NEXT_KEY => {
            set_errno(libc::ENOENT);
            -1
        }
        other => {
            // program / BTF loading, feature probes, ...: not available here
            k.unknown.push(other);
            set_errno(libc::EPERM);
            -1
        }
    }
}

/// The C library's `syscall(2)` wrapper, replaced for this binary (x86-64 System V: a variadic callee
/// receives its integer arguments exactly like a fixed-arity one).
#[no_mangle]
pub unsafe extern "C" fn syscall(n: i64, a1: i64, a2: i64, a3: i64, a4: i64, a5: i64, a6: i64) -> i64 {
    if n == SYS_BPF {
        return fake_bpf(a1, a2 as *const u8);
    }
    let ret = raw_syscall(n, a1, a2, a3, a4, a5, a6);
    if (-4095..0).contains(&ret) {
        set_errno((-ret) as i32);
        return -1;
    }
    ret
}

fn kernel_clear() {
    let mut guard = KERNEL.lock().unwrap();
    if let Some(k) = guard.as_mut() {
        for m in k.maps.values_mut() {
            m.entries.clear();
        }
        k.ops.clear();
    }
}

/// forget every map (their descriptors are closed by aya when the Ebpf object is dropped)
fn kernel_forget() {
    let mut guard = KERNEL.lock().unwrap();
    if let Some(k) = guard.as_mut() {
        k.maps.clear();
        k.ops.clear();
    }
}

/// what the loader asked the kernel for: [name, type, key_size, value_size, max_entries] per map
fn kernel_geometry() -> String {
    let guard = KERNEL.lock().unwrap();
    let mut v = Vec::new();
    if let Some(k) = guard.as_ref() {
        let mut ms: Vec<&FakeMap> = k.maps.values().collect();
        ms.sort_by(|a, b| a.name.cmp(&b.name));
        for m in ms {
            v.push(format!(
                "[\"{}\",{},{},{},{}]",
                m.name, m.map_type, m.key_size, m.value_size, m.max_entries
            ));
        }
    }
    format!("[{}]", v.join(","))
}

fn kernel_store(map: &str, key: Vec<u8>, value: Vec<u8>) {
    let mut guard = KERNEL.lock().unwrap();
    if let Some(k) = guard.as_mut() {
        for m in k.maps.values_mut() {
            if m.name == map {
                m.entries.push((key.clone(), value.clone()));
            }
        }
    }
}

fn words_of_bytes(b: &[u8]) -> String {
    let v: Vec<String> = b
        .chunks(4)
        .map(|c| {
            let mut w = [0u8; 4];
            w[..c.len()].copy_from_slice(c);
            u32::from_le_bytes(w).to_string()
        })
        .collect();
    format!("[{}]", v.join(","))
}

fn take_ops() -> (String, Vec<(String, String, Vec<u8>)>) {
    let mut guard = KERNEL.lock().unwrap();
    let mut text = Vec::new();
    let mut raw = Vec::new();
    if let Some(k) = guard.as_mut() {
        for o in k.ops.drain(..) {
            text.push(format!(
                "[\"{}\",\"{}\",{},{},{}]",
                o.cmd,
                o.map,
                words_of_bytes(&o.key),
                words_of_bytes(&o.value),
                o.flags
            ));
            raw.push((o.cmd.to_string(), o.map.clone(), o.key.clone()));
        }
    }
    (format!("[{}]", text.join(",")), raw)
}

// ------------------------------------------------------------------------------------------------
fn words(a: &[u32]) -> String {
    let v: Vec<String> = a.iter().map(|x| x.to_string()).collect();
    format!("[{}]", v.join(","))
}

fn unhex(s: &str) -> Vec<u8> {
    (0..s.len() / 2)
        .map(|i| u8::from_str_radix(&s[2 * i..2 * i + 2], 16).unwrap())
        .collect()
}

fn entry_json(e: &AuditEntry) -> String {
    format!(
        "[{},{},{},{},{},\"{}\",{}]",
        e.logon_id,
        e.process_id,
        e.is_admin,
        e.destination_ipv4,
        e.destination_port,
        e.destination_ipv4_addr(),
        e.destination_port_in_host_byte_order()
    )
}

fn json_str(s: &str) -> String {
    let mut o = String::from("\"");
    for c in s.chars() {
        match c {
            '"' => o.push_str("\\\""),
            '\\' => o.push_str("\\\\"),
            c if (c as u32) < 0x20 => o.push_str(&format!("\\u{:04x}", c as u32)),
            c => o.push(c),
        }
    }
    o.push('"');
    o
}

fn main() {
    let stdin = io::stdin();
    let stdout = io::stdout();
    let mut bpf: Option<BpfObject> = None;
    let mut session = false;
    for line in stdin.lock().lines() {
        let line = line.unwrap();
        let mut it = line.split_whitespace();
        let op = match it.next() {
            Some(op) => op,
            None => continue,
        };
        let rest: Vec<&str> = it.collect();
        let nums = || -> Vec<u64> { rest.iter().map(|x| x.parse::<u64>().unwrap()).collect() };
        if !session {
            kernel_clear();
        }
        let answer = match op {
            // LOAD: a BpfObject whose maps are emptied before every request (each answer is a function of
            // its request).  BEGIN: a fresh BpfObject and fresh maps that KEEP their content until END,
            // so a sequence of agent operations sees its own earlier effects, as in the running agent.
            "LOAD" | "BEGIN" => {
                bpf = None;
                kernel_forget();
                session = op == "BEGIN";
                match BpfObject::from_ebpf_file(&PathBuf::from(rest[0])) {
                    Ok(b) => {
                        bpf = Some(b);
                        kernel_clear();
                        format!("{{\"ok\":true,\"maps\":{}}}", kernel_geometry())
                    }
                    Err(e) => format!("{{\"ok\":false,\"error\":{}}}", json_str(&e.to_string())),
                }
            }
            "END" => {
                session = false;
                "\"ok\"".to_string()
            }
            "POLICY_ELEM" | "REDIRECT" | "SKIP" | "REMOVE_AUDIT" | "LOOKUP" | "DECODE" => {
                let n = nums();
                let b = bpf.as_mut().expect("LOAD first");
                let mut entry = String::from("null");
                let ok = match op {
                    "POLICY_ELEM" => b
                        .update_policy_elem_bpf_map("x", n[0] as u16, n[1] as u32, n[2] as u16)
                        .is_ok(),
                    "REDIRECT" => {
                        b.update_redirect_policy(n[0] as u32, n[1] as u16, n[2] as u16, n[3] != 0);
                        true
                    }
                    "SKIP" => b.update_skip_process_map(n[0] as u32).is_ok(),
                    "REMOVE_AUDIT" => b.remove_audit_map_entry(n[0] as u16).is_ok(),
                    "LOOKUP" => match b.lookup_audit(n[0] as u16) {
                        Ok(e) => {
                            entry = entry_json(&e);
                            true
                        }
                        Err(_) => false,
                    },
                    _ => {
                        // learn the key the agent asks for, store the value under it, ask again
                        let _ = b.lookup_audit(1);
                        let (_, raw) = take_ops();
                        let key = raw
                            .iter()
                            .rev()
                            .find(|(c, m, _)| c == "lookup" && m == "audit_map")
                            .map(|(_, _, k)| k.clone());
                        match key {
                            Some(key) => {
                                let mut value = Vec::new();
                                for w in &n[0..5] {
                                    value.extend_from_slice(&(*w as u32).to_le_bytes());
                                }
                                kernel_store("audit_map", key, value);
                                match b.lookup_audit(1) {
                                    Ok(e) => {
                                        entry = entry_json(&e);
                                        true
                                    }
                                    Err(_) => false,
                                }
                            }
                            None => false,
                        }
                    }
                };
                let (ops, _) = take_ops();
                format!("{{\"ok\":{},\"entry\":{},\"ops\":{}}}", ok, entry, ops)
            }
            "K" => {
                let n = nums();
                words(&destination_entry::from_ipv4(n[0] as u32, n[1] as u16).to_array())
            }
            "PV" => {
                let n = nums();
                let local_ip = string_to_ip(constants::PROXY_AGENT_IP);
                words(&destination_entry::from_ipv4(local_ip, n[0] as u16).to_array())
            }
            "S" => {
                let n = nums();
                words(&sock_addr_skip_process_entry::from_pid(n[0] as u32).to_array())
            }
            "AK" => {
                let n = nums();
                words(&sock_addr_audit_key::from_source_port(n[0] as u16).to_array())
            }
            "AKR" => {
                let n = nums();
                words(&sock_addr_audit_key::from_array([n[0] as u32, n[1] as u32]).to_array())
            }
            "I2S" => {
                let n = nums();
                json_str(&ip_to_string(n[0] as u32))
            }
            "S2I" => {
                let bytes = unhex(rest.first().copied().unwrap_or(""));
                let text = String::from_utf8(bytes).expect("S2I takes valid UTF-8");
                string_to_ip(&text).to_string()
            }
            _ => panic!("unknown request {}", op),
        };
        let mut out = stdout.lock();
        writeln!(out, "@@ {}", answer).unwrap();
    }
}
