// C06 correspondence driver: the agent's real eBPF key/value encoders and decoders.
//
// stdin: one request per line; stdout: one answer per request, prefixed "@@ " (string_to_ip logs its
// warnings to stdout through the agent's console logger; those lines are not answers).
//
//   K ip port          destination_entry::from_ipv4(ip, port).to_array()            -> @@ [w0..w5]
//   PV local_port      the policy value update_policy_elem_bpf_map / update_redirect_policy build:
//                      destination_entry::from_ipv4(string_to_ip(constants::PROXY_AGENT_IP), local_port)
//   S pid              sock_addr_skip_process_entry::from_pid(pid).to_array()        -> @@ [w0]
//   AK port            sock_addr_audit_key::from_source_port(port).to_array()        -> @@ [w0,w1]
//   AE w0..w4 m0..m4   sock_addr_audit_entry::from_array([w0..w4]) turned into an AuditEntry the way
//                      BpfObject::lookup_audit does (m_i = which sock_addr_audit_entry field feeds the
//                      i-th AuditEntry field, as tools/gen_consts.py reads it from lookup_audit's
//                      struct literal; the casts are lookup_audit's), then the AuditEntry accessors
//                      -> @@ [logon_id, process_id, is_admin, destination_ipv4, destination_port,
//                             "a.b.c.d" (destination_ipv4_addr), destination_port_in_host_byte_order]
//   AKR w0 w1          sock_addr_audit_key::from_array([w0,w1]).to_array()
//   I2S ip             redirector::ip_to_string(ip)                                   -> @@ "..."
//   S2I hex            redirector::string_to_ip(utf8 text given as hex)               -> @@ n
use gpa::common::constants;
use gpa::redirector::verif_ebpf::{
    destination_entry, sock_addr_audit_entry, sock_addr_audit_key, sock_addr_skip_process_entry,
};
use gpa::redirector::{ip_to_string, string_to_ip, AuditEntry};
use std::io::{self, BufRead, Write};

fn words(a: &[u32]) -> String {
    let v: Vec<String> = a.iter().map(|x| x.to_string()).collect();
    format!("[{}]", v.join(","))
}

fn unhex(s: &str) -> Vec<u8> {
    (0..s.len() / 2)
        .map(|i| u8::from_str_radix(&s[2 * i..2 * i + 2], 16).unwrap())
        .collect()
}

fn field(v: &sock_addr_audit_entry, ix: u64) -> u32 {
    match ix {
        0 => v.logon_id,
        1 => v.process_id,
        2 => v.is_root,
        3 => v.destination_ipv4,
        4 => v.destination_port,
        _ => panic!("bad field index"),
    }
}

fn main() {
    let stdin = io::stdin();
    let stdout = io::stdout();
    for line in stdin.lock().lines() {
        let line = line.unwrap();
        let mut it = line.split_whitespace();
        let op = match it.next() {
            Some(op) => op,
            None => continue,
        };
        let rest: Vec<&str> = it.collect();
        let nums = || -> Vec<u64> { rest.iter().map(|x| x.parse::<u64>().unwrap()).collect() };
        let answer = match op {
            "K" => {
                let n = nums();
                words(&destination_entry::from_ipv4(n[0] as u32, n[1] as u16).to_array())
            }
            "PV" => {
                let n = nums();
                let local_ip = string_to_ip(constants::PROXY_AGENT_IP);
                words(&destination_entry::from_ipv4(local_ip, n[0] as u16).to_array())
            }
            "S" => {
                let n = nums();
                words(&sock_addr_skip_process_entry::from_pid(n[0] as u32).to_array())
            }
            "AK" => {
                let n = nums();
                words(&sock_addr_audit_key::from_source_port(n[0] as u16).to_array())
            }
            "AKR" => {
                let n = nums();
                words(&sock_addr_audit_key::from_array([n[0] as u32, n[1] as u32]).to_array())
            }
            "AE" => {
                let n = nums();
                let audit_value = sock_addr_audit_entry::from_array([
                    n[0] as u32,
                    n[1] as u32,
                    n[2] as u32,
                    n[3] as u32,
                    n[4] as u32,
                ]);
                let e = AuditEntry {
                    logon_id: field(&audit_value, n[5]) as u64,
                    process_id: field(&audit_value, n[6]),
                    is_admin: field(&audit_value, n[7]) as i32,
                    destination_ipv4: field(&audit_value, n[8]),
                    destination_port: field(&audit_value, n[9]) as u16,
                };
                format!(
                    "[{},{},{},{},{},\"{}\",{}]",
                    e.logon_id,
                    e.process_id,
                    e.is_admin,
                    e.destination_ipv4,
                    e.destination_port,
                    e.destination_ipv4_addr(),
                    e.destination_port_in_host_byte_order()
                )
            }
            "I2S" => {
                let n = nums();
                format!("\"{}\"", ip_to_string(n[0] as u32))
            }
            "S2I" => {
                let bytes = unhex(rest.first().copied().unwrap_or(""));
                let text = String::from_utf8(bytes).expect("S2I takes valid UTF-8");
                string_to_ip(&text).to_string()
            }
            _ => panic!("unknown request {}", op),
        };
        let mut out = stdout.lock();
        writeln!(out, "@@ {}", answer).unwrap();
    }
}
