// thin entry point: the driver is compiled inside the crate (hook H6, src/drivers/c03.rs)
fn main() {
    gpa::verif_drivers::c03::main()
}
