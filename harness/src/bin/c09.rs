// thin entry point: the driver is compiled inside the crate (hook H6, src/drivers/c09.rs)
fn main() {
    gpa::verif_drivers::c09::main()
}
