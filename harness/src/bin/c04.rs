// thin entry point: the driver is compiled inside the crate (hook H6, src/drivers/c04.rs)
fn main() {
    gpa::verif_drivers::c04::main()
}
