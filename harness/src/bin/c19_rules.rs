// thin entry point: the driver is compiled inside the crate (hook H6, src/drivers/c19_rules.rs)
fn main() {
    gpa::verif_drivers::c19_rules::main()
}
