// thin entry point: the driver is compiled inside the crate (hook H6, src/drivers/e2e.rs)
fn main() {
    gpa::verif_drivers::e2e::main()
}
