// verification drivers compiled inside the crate (hook H6); one inline module per driver
