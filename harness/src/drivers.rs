// verification drivers compiled inside the crate (hook H6); one inline module per driver.
// Each driver is behind its own cargo feature (all on by default) so that a driver that no longer compiles
// against a changed /repo does not take the other checks' drivers down with it: vplib.cargo_build retries
// with `--no-default-features --features drv_<name>`.
#[cfg(feature = "drv_c02")]
#[allow(dead_code, unused_imports, clippy::all)]
pub mod c02 {
    include!("drivers/c02.rs");
}
#[cfg(feature = "drv_c03")]
#[allow(dead_code, unused_imports, clippy::all)]
pub mod c03 {
    include!("drivers/c03.rs");
}
#[cfg(feature = "drv_c04")]
#[allow(dead_code, unused_imports, clippy::all)]
pub mod c04 {
    include!("drivers/c04.rs");
}
#[cfg(feature = "drv_c09")]
#[allow(dead_code, unused_imports, clippy::all)]
pub mod c09 {
    include!("drivers/c09.rs");
}
#[cfg(feature = "drv_c10")]
#[allow(dead_code, unused_imports, clippy::all)]
pub mod c10 {
    include!("drivers/c10.rs");
}
#[cfg(feature = "drv_c12")]
#[allow(dead_code, unused_imports, clippy::all)]
pub mod c12 {
    include!("drivers/c12.rs");
}
#[cfg(feature = "drv_c13")]
#[allow(dead_code, unused_imports, clippy::all)]
pub mod c13 {
    include!("drivers/c13.rs");
}
#[cfg(feature = "drv_c16")]
#[allow(dead_code, unused_imports, clippy::all)]
pub mod c16 {
    include!("drivers/c16.rs");
}
#[cfg(feature = "drv_c18")]
#[allow(dead_code, unused_imports, clippy::all)]
pub mod c18 {
    include!("drivers/c18.rs");
}
#[cfg(feature = "drv_c19_rules")]
#[allow(dead_code, unused_imports, clippy::all)]
pub mod c19_rules {
    include!("drivers/c19_rules.rs");
}
#[cfg(feature = "drv_e2e")]
#[allow(dead_code, unused_imports, clippy::all)]
pub mod e2e {
    include!("drivers/e2e.rs");
}
