// verification drivers compiled inside the crate (hook H6); one inline module per driver
#[allow(dead_code, unused_imports, clippy::all)]
pub mod c02 {
    include!("drivers/c02.rs");
}
#[allow(dead_code, unused_imports, clippy::all)]
pub mod c03 {
    include!("drivers/c03.rs");
}
#[allow(dead_code, unused_imports, clippy::all)]
pub mod c04 {
    include!("drivers/c04.rs");
}
#[allow(dead_code, unused_imports, clippy::all)]
pub mod c09 {
    include!("drivers/c09.rs");
}
#[allow(dead_code, unused_imports, clippy::all)]
pub mod c10 {
    include!("drivers/c10.rs");
}
#[allow(dead_code, unused_imports, clippy::all)]
pub mod c12 {
    include!("drivers/c12.rs");
}
#[allow(dead_code, unused_imports, clippy::all)]
pub mod c13 {
    include!("drivers/c13.rs");
}
#[allow(dead_code, unused_imports, clippy::all)]
pub mod c16 {
    include!("drivers/c16.rs");
}
#[allow(dead_code, unused_imports, clippy::all)]
pub mod c18 {
    include!("drivers/c18.rs");
}
#[allow(dead_code, unused_imports, clippy::all)]
pub mod c19_rules {
    include!("drivers/c19_rules.rs");
}
#[allow(dead_code, unused_imports, clippy::all)]
pub mod e2e {
    include!("drivers/e2e.rs");
}
