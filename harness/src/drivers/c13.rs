// C13 driver: runs the REAL panic-prone sites of the agent (as compiled from the repository's
// working tree) on hostile inputs, with a process-wide panic hook and every entry point wrapped
// so that a panic is recorded (location + message) instead of ending the driver.
//
// One JSON case per stdin line, one result line `@@C13 {json}` per case on stdout (the agent
// itself `println!`s its console log, so result lines carry a marker).  No command-line
// arguments.  Environment: C13_SCRATCH = scratch directory (events/, keys/, logs/ below it).
//
// ops:
//   ev    {msg}                      event_logger::write_event (S1)
//   st    {msg}                      AgentStatusSharedState::set_module_status_message + get_module_status (S3, S1)
//   sig   {method, uri, headers, body}  hyper_client::as_sig_input on http::request::Parts (S4)
//   breq  {headers: [[k, v]..]}      hyper_client::build_request with a key (second caller of S4)
//   resp  {reply, pieces, pause_ms, kind}  raw TCP mock on 127.0.0.1 + hyper_client::get /
//                                    send_request + read_response_body (S5)
//   gs    {xml}                      GoalState from XML + get_shared_config_uri (index [0])
//   hdr   {level}                    logger::get_log_header (S7; the clock comes from the process)
//   kk    {replies, ...}             the real KeyKeeper::poll_secure_channel_status against a mock
//                                    WireServer (background task + S1 through the status message;
//                                    S6 with `latched` + `notify`)
//   events {}                        wait for the event files and return OperationId -> Message
// byte strings travel as base64 (`*_b64`).
use gpa::common::hyper_client;
use gpa::shared_state::agent_status_wrapper::{AgentStatusModule, AgentStatusSharedState};
use proxy_agent_shared::logger::LoggerLevel;
use proxy_agent_shared::telemetry::event_logger;
use serde_json::{json, Value};
use std::collections::HashMap;
use std::io::BufRead;
use std::path::PathBuf;
use std::sync::atomic::{AtomicUsize, Ordering};
use std::sync::{Arc, Mutex};
use std::time::Duration;
use tokio::io::{AsyncReadExt, AsyncWriteExt};
use tokio::net::TcpListener;

static PANICS: Mutex<Vec<(String, String)>> = Mutex::new(Vec::new());
static PUSHED: AtomicUsize = AtomicUsize::new(0);

const B64: &[u8; 64] = b"ABCDEFGHIJKLMNOPQRSTUVWXYZabcdefghijklmnopqrstuvwxyz0123456789+/";
fn b64e(data: &[u8]) -> String {
    let mut out = String::with_capacity((data.len() + 2) / 3 * 4);
    for c in data.chunks(3) {
        let b = [c[0], *c.get(1).unwrap_or(&0), *c.get(2).unwrap_or(&0)];
        let n = ((b[0] as u32) << 16) | ((b[1] as u32) << 8) | b[2] as u32;
        out.push(B64[(n >> 18) as usize & 63] as char);
        out.push(B64[(n >> 12) as usize & 63] as char);
        out.push(if c.len() > 1 { B64[(n >> 6) as usize & 63] as char } else { '=' });
        out.push(if c.len() > 2 { B64[n as usize & 63] as char } else { '=' });
    }
    out
}
fn b64d(s: &str) -> Vec<u8> {
    let mut out = Vec::with_capacity(s.len() / 4 * 3);
    let (mut acc, mut bits) = (0u32, 0);
    for ch in s.bytes() {
        let v = match ch {
            b'A'..=b'Z' => ch - b'A',
            b'a'..=b'z' => ch - b'a' + 26,
            b'0'..=b'9' => ch - b'0' + 52,
            b'+' => 62,
            b'/' => 63,
            _ => continue,
        };
        acc = (acc << 6) | v as u32;
        bits += 6;
        if bits >= 8 {
            bits -= 8;
            out.push((acc >> bits) as u8);
            acc &= (1 << bits) - 1;
        }
    }
    out
}
fn bytes_of(v: &Value, name: &str) -> Vec<u8> {
    v.get(format!("{}_b64", name)).and_then(|x| x.as_str()).map(b64d).unwrap_or_default()
}
fn take_panics() -> Vec<Value> {
    std::mem::take(&mut *PANICS.lock().unwrap())
        .into_iter()
        .map(|(loc, msg)| json!({"loc": loc, "msg": msg.chars().take(160).collect::<String>()}))
        .collect()
}
fn emit(v: Value) {
    println!("@@C13 {}", v);
}

/// yields by waking itself: the task goes to the back of the run queue at once (tokio's own
/// yield_now is deferred until the scheduler parks), so on a current-thread runtime it runs
/// between any two polls of the other tasks
struct SelfWake(bool);
impl std::future::Future for SelfWake {
    type Output = ();
    fn poll(mut self: std::pin::Pin<&mut Self>, cx: &mut std::task::Context<'_>) -> std::task::Poll<()> {
        if self.0 {
            std::task::Poll::Ready(())
        } else {
            self.0 = true;
            cx.waker().wake_by_ref();
            std::task::Poll::Pending
        }
    }
}

/// run a future in its own task so that a panic in it is caught by the runtime (the hook records it)
async fn guarded<F, T>(f: F) -> Option<T>
where
    F: std::future::Future<Output = T> + Send + 'static,
    T: Send + 'static,
{
    match tokio::spawn(f).await {
        Ok(v) => Some(v),
        Err(_) => None,
    }
}

// -------------------------------------------------------------------------------------------
// raw TCP mock: answers each accepted connection's requests with the scripted raw replies
// -------------------------------------------------------------------------------------------
#[derive(Clone)]
struct Reply {
    raw: Vec<u8>,
    pieces: Vec<usize>,
    pause_ms: u64,
    close: bool,
}
struct Mock {
    port: u16,
    requests: Arc<AtomicUsize>,
    seen: Arc<Mutex<Vec<String>>>,
    handle: tokio::task::JoinHandle<()>,
}
async fn start_mock(replies: Vec<Reply>, default_reply: Option<Reply>) -> Mock {
    let mut listener = None;
    for _ in 0..50 {
        if let Ok(l) = TcpListener::bind("127.0.0.1:0").await {
            listener = Some(l);
            break;
        }
        tokio::time::sleep(Duration::from_millis(20)).await;
    }
    let listener = listener.expect("bind mock");
    let port = listener.local_addr().unwrap().port();
    let requests = Arc::new(AtomicUsize::new(0));
    let seen = Arc::new(Mutex::new(Vec::new()));
    let (rq, sn) = (requests.clone(), seen.clone());
    let replies = Arc::new(Mutex::new(std::collections::VecDeque::from(replies)));
    let handle = tokio::spawn(async move {
        loop {
            let (mut s, _) = match listener.accept().await {
                Ok(x) => x,
                Err(_) => return,
            };
            let _ = s.set_nodelay(true);
            let (rq, sn, replies, default_reply) = (rq.clone(), sn.clone(), replies.clone(), default_reply.clone());
            tokio::spawn(async move {
                let mut buf = Vec::new();
                loop {
                    // read one request head (bodies of the agent's own requests here are empty or small
                    // and arrive with the head; content-length bodies are skipped)
                    let head_end;
                    loop {
                        if let Some(p) = buf.windows(4).position(|w| w == b"\r\n\r\n") {
                            head_end = p + 4;
                            break;
                        }
                        let mut tmp = [0u8; 8192];
                        match s.read(&mut tmp).await {
                            Ok(0) | Err(_) => return,
                            Ok(n) => buf.extend_from_slice(&tmp[..n]),
                        }
                    }
                    let head = String::from_utf8_lossy(&buf[..head_end]).to_string();
                    let cl = head
                        .lines()
                        .find_map(|l| {
                            let l = l.to_ascii_lowercase();
                            l.strip_prefix("content-length:").map(|v| v.trim().parse::<usize>().unwrap_or(0))
                        })
                        .unwrap_or(0);
                    while buf.len() < head_end + cl {
                        let mut tmp = [0u8; 8192];
                        match s.read(&mut tmp).await {
                            Ok(0) | Err(_) => return,
                            Ok(n) => buf.extend_from_slice(&tmp[..n]),
                        }
                    }
                    buf.drain(..head_end + cl);
                    rq.fetch_add(1, Ordering::SeqCst);
                    sn.lock().unwrap().push(head.lines().next().unwrap_or("").to_string());
                    let reply = replies.lock().unwrap().pop_front().or(default_reply.clone());
                    let reply = match reply {
                        Some(r) => r,
                        None => return,
                    };
                    let mut pos = 0;
                    for (i, n) in reply.pieces.iter().enumerate() {
                        let end = (pos + n).min(reply.raw.len());
                        if s.write_all(&reply.raw[pos..end]).await.is_err() {
                            return;
                        }
                        let _ = s.flush().await;
                        pos = end;
                        if i + 1 < reply.pieces.len() || pos < reply.raw.len() {
                            tokio::time::sleep(Duration::from_millis(reply.pause_ms)).await;
                        }
                    }
                    if pos < reply.raw.len() && s.write_all(&reply.raw[pos..]).await.is_err() {
                        return;
                    }
                    let _ = s.flush().await;
                    if reply.close {
                        let _ = s.shutdown().await;
                        return;
                    }
                }
            });
        }
    });
    Mock { port, requests, seen, handle }
}
fn reply_of(v: &Value) -> Reply {
    Reply {
        raw: bytes_of(v, "reply"),
        pieces: v.get("pieces").and_then(|p| p.as_array()).map(|a| a.iter().filter_map(|x| x.as_u64()).map(|x| x as usize).collect()).unwrap_or_default(),
        pause_ms: v.get("pause_ms").and_then(|x| x.as_u64()).unwrap_or(30),
        close: v.get("close").and_then(|x| x.as_bool()).unwrap_or(false),
    }
}

#[derive(serde_derive::Deserialize, Debug)]
#[allow(dead_code)]
struct XmlDoc {
    #[serde(default)]
    a: String,
}

// -------------------------------------------------------------------------------------------
// event files
// -------------------------------------------------------------------------------------------
fn read_events(dir: &PathBuf) -> Vec<(String, String)> {
    let mut out = Vec::new();
    if let Ok(rd) = std::fs::read_dir(dir) {
        let mut files: Vec<_> = rd.filter_map(|e| e.ok()).map(|e| e.path()).collect();
        files.sort();
        for f in files {
            if let Ok(txt) = std::fs::read_to_string(&f) {
                if let Ok(Value::Array(evs)) = serde_json::from_str::<Value>(&txt) {
                    for e in evs {
                        let op = e.get("OperationId").and_then(|x| x.as_str()).unwrap_or("").to_string();
                        let msg = e.get("Message").and_then(|x| x.as_str()).unwrap_or("").to_string();
                        out.push((op, msg));
                    }
                }
            }
        }
    }
    out
}
async fn sync_events(dir: &PathBuf, want: usize) -> Vec<(String, String)> {
    // the agent's own event-logger loop (started below with a 20 ms interval) drains the queue
    for _ in 0..1500 {
        let evs = read_events(dir);
        let mine = evs.iter().filter(|(op, _)| op.starts_with("c13-")).count();
        if mine >= want {
            return evs;
        }
        tokio::time::sleep(Duration::from_millis(20)).await;
    }
    read_events(dir)
}

async fn run_case(v: Value, scratch: &PathBuf) -> Value {
    let id = v.get("id").cloned().unwrap_or(Value::Null);
    let op = v.get("op").and_then(|x| x.as_str()).unwrap_or("").to_string();
    let _ = take_panics();
    match op.as_str() {
        "ev" => {
            let msg = String::from_utf8(bytes_of(&v, "msg")).expect("ev: msg must be UTF-8 (a Rust String)");
            let tag = format!("c13-{}", id);
            let r = std::panic::catch_unwind(move || {
                event_logger::write_event(LoggerLevel::Info, msg, "c13", &tag, "c13_no_such_logger");
            });
            if r.is_ok() {
                let n = PUSHED.fetch_add(1, Ordering::SeqCst) + 1;
                if n % 400 == 0 {
                    sync_events(&scratch.join("events"), n).await;
                }
            }
            json!({"id": id, "op": op, "panicked": r.is_err(), "panics": take_panics()})
        }
        "st" => {
            let msg = String::from_utf8(bytes_of(&v, "msg")).expect("st: msg must be UTF-8");
            let st = AgentStatusSharedState::start_new();
            let (s1, m1) = (st.clone(), msg.clone());
            let set = guarded(async move { s1.set_module_status_message(m1, AgentStatusModule::KeyKeeper).await.ok() }).await;
            let set_panics = take_panics();
            let s2 = st.clone();
            let got = guarded(async move { s2.get_module_status(AgentStatusModule::KeyKeeper).await.message }).await;
            let get_panics = take_panics();
            // liveness: the status actor still answers afterwards
            let s3 = st.clone();
            let alive = guarded(async move { s3.get_module_status_message(AgentStatusModule::KeyKeeper).await.is_ok() }).await;
            json!({"id": id, "op": op, "set_panicked": set.is_none(), "set_updated": set.flatten(),
                   "get_panicked": got.is_none(), "message_b64": got.map(|m| b64e(m.as_bytes())),
                   "actor_alive": alive == Some(true), "set_panics": set_panics, "get_panics": get_panics})
        }
        "sig" => {
            let method = v.get("method").and_then(|x| x.as_str()).unwrap_or("GET").to_string();
            let uri = v.get("uri").and_then(|x| x.as_str()).unwrap_or("/").to_string();
            let mut b = http::Request::builder().method(method.as_str()).uri(uri.as_str());
            let mut invalid = false;
            for h in v.get("headers").and_then(|x| x.as_array()).cloned().unwrap_or_default() {
                let name = h[0].as_str().unwrap_or("");
                let val = b64d(h[1].as_str().unwrap_or(""));
                match (http::header::HeaderName::from_bytes(name.as_bytes()), http::header::HeaderValue::from_bytes(&val)) {
                    (Ok(n), Ok(hv)) => b = b.header(n, hv),
                    _ => invalid = true,
                }
            }
            let body = bytes_of(&v, "body");
            match b.body(()) {
                Ok(req) if !invalid => {
                    let (parts, _) = req.into_parts();
                    let r = std::panic::catch_unwind(std::panic::AssertUnwindSafe(move || {
                        hyper_client::as_sig_input(parts, hyper::body::Bytes::from(body))
                    }));
                    json!({"id": id, "op": op, "valid": true, "panicked": r.is_err(),
                           "out_b64": r.ok().map(|o| b64e(&o)), "panics": take_panics()})
                }
                _ => json!({"id": id, "op": op, "valid": false, "panicked": false, "panics": take_panics()}),
            }
        }
        "breq" => {
            let mut headers = HashMap::new();
            for h in v.get("headers").and_then(|x| x.as_array()).cloned().unwrap_or_default() {
                headers.insert(h[0].as_str().unwrap_or("").to_string(), String::from_utf8_lossy(&b64d(h[1].as_str().unwrap_or(""))).to_string());
            }
            let url: hyper::Uri = "http://127.0.0.1:1/x?y=1".parse().unwrap();
            let r = std::panic::catch_unwind(std::panic::AssertUnwindSafe(move || {
                hyper_client::build_request(http::Method::GET, &url, &headers, None, Some("guid".to_string()), Some("00ff".repeat(16)))
                    .map(|_| ())
                    .map_err(|e| e.to_string())
            }));
            json!({"id": id, "op": op, "panicked": r.is_err(), "result": match &r { Ok(Ok(())) => "ok".to_string(), Ok(Err(e)) => format!("err:{}", e.chars().take(60).collect::<String>()), Err(_) => "panic".to_string() },
                   "panics": take_panics()})
        }
        "resp" => {
            let mock = start_mock(vec![reply_of(&v)], None).await;
            let url: hyper::Uri = format!("http://127.0.0.1:{}/c13", mock.port).parse().unwrap();
            let kind = v.get("kind").and_then(|x| x.as_str()).unwrap_or("json").to_string();
            let via = v.get("via").and_then(|x| x.as_str()).unwrap_or("get").to_string();
            let port = mock.port;
            let res = guarded(async move {
                let headers = HashMap::new();
                if via == "send" {
                    // send_request + read_response_body directly (any status)
                    let req = match hyper_client::build_request(http::Method::GET, &url, &headers, None, None, None) {
                        Ok(r) => r,
                        Err(e) => return format!("err:{}", e),
                    };
                    let resp = match hyper_client::send_request("127.0.0.1", port, req, |_| {}).await {
                        Ok(r) => r,
                        Err(e) => return format!("err:{}", e),
                    };
                    if kind == "xml" {
                        match hyper_client::read_response_body::<XmlDoc>(resp).await { Ok(_) => "ok".to_string(), Err(e) => format!("err:{}", e) }
                    } else {
                        match hyper_client::read_response_body::<Value>(resp).await { Ok(j) => format!("ok:{}", j), Err(e) => format!("err:{}", e) }
                    }
                } else if kind == "xml" {
                    match hyper_client::get::<XmlDoc, _>(&url, &headers, None, None, |_| {}).await { Ok(_) => "ok".to_string(), Err(e) => format!("err:{}", e) }
                } else {
                    match hyper_client::get::<Value, _>(&url, &headers, None, None, |_| {}).await { Ok(j) => format!("ok:{}", j), Err(e) => format!("err:{}", e) }
                }
            })
            .await;
            mock.handle.abort();
            let text = res.clone().unwrap_or_default();
            json!({"id": id, "op": op, "panicked": res.is_none(), "result_b64": b64e(text.as_bytes()),
                   "result_len": text.len(), "panics": take_panics()})
        }
        "gs" => {
            let xml = String::from_utf8_lossy(&bytes_of(&v, "xml")).to_string();
            let parsed = serde_xml_rs::from_str::<gpa::host_clients::goal_state::GoalState>(&xml);
            match parsed {
                Ok(gs) => {
                    let r = std::panic::catch_unwind(std::panic::AssertUnwindSafe(move || gs.get_shared_config_uri()));
                    json!({"id": id, "op": op, "parsed": true, "panicked": r.is_err(), "uri": r.ok(), "panics": take_panics()})
                }
                Err(e) => json!({"id": id, "op": op, "parsed": false, "panicked": false, "error": e.to_string().chars().take(80).collect::<String>(), "panics": take_panics()}),
            }
        }
        "hdr" => {
            let level = match v.get("level").and_then(|x| x.as_str()).unwrap_or("INFO") {
                "ERROR" => LoggerLevel::Error,
                "WARN" => LoggerLevel::Warn,
                "DEBUG" => LoggerLevel::Debug,
                "TRACE" => LoggerLevel::Trace,
                _ => LoggerLevel::Info,
            };
            // with tools/c13_fakeclock.c preloaded, C13_FAKE_NSEC fixes the sub-second part of the clock
            if let Some(ns) = v.get("nanos").and_then(|x| x.as_u64()) {
                std::env::set_var("C13_FAKE_NSEC", ns.to_string());
            }
            let date = proxy_agent_shared::misc_helpers::get_date_time_string_with_milliseconds();
            let r = std::panic::catch_unwind(move || proxy_agent_shared::logger::get_log_header(level));
            std::env::remove_var("C13_FAKE_NSEC");
            json!({"id": id, "op": op, "date": date, "panicked": r.is_err(), "header": r.ok(), "panics": take_panics()})
        }
        "kk" => {
            // the real key-keeper task against a mock WireServer
            let replies: Vec<Reply> = v.get("replies").and_then(|x| x.as_array()).map(|a| a.iter().map(reply_of).collect()).unwrap_or_default();
            let default_reply = v.get("default_reply").map(reply_of);
            let mock = start_mock(replies, default_reply).await;
            let n = v.get("n").and_then(|x| x.as_u64()).unwrap_or(0);
            let dir = scratch.join(format!("kk{}", n));
            let shared = gpa::shared_state::SharedState::start_all();
            let interval = Duration::from_millis(v.get("interval_ms").and_then(|x| x.as_u64()).unwrap_or(50));
            let base: hyper::Uri = format!("http://127.0.0.1:{}/", mock.port).parse().unwrap();
            let kk = gpa::key_keeper::KeyKeeper::new(base, dir.join("keys"), dir.join("logs"), interval, &shared);
            let kks = shared.get_key_keeper_shared_state();
            if let Some(state) = v.get("state").and_then(|x| x.as_str()) {
                let _ = kks.update_current_secure_channel_state(state.to_string()).await;
            }
            let pre_notify = v.get("notify").and_then(|x| x.as_bool()).unwrap_or(false);
            if pre_notify {
                let _ = kks.notify().await;
            }
            // an optional CPU hog on the same (current-thread-like) schedule is not needed: the
            // blocker task below makes wall-clock time pass whenever the keeper yields
            let block_ms = v.get("block_ms").and_then(|x| x.as_u64()).unwrap_or(0);
            let blocker = if block_ms > 0 {
                Some(tokio::spawn(async move {
                    loop {
                        std::thread::sleep(Duration::from_millis(block_ms));
                        SelfWake(false).await;
                    }
                }))
            } else {
                None
            };
            let task = tokio::spawn(async move { kk.poll_secure_channel_status().await });
            let want = v.get("want_polls").and_then(|x| x.as_u64()).unwrap_or(2) as usize;
            let deadline = std::time::Instant::now() + Duration::from_millis(v.get("max_ms").and_then(|x| x.as_u64()).unwrap_or(4000));
            while std::time::Instant::now() < deadline && !task.is_finished() && mock.requests.load(Ordering::SeqCst) < want {
                tokio::time::sleep(Duration::from_millis(10)).await;
            }
            // give a panicking task the time to be observed as finished
            tokio::time::sleep(Duration::from_millis(v.get("settle_ms").and_then(|x| x.as_u64()).unwrap_or(60))).await;
            let finished = task.is_finished();
            let polls = mock.requests.load(Ordering::SeqCst);
            let status = shared.get_agent_status_shared_state();
            let s2 = status.clone();
            let msg = guarded(async move { s2.get_module_status_message(AgentStatusModule::KeyKeeper).await.unwrap_or_default() }).await;
            // "keeps publishing status": the aggregate status of the module can still be produced
            let s3 = status.clone();
            let publish = guarded(async move { s3.get_module_status(AgentStatusModule::KeyKeeper).await.message }).await;
            shared.cancel_cancellation_token();
            tokio::time::sleep(Duration::from_millis(20)).await;
            let panicked = if task.is_finished() { matches!(task.await, Err(e) if e.is_panic()) } else { task.abort(); false };
            if let Some(b) = blocker {
                b.abort();
            }
            mock.handle.abort();
            let seen = mock.seen.lock().unwrap().clone();
            json!({"id": id, "op": op, "task_finished_early": finished, "task_panicked": panicked, "polls": polls, "seen": seen,
                   "status_message_b64": msg.map(|m| b64e(m.as_bytes())), "publish_ok": publish.is_some(),
                   "panics": take_panics()})
        }
        "xml" => {
            let text = String::from_utf8(bytes_of(&v, "text")).expect("xml: text must be UTF-8");
            let r = std::panic::catch_unwind(move || gpa::common::helpers::xml_escape(text));
            json!({"id": id, "op": op, "panicked": r.is_err(), "out_b64": r.ok().map(|o| b64e(o.as_bytes())), "panics": take_panics()})
        }
        "tel" => {
            // a telemetry event as the event reader builds it: message and names are caller / host controlled
            let msg = String::from_utf8(bytes_of(&v, "msg")).expect("tel: msg must be UTF-8");
            let name = String::from_utf8(bytes_of(&v, "name")).expect("tel: name must be UTF-8");
            let r = std::panic::catch_unwind(move || {
                let ev = proxy_agent_shared::telemetry::Event::new("Informational".to_string(), msg, name.clone(), name.clone());
                let meta = gpa::telemetry::event_reader::VmMetaData {
                    container_id: name.clone(), tenant_name: name.clone(), role_name: name.clone(), role_instance_name: name.clone(),
                    subscription_id: name.clone(), resource_group_name: name.clone(), vm_id: name.clone(), image_origin: 3,
                };
                let mut data = gpa::telemetry::telemetry_event::TelemetryData::new();
                data.add_event(gpa::telemetry::telemetry_event::TelemetryEvent::from_event_log(&ev, meta));
                data.to_xml()
            });
            json!({"id": id, "op": op, "panicked": r.is_err(), "xml_len": r.as_ref().map(|x| x.len()).unwrap_or(0), "panics": take_panics()})
        }
        "prov" => {
            // provisioning time-up with a hostile key-keeper status message: provision_timeup ->
            // write_provision_state (awaited inline by the key-keeper loop)
            let msg = String::from_utf8(bytes_of(&v, "msg")).expect("prov: msg must be UTF-8");
            let n = v.get("n").and_then(|x| x.as_u64()).unwrap_or(0);
            let dir = scratch.join(format!("prov{}", n));
            let _ = std::fs::create_dir_all(&dir);
            let shared = gpa::shared_state::SharedState::start_all();
            let status = shared.get_agent_status_shared_state();
            let (s1, m1) = (status.clone(), msg.clone());
            let set = guarded(async move { s1.set_module_status_message(m1, AgentStatusModule::KeyKeeper).await.ok() }).await;
            let set_panics = take_panics();
            let (ps, st, d) = (shared.get_provision_shared_state(), status.clone(), dir.clone());
            let done = guarded(async move { gpa::provision::provision_timeup(Some(d), ps, st).await }).await;
            let files: Vec<String> = std::fs::read_dir(&dir).map(|rd| rd.filter_map(|e| e.ok()).map(|e| e.file_name().to_string_lossy().to_string()).collect()).unwrap_or_default();
            shared.cancel_cancellation_token();
            json!({"id": id, "op": op, "set_panicked": set.is_none(), "panicked": done.is_none(), "files": files,
                   "set_panics": set_panics, "panics": take_panics()})
        }
        "live" => {
            // listener liveness: caller A's recorded destination drops SYNs (listening socket whose
            // accept queue is full), caller B must be answered while A's host connect is still pending
            use gpa::redirector::verif_hooks as hooks;
            let bound_ms = v.get("bound_ms").and_then(|x| x.as_u64()).unwrap_or(30000);
            // 1. the black hole
            let sock = tokio::net::TcpSocket::new_v4().unwrap();
            sock.bind("127.0.0.1:0".parse().unwrap()).unwrap();
            let hole = sock.listen(0).unwrap();
            let hole_port = hole.local_addr().unwrap().port();
            let mut fillers = Vec::new();
            let mut full = false;
            for _ in 0..16 {
                match tokio::time::timeout(Duration::from_millis(700), tokio::net::TcpStream::connect(("127.0.0.1", hole_port))).await {
                    Ok(Ok(c)) => fillers.push(c),
                    Ok(Err(_)) => {}
                    Err(_) => {
                        full = true;
                        break;
                    }
                }
            }
            // 2. a normal host for caller B
            let ok_reply = Reply { raw: b"HTTP/1.1 200 OK\r\nContent-Length: 2\r\n\r\nok".to_vec(), pieces: vec![], pause_ms: 0, close: false };
            let mock = start_mock(vec![], Some(ok_reply)).await;
            // 3. the real listener
            let shared = gpa::shared_state::SharedState::start_all();
            let mut proxy_port = 0u16;
            let mut server_task = None;
            for _ in 0..30 {
                let l = std::net::TcpListener::bind("127.0.0.1:0").unwrap();
                let p = l.local_addr().unwrap().port();
                drop(l);
                let server = gpa::proxy::proxy_server::ProxyServer::new(p, &shared);
                let t = tokio::spawn(async move { server.start().await });
                let status = shared.get_agent_status_shared_state();
                let mut up = false;
                for _ in 0..4000 {
                    if status.get_module_status(AgentStatusModule::ProxyServer).await.status == proxy_agent_shared::proxy_agent_aggregate_status::ModuleState::RUNNING {
                        up = true;
                        break;
                    }
                    if t.is_finished() {
                        break;
                    }
                    tokio::time::sleep(Duration::from_millis(2)).await;
                }
                if up {
                    proxy_port = p;
                    server_task = Some(t);
                    break;
                }
                t.abort();
            }
            hooks::enable();
            let lo = u32::from_le_bytes([127, 0, 0, 1]);
            let me = std::process::id();
            async fn client(proxy_port: u16, dest: (u32, u16), me: u32) -> (tokio::net::TcpStream, u16) {
                let sock = tokio::net::TcpSocket::new_v4().unwrap();
                sock.bind("127.0.0.1:0".parse().unwrap()).unwrap();
                let lp = sock.local_addr().unwrap().port();
                gpa::redirector::verif_hooks::insert(lp, (0, me, 1, dest.0, dest.1.to_be()));
                let mut c = sock.connect(format!("127.0.0.1:{}", proxy_port).parse().unwrap()).await.unwrap();
                let _ = c.write_all(b"GET /metadata/instance?api-version=1 HTTP/1.1\r\nHost: x\r\n\r\n").await;
                (c, lp)
            }
            async fn first_bytes(c: &mut tokio::net::TcpStream, ms: u64) -> Option<String> {
                let mut buf = [0u8; 64];
                match tokio::time::timeout(Duration::from_millis(ms), c.read(&mut buf)).await {
                    Ok(Ok(n)) if n > 0 => Some(String::from_utf8_lossy(&buf[..n.min(15)]).to_string()),
                    _ => None,
                }
            }
            let (mut a, _) = client(proxy_port, (lo, hole_port), me).await;
            tokio::time::sleep(Duration::from_millis(300)).await;
            let t0 = std::time::Instant::now();
            let (mut b, _) = client(proxy_port, (lo, mock.port), me).await;
            let b_answer = first_bytes(&mut b, bound_ms).await;
            let b_ms = t0.elapsed().as_millis() as u64;
            // is A still pending (no byte yet)?  -> its host connect is still in SYN retries
            let a_answer = first_bytes(&mut a, 50).await;
            // a third caller on a fresh connection, also while A is pending
            let (mut c3, _) = client(proxy_port, (lo, mock.port), me).await;
            let c_answer = first_bytes(&mut c3, bound_ms).await;
            shared.cancel_cancellation_token();
            if let Some(t) = server_task {
                t.abort();
            }
            mock.handle.abort();
            drop(fillers);
            json!({"id": id, "op": op, "blackhole_full": full, "listening": proxy_port != 0, "b_answer": b_answer, "b_ms": b_ms,
                   "a_pending": a_answer.is_none(), "a_answer": a_answer, "c_answer": c_answer, "panics": take_panics()})
        }
        "telrun" => {
            // the real telemetry reader over event files produced by the real event logger from
            // escape-dense messages cut at the logger's own MAX_MESSAGE_LENGTH; on a current-thread
            // runtime a task that spins without yielding freezes this very future: the watchdog
            // THREAD then reports and ends the process
            let bound_ms = v.get("bound_ms").and_then(|x| x.as_u64()).unwrap_or(60000);
            let done = Arc::new(std::sync::atomic::AtomicBool::new(false));
            let (d2, idc) = (done.clone(), id.clone());
            std::thread::spawn(move || {
                let t0 = std::time::Instant::now();
                while t0.elapsed().as_millis() < bound_ms as u128 {
                    std::thread::sleep(Duration::from_millis(50));
                    if d2.load(Ordering::SeqCst) {
                        return;
                    }
                }
                emit(json!({"id": idc, "op": "telrun", "hung": true, "bound_ms": bound_ms, "panics": take_panics()}));
                std::process::exit(0);
            });
            let maxlen = event_logger::MAX_MESSAGE_LENGTH;
            let mult = v.get("mult").and_then(|x| x.as_u64()).unwrap_or(4) as usize;
            let mut sent = 0usize;
            for (k, unit) in v.get("units").and_then(|x| x.as_array()).cloned().unwrap_or_default().iter().enumerate() {
                let unit = unit.as_str().unwrap_or("'").to_string();
                let msg = format!("{{\"url\":\"/{}\"}}", unit.repeat(maxlen * mult / unit.len().max(1) + 1));
                let tag = format!("c13-tel{}", k);
                if std::panic::catch_unwind(move || event_logger::write_event(LoggerLevel::Info, msg, "telrun", &tag, "c13_no_such_logger")).is_ok() {
                    sent += 1;
                }
                if k % 3 == 2 {
                    // several files: wait for the logger loop to flush
                    tokio::time::sleep(Duration::from_millis(60)).await;
                }
            }
            let evdir = scratch.join("events");
            let evs = sync_events(&evdir, sent).await;
            let longest = evs.iter().map(|(_, m)| m.len()).max().unwrap_or(0);
            let n = "c13".to_string();
            let meta = gpa::telemetry::event_reader::VmMetaData {
                container_id: n.clone(), tenant_name: n.clone(), role_name: n.clone(), role_instance_name: n.clone(),
                subscription_id: n.clone(), resource_group_name: n.clone(), vm_id: n.clone(), image_origin: 3,
            };
            if v.get("oversize").and_then(|x| x.as_bool()).unwrap_or(false) {
                // a hand-made event file (the reader does not care who wrote it): events that are over the
                // 64 KiB limit on their own, plainly and only after escaping, between ordinary ones
                let mk = |m: String, k: usize| proxy_agent_shared::telemetry::Event::new("Informational".to_string(), m, "telrun".to_string(), format!("c13-big{}", k));
                let evs = vec![mk("x".to_string(), 0), mk("a".repeat(70000), 1), mk("y".repeat(20000), 2), mk("'".repeat(11000), 3),
                               mk("z".repeat(30000), 4), mk("&".repeat(14000), 5), mk("w".to_string(), 6)];
                let _ = proxy_agent_shared::misc_helpers::json_write_to_file(&evs, &evdir.join("0_c13_oversize.json"));
            }
            // rendered size of every event of every file, by the real code (file order)
            let envelope = gpa::telemetry::telemetry_event::TelemetryData::new().get_size();
            let mut file_sizes: Vec<Vec<usize>> = Vec::new();
            if let Ok(rd) = std::fs::read_dir(&evdir) {
                let mut fs: Vec<_> = rd.filter_map(|e| e.ok()).map(|e| e.path()).filter(|p| p.to_string_lossy().ends_with(".json")).collect();
                fs.sort();
                for f in fs {
                    if let Ok(evs) = proxy_agent_shared::misc_helpers::json_read_from_file::<Vec<proxy_agent_shared::telemetry::Event>>(&f) {
                        file_sizes.push(evs.iter().map(|e| {
                            let mut d = gpa::telemetry::telemetry_event::TelemetryData::new();
                            d.add_event(gpa::telemetry::telemetry_event::TelemetryEvent::from_event_log(e, meta.clone()));
                            d.get_size() - envelope
                        }).collect());
                    }
                }
            }
            let files_before = std::fs::read_dir(&evdir).map(|d| d.count()).unwrap_or(0);
            let ok_reply = Reply { raw: b"HTTP/1.1 200 OK\r\nContent-Length: 0\r\n\r\n".to_vec(), pieces: vec![], pause_ms: 0, close: false };
            let mock = start_mock(vec![], Some(ok_reply)).await;
            let shared = gpa::shared_state::SharedState::start_all();
            let tel = shared.get_telemetry_shared_state();
            let _ = tel.set_vm_meta_data(Some(meta.clone())).await;
            let reader = gpa::telemetry::event_reader::EventReader::new(
                evdir.clone(), false, shared.get_cancellation_token(), shared.get_key_keeper_shared_state(), tel.clone(),
                shared.get_agent_status_shared_state(),
            );
            let port = mock.port;
            let task = tokio::spawn(async move { reader.start(Some(Duration::from_millis(100)), Some("127.0.0.1"), Some(port)).await });
            // heartbeat: another task of the same runtime must keep running while the reader works
            let beats = Arc::new(AtomicUsize::new(0));
            let b2 = beats.clone();
            let hb = tokio::spawn(async move {
                loop {
                    b2.fetch_add(1, Ordering::SeqCst);
                    tokio::time::sleep(Duration::from_millis(5)).await;
                }
            });
            let t0 = std::time::Instant::now();
            let mut files_left = files_before;
            while (t0.elapsed().as_millis() as u64) < bound_ms.saturating_sub(5000) {
                files_left = std::fs::read_dir(&evdir).map(|d| d.filter_map(|e| e.ok()).filter(|e| e.file_name().to_string_lossy().ends_with(".json")).count()).unwrap_or(0);
                if files_left == 0 || task.is_finished() {
                    break;
                }
                tokio::time::sleep(Duration::from_millis(20)).await;
            }
            let posts = mock.seen.lock().unwrap().iter().filter(|l| l.starts_with("POST")).count();
            let reader_panicked = task.is_finished();
            shared.cancel_cancellation_token();
            tokio::time::sleep(Duration::from_millis(30)).await;
            task.abort();
            hb.abort();
            mock.handle.abort();
            done.store(true, Ordering::SeqCst);
            json!({"id": id, "op": op, "hung": false, "max_message_length": maxlen, "events_written": sent, "longest_queued": longest,
                   "files_before": files_before, "files_left": files_left, "posts": posts, "envelope": envelope, "file_sizes": file_sizes, "reader_ended": reader_panicked,
                   "heartbeats": beats.load(Ordering::SeqCst), "elapsed_ms": t0.elapsed().as_millis() as u64, "panics": take_panics()})
        }
        "events" => {
            let evs = sync_events(&scratch.join("events"), PUSHED.load(Ordering::SeqCst)).await;
            let m: Vec<Value> = evs.iter().filter(|(o, _)| o.starts_with("c13-")).map(|(o, m)| json!([o[4..], b64e(m.as_bytes())])).collect();
            json!({"id": id, "op": op, "pushed": PUSHED.load(Ordering::SeqCst), "events": m})
        }
        _ => json!({"id": id, "op": op, "error": "unknown op"}),
    }
}

pub fn main() {
    let scratch = PathBuf::from(std::env::var("C13_SCRATCH").expect("C13_SCRATCH"));
    for d in ["events", "keys", "logs"] {
        std::fs::create_dir_all(scratch.join(d)).unwrap();
    }
    // configuration beside the executable (DESIGN 1.7); the check runs a private copy of the driver
    let exe_dir = std::env::current_exe().unwrap().parent().unwrap().to_path_buf();
    let cfg = json!({
        "logFolder": scratch.join("logs"), "eventFolder": scratch.join("events"), "latchKeyFolder": scratch.join("keys"),
        "monitorIntervalInSeconds": 60, "pollKeyStatusIntervalInSeconds": 15, "hostGAPluginSupport": 1,
        "ebpfProgramName": "ebpf_cgroup.o", "cgroupRoot": "/sys/fs/cgroup", "fileLogLevel": "Info"
    });
    if !exe_dir.join("proxy-agent.json").exists() {
        let _ = std::fs::write(exe_dir.join("proxy-agent.json"), serde_json::to_vec_pretty(&cfg).unwrap());
    }
    std::panic::set_hook(Box::new(|info| {
        let loc = info.location().map(|l| format!("{}:{}", l.file(), l.line())).unwrap_or_default();
        let msg = if let Some(s) = info.payload().downcast_ref::<&str>() {
            s.to_string()
        } else if let Some(s) = info.payload().downcast_ref::<String>() {
            s.clone()
        } else {
            "?".to_string()
        };
        PANICS.lock().unwrap().push((loc, msg));
    }));
    let threads: usize = std::env::var("C13_THREADS").ok().and_then(|v| v.parse().ok()).unwrap_or(2);
    let rt = if threads == 0 {
        tokio::runtime::Builder::new_current_thread().enable_all().build().unwrap()
    } else {
        tokio::runtime::Builder::new_multi_thread().worker_threads(threads).enable_all().build().unwrap()
    };
    rt.block_on(async {
        if std::env::var("C13_NO_EVENT_LOOP").is_err() {
            let dir = scratch.join("events");
            tokio::spawn(async move {
                event_logger::start(dir, Duration::from_millis(20), 1_000_000, |_| async {}).await;
            });
        }
        let stdin = std::io::stdin();
        for line in stdin.lock().lines() {
            let line = match line {
                Ok(l) => l,
                Err(_) => break,
            };
            if line.trim().is_empty() {
                continue;
            }
            let v: Value = match serde_json::from_str(&line) {
                Ok(v) => v,
                Err(e) => {
                    emit(json!({"error": format!("bad json: {}", e)}));
                    continue;
                }
            };
            let out = run_case(v, &scratch).await;
            emit(out);
        }
    });
    std::process::exit(0);
}
