// C10 correspondence driver: deterministic schedules on the REAL signing code.
//
// One JSON scenario per stdin line, one JSON result per line on the ORIGINAL stdout (fd 1 is
// re-pointed to `$C10_SCRATCH/agent_stdout.log` first: the agent `println!`s its console log).
// No command-line arguments (DESIGN 1.7); `proxy-agent.json` is written beside the executable, so
// the check runs a private copy of this binary from its own scratch directory.
//
// kind "hand"  -- the agent's own host calls, polled BY HAND on a current_thread runtime:
//   {"kind":"hand","pre":[op..],"signers":[{"route":"goalstate|sharedconfig|imds|telemetry"}..],
//    "schedule":[["p",i] | ["k",op] ..]}
//   A fresh `KeyKeeperSharedState::start_new()` actor per scenario; `pre` operations are run to
//   completion first; every signer is the real future (`WireServerClient::get_goalstate`, ...)
//   against its own mock host on 127.0.0.1:<port> (raw TCP, records the request bytes).
//   ["p",i] = poll signer i's future ONCE with a no-op waker, then let every spawned task (the
//   actor) drain (`yield_now` x50); ["k",op] = run `update_key` / `clear_key` to completion.
//   After the schedule every signer is driven to completion.  Reported per signer:
//   `reads` = number of polls that returned Pending before the poll that issued the TCP connect
//   (every await before the connect is an actor round trip), the request bytes, the poll count.
//   op = {"set":{"guid":..,"key":hex}} | {"clear":true}
//   HOST FAULTS: a signer may carry "replies":[{"status":403,"mode":"normal|close|partial","ops":[op..]}..]
//   -- the k-th request the signer's mock host receives (over all its connections) is answered by
//   the k-th entry (default: 200): `ops` are run to completion by the mock BEFORE it answers (the
//   key keeper latches a new key while the request is being rejected), "close" = the connection is
//   closed without an answer, "partial" = half a status line, then closed.  Schedule item
//   ["w",i,n] = poll signer i until its mock host has dealt with n requests (the future has not
//   yet been polled since), so that ["k",op] lands between a rejection and any follow-up.
//   EVERY request a mock host receives is reported, with the schedule position it arrived at.
//
// kind "proxy" -- the proxied route through the REAL listener (`ProxyServer::start`, hook H1 for the
//   attribution record): the client sends the request head, the handler parks in `body.collect()`;
//   then the last body byte is released and an injector TASK takes `steps` scheduler turns (a
//   self-waking yield = one position in the runtime's FIFO run queue) before running the keeper
//   operations.  `steps: null` = calibration: never inject, report how many turns the injector
//   took until the response arrived.
//   {"kind":"proxy","pre":[op..],"ops":[op..],"steps":n|null,"up_replies":[reply..]}
//   `up_replies` scripts the upstream mock host like "replies" above; "client_auth":[v..] makes the
//   client's own request carry x-ms-azure-host-authorization header lines with these values.
//
// kind "latch" -- pairing at LATCH time: the REAL key keeper (`KeyKeeper::new` +
//   `poll_secure_channel_status`, fresh `SharedState::start_all()`) polls an in-process mock of the
//   host's secure-channel endpoints, with key files prepared in its key folder; after every
//   completed poll the actor's key is read back and the real host calls sign against a mock host.
//   {"kind":"latch","files":[{"name":"<guid>.key","doc":{..}|"raw":".."}..],
//    "steps":[{"status":{..status document..},"acquire":{..key document..}|null,"attest":200}..],
//    "sign":["goalstate","imds"]}
//   Status request n is withheld until step n is released; its arrival means poll n-1 is complete.
//   Reported per step: the actor's (guid, value), the key folder (name, content guid), the requests
//   the signing calls produced, and the key-attestation requests the host received.
use gpa::host_clients::imds_client::ImdsClient;
use gpa::host_clients::wire_server_client::WireServerClient;
use gpa::key_keeper::key::Key;
use gpa::proxy::proxy_server::ProxyServer;
use gpa::redirector::verif_hooks as hooks;
use gpa::shared_state::agent_status_wrapper::AgentStatusModule;
use gpa::shared_state::key_keeper_wrapper::KeyKeeperSharedState;
use gpa::shared_state::SharedState;
use proxy_agent_shared::proxy_agent_aggregate_status::ModuleState;
use serde_json::{json, Value};
use std::future::Future;
use std::io::Write;
use std::net::Ipv4Addr;
use std::os::unix::io::FromRawFd;
use std::pin::Pin;
use std::sync::atomic::{AtomicBool, AtomicUsize, Ordering};
use std::sync::{Arc, Mutex, OnceLock};
use std::task::{Context, Poll, Wake, Waker};
use std::time::Duration;
use tokio::io::{AsyncReadExt, AsyncWriteExt};

struct Noop;
impl Wake for Noop {
    fn wake(self: Arc<Self>) {}
}

async fn drain() {
    for _ in 0..50 {
        tokio::task::yield_now().await;
    }
}

fn make_key(v: &Value) -> Result<Key, String> {
    let guid = v.get("guid").and_then(|x| x.as_str()).ok_or("key.guid missing")?;
    let key = v.get("key").and_then(|x| x.as_str()).ok_or("key.key missing")?;
    serde_json::from_value::<Key>(json!({
        "authorizationScheme": "Azure-HMAC-SHA256", "guid": guid, "incarnationId": 1,
        "issued": "2026-10-01T00:00:00Z", "key": key}))
    .map_err(|e| format!("cannot build Key: {}", e))
}

async fn apply_op(kk: &KeyKeeperSharedState, op: &Value) -> Result<(), String> {
    if let Some(k) = op.get("set") {
        kk.update_key(make_key(k)?).await.map_err(|e| e.to_string())
    } else if op.get("clear").is_some() {
        kk.clear_key().await.map_err(|e| e.to_string())
    } else {
        Err(format!("unknown keeper op {}", op))
    }
}

fn find(hay: &[u8], needle: &[u8]) -> Option<usize> {
    hay.windows(needle.len()).position(|w| w == needle)
}

/// read one HTTP/1.1 request (head + Content-Length body) from the stream
async fn read_request(stream: &mut tokio::net::TcpStream) -> Vec<u8> {
    let mut buf = Vec::new();
    let mut tmp = [0u8; 4096];
    loop {
        if let Some(he) = find(&buf, b"\r\n\r\n") {
            let head = String::from_utf8_lossy(&buf[..he]).to_ascii_lowercase();
            let cl = head
                .split("\r\n")
                .filter_map(|l| l.strip_prefix("content-length:"))
                .filter_map(|v| v.trim().parse::<usize>().ok())
                .next()
                .unwrap_or(0);
            if buf.len() >= he + 4 + cl {
                return buf;
            }
        }
        match stream.read(&mut tmp).await {
            Ok(0) | Err(_) => return buf,
            Ok(n) => buf.extend_from_slice(&tmp[..n]),
        }
    }
}

static SCHED_POS: AtomicUsize = AtomicUsize::new(0);

/// a scripted mock host: records every request, runs the scripted keeper operations, answers
struct MockState {
    script: Vec<Value>,
    captured: Mutex<Vec<(Vec<u8>, usize)>>, // (request bytes, schedule position at arrival)
    handled: AtomicUsize,
    kk: KeyKeeperSharedState,
}

impl MockState {
    fn new(script: Option<&Value>, kk: KeyKeeperSharedState) -> Arc<Self> {
        Arc::new(MockState {
            script: script.and_then(|x| x.as_array()).cloned().unwrap_or_default(),
            captured: Mutex::new(Vec::new()),
            handled: AtomicUsize::new(0),
            kk,
        })
    }
}

async fn serve_mock(mut st: tokio::net::TcpStream, state: Arc<MockState>) {
    loop {
        let req = read_request(&mut st).await;
        if req.is_empty() {
            return;
        }
        let ix = {
            let mut c = state.captured.lock().unwrap();
            c.push((req, SCHED_POS.load(Ordering::SeqCst)));
            c.len() - 1
        };
        let spec = state.script.get(ix).cloned().unwrap_or(Value::Null);
        for op in spec.get("ops").and_then(|x| x.as_array()).cloned().unwrap_or_default() {
            let _ = apply_op(&state.kk, &op).await;
        }
        let status = spec.get("status").and_then(|x| x.as_u64()).unwrap_or(200);
        let mode = spec.get("mode").and_then(|x| x.as_str()).unwrap_or("normal").to_string();
        let mut keep = true;
        match mode.as_str() {
            "close" => keep = false,
            "partial" => {
                let _ = st.write_all(b"HTTP/1.1 200 O").await;
                keep = false;
            }
            _ => {
                let reason = match status {
                    200 => "OK",
                    401 => "Unauthorized",
                    403 => "Forbidden",
                    500 => "Internal Server Error",
                    503 => "Service Unavailable",
                    _ => "Status",
                };
                let reply = format!("HTTP/1.1 {} {}\r\nContent-Type: application/json\r\nContent-Length: 2\r\n\r\n{{}}", status, reason);
                if st.write_all(reply.as_bytes()).await.is_err() {
                    keep = false;
                }
            }
        }
        state.handled.fetch_add(1, Ordering::SeqCst);
        if !keep {
            let _ = st.shutdown().await;
            return;
        }
    }
}

// ------------------------------------------------------------------------------------------
// kind "hand"
// ------------------------------------------------------------------------------------------
struct Signer {
    route: String,
    fut: Option<Pin<Box<dyn Future<Output = String>>>>,
    listener: std::net::TcpListener,
    mock: Arc<MockState>,
    polls: usize,
    connect_poll: Option<usize>,
    result: Option<String>,
}

fn make_future(route: &str, port: u16, kk: KeyKeeperSharedState) -> Result<Pin<Box<dyn Future<Output = String>>>, String> {
    let ip = "127.0.0.1";
    Ok(match route {
        "goalstate" => Box::pin(async move {
            let c = WireServerClient::new(ip, port, kk);
            match c.get_goalstate().await {
                Ok(_) => "ok".to_string(),
                Err(e) => format!("err: {}", e),
            }
        }),
        "sharedconfig" => Box::pin(async move {
            let c = WireServerClient::new(ip, port, kk);
            let url = format!("http://{}:{}/machine/abc/sharedconfig?comp=config", ip, port);
            match c.get_shared_config(url).await {
                Ok(_) => "ok".to_string(),
                Err(e) => format!("err: {}", e),
            }
        }),
        "telemetry" => Box::pin(async move {
            let c = WireServerClient::new(ip, port, kk);
            match c.send_telemetry_data("<t/>".to_string()).await {
                Ok(_) => "ok".to_string(),
                Err(e) => format!("err: {}", e),
            }
        }),
        "imds" => Box::pin(async move {
            let c = ImdsClient::new(ip, port, kk);
            match c.get_imds_instance_info().await {
                Ok(_) => "ok".to_string(),
                Err(e) => format!("err: {}", e),
            }
        }),
        other => return Err(format!("unknown route {}", other)),
    })
}

async fn poll_once(s: &mut Signer, waker: &Waker) {
    if let Some(f) = s.fut.as_mut() {
        s.polls += 1;
        let mut cx = Context::from_waker(waker);
        if let Poll::Ready(r) = f.as_mut().poll(&mut cx) {
            s.result = Some(r);
            s.fut = None;
        }
    }
    drain().await;
    // did this poll issue the TCP connect?  (loopback connects are queued synchronously)
    while let Ok((stream, _)) = s.listener.accept() {
        if s.connect_poll.is_none() {
            s.connect_poll = Some(s.polls);
        }
        let _ = stream.set_nonblocking(true);
        if let Ok(st) = tokio::net::TcpStream::from_std(stream) {
            tokio::spawn(serve_mock(st, s.mock.clone()));
        }
    }
}

async fn run_hand(sc: &Value) -> Value {
    let kk = KeyKeeperSharedState::start_new();
    for op in sc.get("pre").and_then(|x| x.as_array()).cloned().unwrap_or_default() {
        if let Err(e) = apply_op(&kk, &op).await {
            return json!({"ok": false, "error": e});
        }
    }
    let waker = Waker::from(Arc::new(Noop));
    let mut signers: Vec<Signer> = Vec::new();
    for s in sc.get("signers").and_then(|x| x.as_array()).cloned().unwrap_or_default() {
        let route = s.get("route").and_then(|x| x.as_str()).unwrap_or("").to_string();
        let listener = match std::net::TcpListener::bind((Ipv4Addr::LOCALHOST, 0)) {
            Ok(l) => l,
            Err(e) => return json!({"ok": false, "error": format!("bind mock host: {}", e)}),
        };
        let _ = listener.set_nonblocking(true);
        let port = listener.local_addr().map(|a| a.port()).unwrap_or(0);
        let fut = match make_future(&route, port, kk.clone()) {
            Ok(f) => f,
            Err(e) => return json!({"ok": false, "error": e}),
        };
        let mock = MockState::new(s.get("replies"), kk.clone());
        signers.push(Signer { route, fut: Some(fut), listener, mock, polls: 0, connect_poll: None, result: None });
    }
    let mut keeper_errors: Vec<String> = Vec::new();
    let schedule = sc.get("schedule").and_then(|x| x.as_array()).cloned().unwrap_or_default();
    SCHED_POS.store(0, Ordering::SeqCst);
    for (pos, item) in schedule.iter().enumerate() {
        SCHED_POS.store(pos, Ordering::SeqCst);
        match item.get(0).and_then(|x| x.as_str()) {
            Some("w") => {
                let i = item.get(1).and_then(|x| x.as_u64()).unwrap_or(0) as usize;
                let n = item.get(2).and_then(|x| x.as_u64()).unwrap_or(1) as usize;
                if i < signers.len() {
                    for round in 0..20000 {
                        if signers[i].fut.is_none() || signers[i].mock.handled.load(Ordering::SeqCst) >= n {
                            break;
                        }
                        poll_once(&mut signers[i], &waker).await;
                        if round > 20 {
                            tokio::time::sleep(Duration::from_micros(200)).await;
                        }
                    }
                }
            }
            Some("p") => {
                let i = item.get(1).and_then(|x| x.as_u64()).unwrap_or(0) as usize;
                if i < signers.len() {
                    poll_once(&mut signers[i], &waker).await;
                }
            }
            Some("k") => {
                if let Err(e) = apply_op(&kk, item.get(1).unwrap_or(&Value::Null)).await {
                    keeper_errors.push(e);
                }
                drain().await;
            }
            _ => keeper_errors.push(format!("bad schedule item {}", item)),
        }
    }
    // completion, in index order, without further keeper operations
    SCHED_POS.store(schedule.len(), Ordering::SeqCst);
    for round in 0..20000 {
        if signers.iter().all(|s| s.fut.is_none()) {
            break;
        }
        for s in signers.iter_mut() {
            if s.fut.is_some() {
                poll_once(s, &waker).await;
            }
        }
        if round > 20 {
            tokio::time::sleep(Duration::from_micros(200)).await;
        }
    }
    drain().await;
    let out: Vec<Value> = signers
        .iter()
        .map(|s| {
            let cap = s.mock.captured.lock().unwrap();
            json!({
                "route": s.route,
                "handled": s.mock.handled.load(Ordering::SeqCst),
                "request_pos": cap.iter().map(|r| r.1).collect::<Vec<_>>(),
                "completed": s.fut.is_none(),
                "result": s.result,
                "polls": s.polls,
                "connect_poll": s.connect_poll,
                "reads": s.connect_poll.map(|c| c - 1),
                "requests": cap.iter().map(|r| String::from_utf8_lossy(&r.0).to_string()).collect::<Vec<_>>(),
            })
        })
        .collect();
    json!({"ok": keeper_errors.is_empty(), "error": if keeper_errors.is_empty() { Value::Null } else { json!(keeper_errors) }, "signers": out})
}

// ------------------------------------------------------------------------------------------
// kind "proxy"
// ------------------------------------------------------------------------------------------
struct Server {
    port: u16,
    shared: SharedState,
}
static SERVER: OnceLock<Result<Server, String>> = OnceLock::new();

async fn start_server() -> Result<Server, String> {
    hooks::enable();
    let shared = SharedState::start_all();
    let mut last = String::new();
    for _ in 0..20 {
        // a free port: bind 0, read it back, release it
        let port = match std::net::TcpListener::bind((Ipv4Addr::LOCALHOST, 0)) {
            Ok(l) => l.local_addr().map(|a| a.port()).unwrap_or(0),
            Err(e) => {
                last = e.to_string();
                continue;
            }
        };
        let server = ProxyServer::new(port, &shared);
        let task = tokio::spawn(async move { server.start().await });
        let status = shared.get_agent_status_shared_state();
        for _ in 0..20000 {
            let st = status.get_module_status(AgentStatusModule::ProxyServer).await;
            if st.status == ModuleState::RUNNING {
                return Ok(Server { port, shared });
            }
            if task.is_finished() {
                break;
            }
            tokio::time::sleep(Duration::from_micros(500)).await;
        }
        last = format!("listener did not start on port {}", port);
        task.abort();
    }
    Err(last)
}

struct YieldSelf(bool);
impl Future for YieldSelf {
    type Output = ();
    fn poll(mut self: Pin<&mut Self>, cx: &mut Context<'_>) -> Poll<()> {
        if self.0 {
            Poll::Ready(())
        } else {
            self.0 = true;
            cx.waker().wake_by_ref(); // straight back to the END of the run queue
            Poll::Pending
        }
    }
}

async fn run_proxy(sc: &Value) -> Value {
    if SERVER.get().is_none() {
        let s = start_server().await;
        let _ = SERVER.set(s);
    }
    let server = match SERVER.get().unwrap() {
        Ok(s) => s,
        Err(e) => return json!({"ok": false, "error": format!("proxy listener: {}", e)}),
    };
    let kk = server.shared.get_key_keeper_shared_state();
    if let Err(e) = kk.clear_key().await {
        return json!({"ok": false, "error": e.to_string()});
    }
    for op in sc.get("pre").and_then(|x| x.as_array()).cloned().unwrap_or_default() {
        if let Err(e) = apply_op(&kk, &op).await {
            return json!({"ok": false, "error": e});
        }
    }
    // upstream mock host
    let up = match tokio::net::TcpListener::bind((Ipv4Addr::LOCALHOST, 0)).await {
        Ok(l) => l,
        Err(e) => return json!({"ok": false, "error": format!("bind upstream: {}", e)}),
    };
    let up_port = up.local_addr().map(|a| a.port()).unwrap_or(0);
    let mock = MockState::new(sc.get("up_replies"), kk.clone());
    let accepted = Arc::new(AtomicUsize::new(0));
    let up_task = tokio::spawn({
        let mock = mock.clone();
        let accepted = accepted.clone();
        async move {
            loop {
                let (st, _) = match up.accept().await {
                    Ok(x) => x,
                    Err(_) => return,
                };
                accepted.fetch_add(1, Ordering::SeqCst);
                tokio::spawn(serve_mock(st, mock.clone()));
            }
        }
    });
    // client connection with an attribution record (hook H1): uid 0, this process, destination = mock
    let sock = match tokio::net::TcpSocket::new_v4() {
        Ok(s) => s,
        Err(e) => return json!({"ok": false, "error": e.to_string()}),
    };
    if let Err(e) = sock.bind((Ipv4Addr::LOCALHOST, 0).into()) {
        return json!({"ok": false, "error": e.to_string()});
    }
    let lport = sock.local_addr().map(|a| a.port()).unwrap_or(0);
    hooks::insert(lport, (0, std::process::id(), 0, u32::from(Ipv4Addr::LOCALHOST).to_be(), up_port.to_be()));
    let mut client = match sock.connect((Ipv4Addr::LOCALHOST, server.port).into()).await {
        Ok(c) => c,
        Err(e) => return json!({"ok": false, "error": format!("connect proxy: {}", e)}),
    };
    let body = b"0123456789";
    // optionally the client itself supplies authorization header values (one line each)
    let mut client_auth = String::new();
    for v in sc.get("client_auth").and_then(|x| x.as_array()).cloned().unwrap_or_default() {
        if let Some(t) = v.as_str() {
            client_auth.push_str(&format!("x-ms-azure-host-authorization: {}\r\n", t));
        } else if let (Some(n), Some(t)) = (v.get(0).and_then(|x| x.as_str()), v.get(1).and_then(|x| x.as_str())) {
            client_auth.push_str(&format!("{}: {}\r\n", n, t)); // [name as spelled by the client, value]
        }
    }
    let head = format!(
        "POST /c10/resource?comp=probe HTTP/1.1\r\nHost: 127.0.0.1\r\nx-ms-version: 2012-11-30\r\n{}Content-Length: {}\r\n\r\n",
        client_auth,
        body.len()
    );
    let mut first = head.into_bytes();
    first.extend_from_slice(&body[..body.len() - 1]);
    if let Err(e) = client.write_all(&first).await {
        return json!({"ok": false, "error": e.to_string()});
    }
    // let the handler run until it parks in body.collect() (upstream connected, rules fetched)
    for _ in 0..2000 {
        if accepted.load(Ordering::SeqCst) > 0 {
            break;
        }
        tokio::time::sleep(Duration::from_micros(200)).await;
    }
    for _ in 0..4 {
        drain().await;
        tokio::time::sleep(Duration::from_micros(300)).await;
    }
    drain().await;

    let steps = sc.get("steps").and_then(|x| x.as_u64());
    let ops = sc.get("ops").and_then(|x| x.as_array()).cloned().unwrap_or_default();
    let stop = Arc::new(AtomicBool::new(false));
    let injector = tokio::spawn({
        let kk = kk.clone();
        let stop = stop.clone();
        async move {
            let mut turns: u64 = 0;
            let mut errors: Vec<String> = Vec::new();
            match steps {
                Some(n) => {
                    for _ in 0..n {
                        YieldSelf(false).await;
                        turns += 1;
                    }
                    for op in ops.iter() {
                        if let Err(e) = apply_op(&kk, op).await {
                            errors.push(e);
                        }
                    }
                }
                None => {
                    while !stop.load(Ordering::SeqCst) && turns < 5_000_000 {
                        YieldSelf(false).await;
                        turns += 1;
                    }
                }
            }
            (turns, errors)
        }
    });
    // release the last body byte in the same scheduler turn in which the injector was queued
    let wrote = client.try_write(&body[body.len() - 1..]);
    // read the response
    let mut resp = Vec::new();
    let mut tmp = [0u8; 4096];
    let read_all = async {
        loop {
            if let Some(he) = find(&resp, b"\r\n\r\n") {
                let headtxt = String::from_utf8_lossy(&resp[..he]).to_ascii_lowercase();
                let cl = headtxt
                    .split("\r\n")
                    .filter_map(|l| l.strip_prefix("content-length:"))
                    .filter_map(|v| v.trim().parse::<usize>().ok())
                    .next()
                    .unwrap_or(0);
                if resp.len() >= he + 4 + cl {
                    break;
                }
            }
            match client.read(&mut tmp).await {
                Ok(0) | Err(_) => break,
                Ok(n) => resp.extend_from_slice(&tmp[..n]),
            }
        }
    };
    let timed_out = tokio::time::timeout(Duration::from_secs(20), read_all).await.is_err();
    stop.store(true, Ordering::SeqCst);
    let (turns, inj_errors) = match tokio::time::timeout(Duration::from_secs(20), injector).await {
        Ok(Ok(x)) => x,
        _ => (0, vec!["injector did not finish".to_string()]),
    };
    drop(client);
    drain().await;
    up_task.abort();
    hooks::AUDIT.lock().unwrap().remove(&lport);
    let status = String::from_utf8_lossy(&resp).split("\r\n").next().unwrap_or("").to_string();
    let cap = mock.captured.lock().unwrap();
    json!({
        "ok": !timed_out && inj_errors.is_empty() && wrote.is_ok(),
        "error": if timed_out { json!("timeout waiting for the response") } else if !inj_errors.is_empty() { json!(inj_errors) } else { Value::Null },
        "turns": turns,
        "status": status,
        "requests": cap.iter().map(|r| String::from_utf8_lossy(&r.0).to_string()).collect::<Vec<_>>(),
    })
}

// ------------------------------------------------------------------------------------------
// kind "latch"
// ------------------------------------------------------------------------------------------
struct ScHost {
    steps: Vec<Value>,
    arrived: AtomicUsize,
    released: tokio::sync::watch::Sender<usize>,
    attests: Mutex<Vec<(usize, Vec<u8>)>>,
    acquires: AtomicUsize,
}

async fn sc_reply(st: &mut tokio::net::TcpStream, code: u64, body: &str) {
    let reason = if code == 200 { "OK" } else { "Status" };
    let reply = format!(
        "HTTP/1.1 {} {}\r\nContent-Type: application/json; charset=utf-8\r\nContent-Length: {}\r\nConnection: close\r\n\r\n{}",
        code, reason, body.len(), body
    );
    let _ = st.write_all(reply.as_bytes()).await;
    let _ = st.shutdown().await;
}

async fn serve_sc(mut st: tokio::net::TcpStream, host: Arc<ScHost>) {
    let req = read_request(&mut st).await;
    if req.is_empty() {
        return;
    }
    let text = String::from_utf8_lossy(&req).to_string();
    let first = text.split("\r\n").next().unwrap_or("").to_string();
    let mut parts = first.split(' ');
    let method = parts.next().unwrap_or("").to_string();
    let target = parts.next().unwrap_or("").to_string();
    if method == "GET" && target.starts_with("/secure-channel/status") {
        let idx = host.arrived.fetch_add(1, Ordering::SeqCst);
        let mut rx = host.released.subscribe();
        loop {
            if *rx.borrow() > idx {
                break;
            }
            if rx.changed().await.is_err() {
                return;
            }
        }
        match host.steps.get(idx) {
            Some(step) => {
                let body = step.get("status").map(|x| x.to_string()).unwrap_or_default();
                sc_reply(&mut st, 200, &body).await;
            }
            None => std::future::pending::<()>().await, // the scenario is over: never answered
        }
        return;
    }
    let cur = (*host.released.borrow()).saturating_sub(1);
    let step = host.steps.get(cur).cloned().unwrap_or(Value::Null);
    if method == "POST" && target == "/secure-channel/key" {
        host.acquires.fetch_add(1, Ordering::SeqCst);
        match step.get("acquire") {
            Some(doc) if !doc.is_null() => sc_reply(&mut st, 200, &doc.to_string()).await,
            _ => sc_reply(&mut st, 500, "").await,
        }
    } else if method == "POST" && target.ends_with("/key-attestation") {
        host.attests.lock().unwrap().push((cur, req.clone()));
        let code = step.get("attest").and_then(|x| x.as_u64()).unwrap_or(200);
        sc_reply(&mut st, code, "").await;
    } else {
        sc_reply(&mut st, 404, "").await;
    }
}

async fn sign_once(route: &str, kk: KeyKeeperSharedState) -> Vec<String> {
    let listener = match tokio::net::TcpListener::bind((Ipv4Addr::LOCALHOST, 0)).await {
        Ok(l) => l,
        Err(_) => return vec![],
    };
    let port = listener.local_addr().map(|a| a.port()).unwrap_or(0);
    let mock = MockState::new(None, kk.clone());
    let acc = tokio::spawn({
        let mock = mock.clone();
        async move {
            loop {
                match listener.accept().await {
                    Ok((st, _)) => {
                        tokio::spawn(serve_mock(st, mock.clone()));
                    }
                    Err(_) => return,
                }
            }
        }
    });
    if let Ok(fut) = make_future(route, port, kk) {
        let _ = tokio::time::timeout(Duration::from_secs(20), fut).await;
    }
    drain().await;
    acc.abort();
    let cap = mock.captured.lock().unwrap();
    cap.iter().map(|r| String::from_utf8_lossy(&r.0).to_string()).collect()
}

fn key_folder(dir: &std::path::Path) -> Value {
    let mut out: Vec<(String, Value)> = Vec::new();
    if let Ok(rd) = std::fs::read_dir(dir) {
        for e in rd.flatten() {
            let name = e.file_name().to_string_lossy().to_string();
            let doc: Value = std::fs::read_to_string(e.path())
                .ok()
                .and_then(|t| serde_json::from_str::<Value>(&t).ok())
                .unwrap_or(Value::Null);
            out.push((name, doc.get("guid").cloned().unwrap_or(Value::Null)));
        }
    }
    out.sort_by(|a, b| a.0.cmp(&b.0));
    Value::Array(out.into_iter().map(|(n, g)| json!([n, g])).collect())
}

static LATCH_SEQ: AtomicUsize = AtomicUsize::new(0);

async fn run_latch(sc: &Value, scratch: &std::path::Path) -> Value {
    let n = LATCH_SEQ.fetch_add(1, Ordering::SeqCst);
    let root = scratch.join(format!("latch{}", n));
    let key_dir = root.join("keys");
    let log_dir = root.join("logs");
    let _ = std::fs::create_dir_all(&key_dir);
    let _ = std::fs::create_dir_all(&log_dir);
    for f in sc.get("files").and_then(|x| x.as_array()).cloned().unwrap_or_default() {
        let name = f.get("name").and_then(|x| x.as_str()).unwrap_or("x.key");
        let content = match f.get("raw").and_then(|x| x.as_str()) {
            Some(r) => r.to_string(),
            None => serde_json::to_string_pretty(f.get("doc").unwrap_or(&Value::Null)).unwrap_or_default(),
        };
        if let Err(e) = std::fs::write(key_dir.join(name), content) {
            return json!({"ok": false, "error": format!("write key file: {}", e)});
        }
    }
    let steps = sc.get("steps").and_then(|x| x.as_array()).cloned().unwrap_or_default();
    let routes: Vec<String> = sc
        .get("sign")
        .and_then(|x| x.as_array())
        .map(|a| a.iter().filter_map(|x| x.as_str().map(|s| s.to_string())).collect())
        .unwrap_or_default();
    let listener = match tokio::net::TcpListener::bind((Ipv4Addr::LOCALHOST, 0)).await {
        Ok(l) => l,
        Err(e) => return json!({"ok": false, "error": format!("bind secure-channel mock: {}", e)}),
    };
    let port = listener.local_addr().map(|a| a.port()).unwrap_or(0);
    let (tx, _rx) = tokio::sync::watch::channel(0usize);
    let host = Arc::new(ScHost { steps: steps.clone(), arrived: AtomicUsize::new(0), released: tx, attests: Mutex::new(Vec::new()), acquires: AtomicUsize::new(0) });
    let acc = tokio::spawn({
        let host = host.clone();
        async move {
            loop {
                match listener.accept().await {
                    Ok((st, _)) => {
                        tokio::spawn(serve_sc(st, host.clone()));
                    }
                    Err(_) => return,
                }
            }
        }
    });
    let shared = SharedState::start_all();
    let base_url: hyper::Uri = format!("http://127.0.0.1:{}/", port).parse().unwrap();
    let keeper = gpa::key_keeper::KeyKeeper::new(base_url, key_dir.clone(), log_dir, Duration::from_millis(2), &shared);
    let handle = tokio::spawn(async move { keeper.poll_secure_channel_status().await });
    let kk = shared.get_key_keeper_shared_state();
    let mut out_steps: Vec<Value> = Vec::new();
    let mut error: Option<String> = None;
    for i in 0..steps.len() {
        let _ = host.released.send(i + 1);
        // poll i is complete when status request i+1 has arrived
        let mut ok = false;
        for _ in 0..200000 {
            if host.arrived.load(Ordering::SeqCst) >= i + 2 {
                ok = true;
                break;
            }
            if handle.is_finished() {
                break;
            }
            tokio::time::sleep(Duration::from_micros(200)).await;
        }
        if !ok {
            error = Some(format!("poll {} did not complete", i));
            break;
        }
        drain().await;
        let guid = kk.get_current_key_guid().await.unwrap_or(None);
        let value = kk.get_current_key_value().await.unwrap_or(None);
        let mut signed = serde_json::Map::new();
        for r in routes.iter() {
            signed.insert(r.clone(), json!(sign_once(r, kk.clone()).await));
        }
        out_steps.push(json!({"key_guid": guid, "key_value": value, "key_folder": key_folder(&key_dir),
                              "acquires": host.acquires.load(Ordering::SeqCst), "signed": signed}));
    }
    shared.get_cancellation_token().cancel();
    let _ = tokio::time::timeout(Duration::from_secs(5), handle).await;
    acc.abort();
    let attests: Vec<Value> = host.attests.lock().unwrap().iter().map(|(i, r)| json!([i, String::from_utf8_lossy(r).to_string()])).collect();
    let _ = std::fs::remove_dir_all(&root);
    json!({"ok": error.is_none(), "error": error, "steps": out_steps, "attests": attests})
}

pub fn main() {
    let scratch = std::path::PathBuf::from(std::env::var("C10_SCRATCH").expect("C10_SCRATCH must name a scratch directory"));
    for d in ["logs", "events", "keys"] {
        std::fs::create_dir_all(scratch.join(d)).expect("create scratch dirs");
    }
    let mut out = unsafe {
        let keep = libc::dup(1);
        let log = std::fs::OpenOptions::new().create(true).append(true).open(scratch.join("agent_stdout.log")).expect("agent_stdout.log");
        libc::dup2(std::os::unix::io::AsRawFd::as_raw_fd(&log), 1);
        std::fs::File::from_raw_fd(keep)
    };
    let exe_dir = std::env::current_exe().unwrap().parent().unwrap().to_path_buf();
    let cfg = json!({
        "logFolder": scratch.join("logs"), "eventFolder": scratch.join("events"), "latchKeyFolder": scratch.join("keys"),
        "monitorIntervalInSeconds": 60, "pollKeyStatusIntervalInSeconds": 15, "hostGAPluginSupport": 1,
        "ebpfProgramName": "ebpf_cgroup.o", "cgroupRoot": "/sys/fs/cgroup", "fileLogLevel": "Info"
    });
    std::fs::write(exe_dir.join("proxy-agent.json"), serde_json::to_vec_pretty(&cfg).unwrap()).expect("write proxy-agent.json");
    let _ = gpa::common::config::get_logs_dir();

    let rt = tokio::runtime::Builder::new_current_thread().enable_all().build().unwrap();
    rt.block_on(async {
        let stdin = std::io::stdin();
        let mut line = String::new();
        loop {
            line.clear();
            match stdin.read_line(&mut line) {
                Ok(0) | Err(_) => break,
                Ok(_) => {}
            }
            if line.trim().is_empty() {
                continue;
            }
            let result = match serde_json::from_str::<Value>(&line) {
                Err(e) => json!({"ok": false, "error": format!("scenario is not JSON: {}", e)}),
                Ok(sc) => match sc.get("kind").and_then(|x| x.as_str()) {
                    Some("hand") => run_hand(&sc).await,
                    Some("proxy") => run_proxy(&sc).await,
                    Some("latch") => run_latch(&sc, &scratch).await,
                    _ => json!({"ok": false, "error": "unknown kind"}),
                },
            };
            let _ = writeln!(out, "{}", result);
            let _ = out.flush();
        }
    });
    let _ = out.flush();
    std::process::exit(0);
}
