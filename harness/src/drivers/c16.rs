// C16 correspondence driver: runs the REAL provisioning code (provision.rs, provision_wrapper.rs,
// proxy_server.rs /provision handler) under chosen schedules.
//
// stdin: one JSON scenario per line; stdout: one line `@@ <json>` per scenario (other stdout lines are
// the agent's own console logging and are ignored by the check).  No command-line arguments.
// Environment: C16_DIR = scratch directory (keys/logs/events live below it).
//
// Scenario kinds
//  {"kind":"sched","setup":{..},"tasks":[..],"sched":[tid,..]}
//      hand-polled schedule on a current_thread runtime: entry `tid` polls task tid's future ONCE with
//      a no-op waker, then lets the actor tasks drain (50 x yield_now), then snapshots (flags, tick)
//      through the public getters.  A query task's first entry only creates the query (reads the
//      clock / the current tick); later entries poll get_provision_state_internal.
//  {"kind":"http","setup":{..},"ops":[..]}
//      the real listener on 127.0.0.1 (ProxyServer::start, which itself reports LISTENER_READY), ops
//      run to completion one after another, /provision queries go through the real HTTP handler.
//  {"kind":"threads","iters":N}      F11: two real writers on a multi-thread runtime + a reader.
//  {"kind":"write","old":"..","msg":".."}   one provision_timeup(Some(dir)) over an existing status.tag
//      (used under `strace` kill injection: every crash point must show old or new content).
use gpa::provision;
use gpa::shared_state::agent_status_wrapper::AgentStatusModule;
use gpa::shared_state::SharedState;
use serde_json::{json, Value};
use std::future::Future;
use std::io::{self, BufRead, Write};
use std::path::PathBuf;
use std::pin::Pin;
use std::sync::Arc;
use std::task::{Context, Poll, Wake, Waker};

struct NoopWake;
impl Wake for NoopWake {
    fn wake(self: Arc<Self>) {}
}

fn now() -> i128 {
    proxy_agent_shared::misc_helpers::get_date_time_unix_nano()
}

/// wait until the wall clock has visibly advanced (so that instants taken before and after are
/// strictly ordered whatever the clock resolution)
fn tick_clock() -> i128 {
    let t0 = now();
    loop {
        let t = now();
        if t > t0 {
            return t;
        }
        std::hint::spin_loop();
    }
}

async fn drain() {
    for _ in 0..50 {
        tokio::task::yield_now().await;
    }
}

fn base_dir() -> PathBuf {
    PathBuf::from(std::env::var("C16_DIR").expect("C16_DIR not set"))
}

fn keys_dir() -> PathBuf {
    base_dir().join("keys")
}

fn write_config() {
    let exe = std::env::current_exe().unwrap();
    let cfg = exe.parent().unwrap().join("proxy-agent.json");
    let b = base_dir();
    let v = json!({
        "logFolder": b.join("logs").to_str().unwrap(),
        "eventFolder": b.join("events").to_str().unwrap(),
        "latchKeyFolder": keys_dir().to_str().unwrap(),
        "monitorIntervalInSeconds": 60,
        "pollKeyStatusIntervalInSeconds": 15,
        "hostGAPluginSupport": 1,
        "ebpfProgramName": "ebpf_cgroup.o",
        "cgroupRoot": b.join("cgroup").to_str().unwrap(),
        "fileLogLevel": "Trace"
    });
    std::fs::write(cfg, serde_json::to_vec_pretty(&v).unwrap()).unwrap();
    let _ = std::fs::create_dir_all(keys_dir());
}

fn clean_keys_dir(old_tag: Option<&str>) {
    let d = keys_dir();
    for n in ["provisioned.tag", "status.tag", "status.tag.tmp"] {
        let _ = std::fs::remove_file(d.join(n));
    }
    if let Some(c) = old_tag {
        std::fs::write(d.join("status.tag"), c.as_bytes()).unwrap();
    }
}

fn read_opt(p: PathBuf) -> Value {
    match std::fs::read(p) {
        Ok(b) => Value::String(String::from_utf8_lossy(&b).to_string()),
        Err(_) => Value::Null,
    }
}

fn fs_snapshot() -> Value {
    let d = keys_dir();
    json!({
        "provisioned": d.join("provisioned.tag").exists(),
        "tmp": read_opt(d.join("status.tag.tmp")),
        "tag": read_opt(d.join("status.tag")),
    })
}

fn module_of(s: &str) -> AgentStatusModule {
    match s {
        "R" => AgentStatusModule::Redirector,
        "K" => AgentStatusModule::KeyKeeper,
        _ => AgentStatusModule::ProxyServer,
    }
}

async fn apply_setup(st: &SharedState, setup: &Value) {
    let prov = st.get_provision_shared_state();
    let ags = st.get_agent_status_shared_state();
    let kk = st.get_key_keeper_shared_state();
    if setup.get("evt").and_then(|v| v.as_bool()).unwrap_or(true) {
        // keep start_event_threads on its early-return path: the event/status tasks it would
        // spawn write below /var/log/azure-proxy-agent
        prov.set_event_log_threads_initialized().await.unwrap();
    }
    if let Some(m) = setup.get("msgs").and_then(|v| v.as_object()) {
        for (k, v) in m {
            ags.set_module_status_message(v.as_str().unwrap().to_string(), module_of(k))
                .await
                .unwrap();
        }
    }
    if let Some(c) = setup.get("chan").and_then(|v| v.as_str()) {
        kk.update_current_secure_channel_state(c.to_string())
            .await
            .unwrap();
    }
    clean_keys_dir(setup.get("old_tag").and_then(|v| v.as_str()));
}

enum TaskOut {
    Done,
    Query(provision::ProvisionStateInternal),
}

type Fut = Pin<Box<dyn Future<Output = TaskOut>>>;

fn make_future(st: &SharedState, task: &Value) -> Fut {
    let ct = st.get_cancellation_token();
    let kk = st.get_key_keeper_shared_state();
    let tel = st.get_telemetry_shared_state();
    let prov = st.get_provision_shared_state();
    let ags = st.get_agent_status_shared_state();
    let op = task["op"].as_str().unwrap().to_string();
    match op.as_str() {
        "report" => {
            let flag = task["flag"].as_str().unwrap().to_string();
            Box::pin(async move {
                match flag.as_str() {
                    "R" => provision::redirector_ready(ct, kk, tel, prov, ags).await,
                    "K" => provision::key_latched(ct, kk, tel, prov, ags).await,
                    _ => provision::listener_started(ct, kk, tel, prov, ags).await,
                }
                TaskOut::Done
            })
        }
        "reset" => Box::pin(async move {
            provision::key_latch_ready_state_reset(prov).await;
            TaskOut::Done
        }),
        "timeup" => Box::pin(async move {
            provision::provision_timeup(None, prov, ags).await;
            TaskOut::Done
        }),
        "setchan" => {
            let v = task["v"].as_str().unwrap().to_string();
            Box::pin(async move {
                // the key keeper's own update path: read, compare, set (two actor messages when it changes)
                let _ = kk.update_current_secure_channel_state(v).await;
                TaskOut::Done
            })
        }
        "setmsg" => {
            let m = module_of(task["m"].as_str().unwrap());
            let v = task["v"].as_str().unwrap().to_string();
            Box::pin(async move {
                let _ = ags.set_module_status_message(v, m).await;
                TaskOut::Done
            })
        }
        "query" => Box::pin(async move {
            TaskOut::Query(provision::get_provision_state_internal(prov, ags, kk).await)
        }),
        other => panic!("unknown op {}", other),
    }
}

/// the formula of proxy_server.rs handle_provision_state_check_request
/// (`finished_time_tick >= query_time_tick || is_secure_channel_latched()`), recomputed for the
/// hand-polled queries; the "http" scenarios go through the real handler instead.
fn finished_formula(s: &provision::ProvisionStateInternal, q: i128) -> bool {
    s.finished_time_tick >= q || s.is_secure_channel_latched()
}

async fn snapshot(st: &SharedState) -> (u8, i128) {
    let prov = st.get_provision_shared_state();
    let f = prov.get_state().await.map(|f| f.bits()).unwrap_or(255);
    let t = prov.get_provision_finished().await.unwrap_or(-1);
    (f, t)
}

async fn make_query_tick(st: &SharedState, spec: &str) -> i128 {
    if spec == "now" {
        return tick_clock();
    }
    if let Some(c) = spec.strip_prefix("const:") {
        return c.parse::<i128>().unwrap();
    }
    let t = st
        .get_provision_shared_state()
        .get_provision_finished()
        .await
        .unwrap();
    match spec {
        "tick" => t,
        "tick+1" => t + 1,
        "tick-1" => t - 1,
        _ => panic!("bad query tick spec {}", spec),
    }
}

fn run_sched(sc: &Value) -> Value {
    let rt = tokio::runtime::Builder::new_current_thread()
        .enable_all()
        .build()
        .unwrap();
    let out = rt.block_on(async {
        let st = SharedState::start_all();
        apply_setup(&st, &sc["setup"]).await;
        drain().await;
        let tasks = sc["tasks"].as_array().unwrap();
        let n = tasks.len();
        let mut futs: Vec<Option<Fut>> = (0..n).map(|_| None).collect();
        let mut done: Vec<bool> = vec![false; n];
        let mut polls: Vec<u32> = vec![0; n];
        let mut qtick: Vec<Option<i128>> = vec![None; n];
        let mut results: Vec<Value> = vec![Value::Null; n];
        let waker = Waker::from(Arc::new(NoopWake));
        let mut steps = Vec::new();
        let (f0, t0) = snapshot(&st).await;
        let start_clock = tick_clock();
        for e in sc["sched"].as_array().unwrap() {
            let tid = e.as_u64().unwrap() as usize;
            let c0 = tick_clock();
            let mut noop = false;
            let is_query = tasks[tid]["op"] == "query";
            if done[tid] {
                noop = true;
            } else if is_query && qtick[tid].is_none() {
                // creation of the query: ProvisionQuery::new reads the clock (or a chosen tick)
                let q = make_query_tick(&st, tasks[tid]["q"].as_str().unwrap()).await;
                qtick[tid] = Some(q);
            } else {
                if futs[tid].is_none() {
                    futs[tid] = Some(make_future(&st, &tasks[tid]));
                }
                let mut cx = Context::from_waker(&waker);
                polls[tid] += 1;
                match futs[tid].as_mut().unwrap().as_mut().poll(&mut cx) {
                    Poll::Ready(o) => {
                        done[tid] = true;
                        futs[tid] = None;
                        if let TaskOut::Query(s) = o {
                            let q = qtick[tid].unwrap();
                            results[tid] = json!({
                                "q": q.to_string(),
                                "tick": s.finished_time_tick.to_string(),
                                "err": s.error_message,
                                "chan": s.key_keeper_secure_channel_state,
                                "latched": s.is_secure_channel_latched(),
                                "finished": finished_formula(&s, q),
                            });
                        }
                    }
                    Poll::Pending => {}
                }
                drain().await;
            }
            tick_clock();
            let (f, t) = snapshot(&st).await;
            let c1 = tick_clock();
            steps.push(json!({"tid": tid, "noop": noop, "flags": f, "tick": t.to_string(),
                              "c0": c0.to_string(), "c1": c1.to_string()}));
        }
        let evt = st
            .get_provision_shared_state()
            .get_event_log_threads_initialized()
            .await
            .unwrap_or(false);
        let qt: Vec<Value> = qtick
            .iter()
            .map(|q| q.map(|v| Value::String(v.to_string())).unwrap_or(Value::Null))
            .collect();
        json!({"init": {"flags": f0, "tick": t0.to_string(), "clock": start_clock.to_string()},
               "steps": steps, "polls": polls, "done": done, "results": results, "qticks": qt,
               "fs": fs_snapshot(), "evt": evt})
    });
    drop(rt);
    out
}

// ------------------------------------------------------------------------------------------
// burst: an operation arrives while the provision actor's mailbox is full of status queries
// ------------------------------------------------------------------------------------------
// {"kind":"burst","setup":{..},"ops":[{"op":..,"burst":N}, ..]}: before each op, N query futures
// (get_state / get_provision_finished / get_provision_state_internal, round robin) are polled ONCE
// each without letting the actor run, so up to 100 messages sit in its mailbox and the rest wait for
// a slot; then the op's future is polled once; then everything is polled round robin (actor
// draining in between) until all futures are done.  Snapshot after each op.
fn run_burst(sc: &Value) -> Value {
    let rt = tokio::runtime::Builder::new_current_thread()
        .enable_all()
        .build()
        .unwrap();
    let out = rt.block_on(async {
        let st = SharedState::start_all();
        apply_setup(&st, &sc["setup"]).await;
        drain().await;
        let waker = Waker::from(Arc::new(NoopWake));
        let (f0, t0) = snapshot(&st).await;
        let mut steps = Vec::new();
        for op in sc["ops"].as_array().unwrap() {
            let n = op.get("burst").and_then(|v| v.as_u64()).unwrap_or(0) as usize;
            let prov = st.get_provision_shared_state();
            let ags = st.get_agent_status_shared_state();
            let kk = st.get_key_keeper_shared_state();
            let mut pending: Vec<Fut> = Vec::new();
            for i in 0..n {
                let (prov, ags, kk) = (prov.clone(), ags.clone(), kk.clone());
                let f: Fut = match i % 3 {
                    0 => Box::pin(async move {
                        let _ = prov.get_state().await;
                        TaskOut::Done
                    }),
                    1 => Box::pin(async move {
                        let _ = prov.get_provision_finished().await;
                        TaskOut::Done
                    }),
                    _ => Box::pin(async move {
                        TaskOut::Query(provision::get_provision_state_internal(prov, ags, kk).await)
                    }),
                };
                pending.push(f);
            }
            let mut cx = Context::from_waker(&waker);
            let mut still: Vec<Fut> = Vec::new();
            for mut f in pending {
                if f.as_mut().poll(&mut cx).is_pending() {
                    still.push(f);
                }
            }
            // the operation itself, sent into the (possibly full) mailbox
            let mut opf = Some(make_future(&st, op));
            let mut op_polls = 1u32;
            let mut op_done = false;
            if let Poll::Ready(_) = opf.as_mut().unwrap().as_mut().poll(&mut cx) {
                op_done = true;
                opf = None;
            }
            let ready_at_first_poll = op_done;
            // now let everything run to completion
            let mut rounds = 0u32;
            while (!still.is_empty() || opf.is_some()) && rounds < 5000 {
                rounds += 1;
                drain().await;
                let mut cx = Context::from_waker(&waker);
                let mut next: Vec<Fut> = Vec::new();
                for mut f in still {
                    if f.as_mut().poll(&mut cx).is_pending() {
                        next.push(f);
                    }
                }
                still = next;
                if let Some(f) = opf.as_mut() {
                    op_polls += 1;
                    if f.as_mut().poll(&mut cx).is_ready() {
                        op_done = true;
                        opf = None;
                    }
                }
            }
            drain().await;
            let (f, t) = snapshot(&st).await;
            steps.push(json!({"flags": f, "tick": t.to_string(), "op_done": op_done, "op_polls": op_polls,
                              "ready_at_first_poll": ready_at_first_poll,
                              "burst": n, "burst_left": still.len(), "rounds": rounds}));
        }
        // a final query, run alone
        let s = provision::get_provision_state_internal(
            st.get_provision_shared_state(),
            st.get_agent_status_shared_state(),
            st.get_key_keeper_shared_state(),
        )
        .await;
        json!({"init": {"flags": f0, "tick": t0.to_string()}, "steps": steps,
               "final": {"tick": s.finished_time_tick.to_string(), "err": s.error_message,
                         "latched": s.is_secure_channel_latched()},
               "fs": fs_snapshot()})
    });
    drop(rt);
    out
}

// ------------------------------------------------------------------------------------------
// the real listener
// ------------------------------------------------------------------------------------------
fn free_port() -> u16 {
    let l = std::net::TcpListener::bind("127.0.0.1:0").unwrap();
    l.local_addr().unwrap().port()
}

async fn http_get_provision(port: u16, tick_hdr: Option<String>, metadata: bool, notify: bool) -> Value {
    use tokio::io::{AsyncReadExt, AsyncWriteExt};
    let mut s = match tokio::net::TcpStream::connect(("127.0.0.1", port)).await {
        Ok(s) => s,
        Err(e) => return json!({"error": format!("connect: {}", e)}),
    };
    let mut req = String::from("GET /provision HTTP/1.1\r\nHost: 127.0.0.1\r\nConnection: close\r\n");
    if metadata {
        req.push_str("Metadata: true\r\n");
    }
    if let Some(t) = tick_hdr {
        req.push_str(&format!("x-ms-azure-time_tick: {}\r\n", t));
    }
    if notify {
        req.push_str("x-ms-azure-notify: true\r\n");
    }
    req.push_str("\r\n");
    if let Err(e) = s.write_all(req.as_bytes()).await {
        return json!({"error": format!("write: {}", e)});
    }
    let mut buf = Vec::new();
    let _ = tokio::time::timeout(std::time::Duration::from_secs(20), s.read_to_end(&mut buf)).await;
    let text = String::from_utf8_lossy(&buf).to_string();
    let status = text
        .split(' ')
        .nth(1)
        .and_then(|c| c.parse::<u16>().ok())
        .unwrap_or(0);
    let body = match text.find("\r\n\r\n") {
        Some(i) => text[i + 4..].to_string(),
        None => String::new(),
    };
    match serde_json::from_str::<Value>(&body) {
        Ok(v) => json!({"status": status, "finished": v["finished"], "err": v["errorMessage"]}),
        Err(_) => json!({"status": status, "body": body}),
    }
}

fn run_http(sc: &Value) -> Value {
    let rt = tokio::runtime::Builder::new_current_thread()
        .enable_all()
        .build()
        .unwrap();
    let out = rt.block_on(async {
        let st = SharedState::start_all();
        apply_setup(&st, &sc["setup"]).await;
        let mut port = 0u16;
        let mut started = false;
        for _ in 0..20 {
            port = free_port();
            let server = gpa::proxy::proxy_server::ProxyServer::new(port, &st);
            tokio::spawn(async move {
                server.start().await;
            });
            // the listener reports LISTENER_READY itself once it is bound
            for _ in 0..2000 {
                tokio::time::sleep(std::time::Duration::from_millis(2)).await;
                let (f, _) = snapshot(&st).await;
                if f & 4 != 0 {
                    started = true;
                    break;
                }
            }
            if started {
                break;
            }
        }
        if !started {
            return json!({"error": "listener did not start"});
        }
        drain().await;
        let (f0, t0) = snapshot(&st).await;
        let start_clock = tick_clock();
        let mut steps = Vec::new();
        for op in sc["ops"].as_array().unwrap() {
            let c0 = tick_clock();
            let mut res = Value::Null;
            let mut qs = Value::Null;
            if op["op"] == "httpquery" {
                let spec = op["q"].as_str().unwrap();
                let hdr = if spec == "none" {
                    None
                } else if let Some(raw) = spec.strip_prefix("raw:") {
                    Some(raw.to_string())
                } else {
                    let q = make_query_tick(&st, spec).await;
                    qs = Value::String(q.to_string());
                    Some(q.to_string())
                };
                let metadata = op.get("metadata").and_then(|v| v.as_bool()).unwrap_or(true);
                let notify = op.get("notify").and_then(|v| v.as_bool()).unwrap_or(false);
                tick_clock();
                res = http_get_provision(port, hdr, metadata, notify).await;
            } else {
                let fut = make_future(&st, op);
                fut.await;
            }
            drain().await;
            tick_clock();
            let (f, t) = snapshot(&st).await;
            let chan = st
                .get_key_keeper_shared_state()
                .get_current_secure_channel_state()
                .await
                .unwrap_or_default();
            let c1 = tick_clock();
            steps.push(json!({"flags": f, "tick": t.to_string(), "c0": c0.to_string(), "c1": c1.to_string(),
                              "q": qs, "res": res, "chan": chan}));
        }
        st.cancel_cancellation_token();
        drain().await;
        json!({"init": {"flags": f0, "tick": t0.to_string(), "clock": start_clock.to_string()},
               "steps": steps, "fs": fs_snapshot()})
    });
    rt.shutdown_timeout(std::time::Duration::from_millis(200));
    out
}

// ------------------------------------------------------------------------------------------
// F11: two writers of status.tag on different worker threads
// ------------------------------------------------------------------------------------------
fn run_threads(sc: &Value) -> Value {
    use std::sync::atomic::{AtomicBool, AtomicU64, Ordering};
    let iters = sc["iters"].as_u64().unwrap_or(2000);
    let writers = sc["writers"].as_u64().unwrap_or(2);
    let dir = base_dir().join(format!("f11-{}", std::process::id()));
    let _ = std::fs::remove_dir_all(&dir);
    std::fs::create_dir_all(&dir).unwrap();
    let msg_a: String = "A".repeat(900);
    let msg_b: String = "B".repeat(300);
    let stop = Arc::new(AtomicBool::new(false));
    let reads = Arc::new(AtomicU64::new(0));
    let anomalies = Arc::new(AtomicU64::new(0));
    let example = Arc::new(std::sync::Mutex::new(String::new()));
    let rt = tokio::runtime::Builder::new_multi_thread()
        .worker_threads(4)
        .enable_all()
        .build()
        .unwrap();
    let tag = dir.join("status.tag");
    let (full_a, full_b) = rt.block_on(async {
        let st = SharedState::start_all();
        let prov = st.get_provision_shared_state();
        let ags = st.get_agent_status_shared_state();
        prov.set_event_log_threads_initialized().await.unwrap();
        // calibration: what ONE writer alone publishes for each of the two status messages
        let mut fulls = Vec::new();
        for m in [&msg_a, &msg_b] {
            let _ = ags
                .set_module_status_message(m.clone(), AgentStatusModule::KeyKeeper)
                .await;
            provision::provision_timeup(Some(dir.clone()), prov.clone(), ags.clone()).await;
            fulls.push(String::from_utf8_lossy(&std::fs::read(&tag).unwrap_or_default()).to_string());
        }
        let (full_a, full_b) = (fulls[0].clone(), fulls[1].clone());
        let reader = {
            let (stop, reads, anomalies, example) = (stop.clone(), reads.clone(), anomalies.clone(), example.clone());
            let (full_a, full_b) = (full_a.clone(), full_b.clone());
            let tag = tag.clone();
            std::thread::spawn(move || {
                while !stop.load(Ordering::Relaxed) {
                    let r = std::fs::read(&tag);
                    if let Err(e) = &r {
                        // the calibration runs published status.tag already: from now on it must always be there
                        reads.fetch_add(1, Ordering::Relaxed);
                        if anomalies.fetch_add(1, Ordering::Relaxed) == 0 {
                            *example.lock().unwrap() = format!("missing / unreadable ({})", e.kind());
                        }
                    }
                    if let Ok(b) = r {
                        reads.fetch_add(1, Ordering::Relaxed);
                        let s = String::from_utf8_lossy(&b).to_string();
                        if s != full_a && s != full_b && anomalies.fetch_add(1, Ordering::Relaxed) == 0 {
                            let kind = if s.is_empty() {
                                "empty".to_string()
                            } else if full_a.starts_with(&s) || full_b.starts_with(&s) {
                                format!("strict prefix of length {}", s.len())
                            } else {
                                format!("mixture of length {} (A-bytes {}, B-bytes {})", s.len(),
                                        s.matches('A').count(), s.matches('B').count())
                            };
                            *example.lock().unwrap() = kind;
                        }
                    }
                }
            })
        };
        let mut hs = Vec::new();
        for _w in 0..writers {
            let (prov, ags, dir) = (prov.clone(), ags.clone(), dir.clone());
            hs.push(tokio::spawn(async move {
                for _ in 0..iters {
                    provision::provision_timeup(Some(dir.clone()), prov.clone(), ags.clone()).await;
                }
            }));
        }
        let toggler = {
            let (ags, stop) = (ags.clone(), stop.clone());
            let (a, b) = (msg_a.clone(), msg_b.clone());
            tokio::spawn(async move {
                let mut i = 0u64;
                while !stop.load(Ordering::Relaxed) {
                    let m = if i % 2 == 0 { a.clone() } else { b.clone() };
                    let _ = ags.set_module_status_message(m, AgentStatusModule::KeyKeeper).await;
                    i += 1;
                    tokio::task::yield_now().await;
                }
            })
        };
        for h in hs {
            let _ = h.await;
        }
        stop.store(true, Ordering::Relaxed);
        let _ = toggler.await;
        let _ = reader.join();
        (full_a, full_b)
    });
    let ex = example.lock().unwrap().clone();
    let _ = std::fs::remove_dir_all(&dir);
    json!({"iters": iters, "writers": writers, "reads": reads.load(Ordering::Relaxed),
           "anomalies": anomalies.load(Ordering::Relaxed), "example": ex,
           "complete_a": full_a, "complete_b": full_b})
}

// ------------------------------------------------------------------------------------------
// single writer over an existing status.tag (run under strace kill injection)
// ------------------------------------------------------------------------------------------
fn run_write(sc: &Value) -> Value {
    let rt = tokio::runtime::Builder::new_current_thread()
        .enable_all()
        .build()
        .unwrap();
    rt.block_on(async {
        let st = SharedState::start_all();
        let prov = st.get_provision_shared_state();
        let ags = st.get_agent_status_shared_state();
        prov.set_event_log_threads_initialized().await.unwrap();
        let _ = ags
            .set_module_status_message(sc["msg"].as_str().unwrap().to_string(), AgentStatusModule::KeyKeeper)
            .await;
        let dir = PathBuf::from(sc["dir"].as_str().unwrap());
        // marker for the kill-point counter: everything before this line is start-up
        let _ = std::fs::metadata(dir.join("MARK"));
        // injected environment faults for the tag writer:
        //  "fsize": N  -> RLIMIT_FSIZE = N bytes (SIGXFSZ ignored): a write beyond N bytes fails part-way (EFBIG),
        //                 which is what a full volume / quota looks like to write(2)
        //  "drop_uid": u -> the process gives up root, so a root-owned directory is read-only for it
        if let Some(n) = sc.get("fsize").and_then(|v| v.as_u64()) {
            unsafe {
                libc::signal(libc::SIGXFSZ, libc::SIG_IGN);
                let lim = libc::rlimit { rlim_cur: n as libc::rlim_t, rlim_max: libc::RLIM_INFINITY };
                libc::setrlimit(libc::RLIMIT_FSIZE, &lim);
            }
        }
        if let Some(u) = sc.get("drop_uid").and_then(|v| v.as_u64()) {
            unsafe {
                libc::setgid(u as libc::gid_t);
                libc::setuid(u as libc::uid_t);
            }
        }
        provision::provision_timeup(Some(dir), prov, ags).await;
        if sc.get("fsize").is_some() {
            unsafe {
                let lim = libc::rlimit { rlim_cur: libc::RLIM_INFINITY, rlim_max: libc::RLIM_INFINITY };
                libc::setrlimit(libc::RLIMIT_FSIZE, &lim);
            }
        }
    });
    json!({"ok": true, "uid": unsafe { libc::getuid() }})
}

pub fn main() {
    write_config();
    let stdin = io::stdin();
    for line in stdin.lock().lines() {
        let line = line.unwrap();
        if line.trim().is_empty() {
            continue;
        }
        let sc: Value = serde_json::from_str(&line).expect("bad scenario json");
        let kind = sc["kind"].as_str().unwrap_or("").to_string();
        let r = std::panic::catch_unwind(std::panic::AssertUnwindSafe(|| match kind.as_str() {
            "sched" => run_sched(&sc),
            "http" => run_http(&sc),
            "threads" => run_threads(&sc),
            "burst" => run_burst(&sc),
            "write" => run_write(&sc),
            _ => json!({"error": "unknown kind"}),
        }));
        let v = match r {
            Ok(v) => v,
            Err(_) => json!({"panic": true}),
        };
        let stdout = io::stdout();
        let mut o = stdout.lock();
        writeln!(o, "@@ {}", v).unwrap();
        o.flush().unwrap();
    }
}
