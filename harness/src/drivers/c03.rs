// C03 correspondence driver: the real proxy_authorizer::authorize over (destination, claims, url,
// rule set) tuples, and Claims::from_audit_entry for the elevation bit.
//
// stdin: one JSON object per line
//   {"doc": "<JSON text of an AuthorizationItem>" | null,
//    "cases": [{"ip": "168.63.129.16", "port": 80, "u":.., "g":[..], "p": hex, "e": hex, "el": bool,
//               "url": "<request URI text>"}, ...]}
//      -> @@ {"res": ["ok" | "audit" | "forbidden" | "other" | "err:..."], "kinds": [type_name of the authorizer]}
//      the cases of one line are decided in order on clones of ONE rule set (a request sequence)
//   {"admin": [i32, ...]}
//      -> @@ {"elevated": [bool, ...]}     runAsElevated of Claims::from_audit_entry(is_admin = x)
//
// SERVICE MODE (environment variable C03_SERVICE = JSON {"scratch": dir, "proxyPort": n | null,
//   "callers": [{"uid": n, "is_admin": n}], "requests": [base64 of raw request bytes]}), no stdin:
//   writes proxy-agent.json beside the executable (with an extra "proxyPort" member when given: today's
//   Config ignores it), runs the REAL service::start_service(SharedState::start_all()) -- so the listener
//   is bound by the agent's own start-up code on whatever port that code chooses --, reads the LISTEN
//   sockets of the (private) network namespace from /proc/net/tcp, and for every listening port L sends
//   each request on a fresh connection whose H1 audit record names 127.0.0.1:L as original destination.
//      -> @@ {"listen": [L..], "results": [{"port": L, "uid", "is_admin", "statuses": [..]}]}
use gpa::key_keeper::key::AuthorizationItem;
use gpa::proxy::authorization_rules::ComputedAuthorizationItem;
use gpa::proxy::proxy_authorizer::{self, AuthorizeResult};
use gpa::proxy::proxy_connection::ConnectionLogger;
use gpa::proxy::Claims;
use gpa::redirector::AuditEntry;
use gpa::shared_state::proxy_server_wrapper::ProxyServerSharedState;
use serde_json::{json, Value};
use std::ffi::OsString;
use std::io::{self, BufRead, Write};
use std::os::unix::ffi::OsStringExt;
use std::path::PathBuf;

fn unhex(s: &str) -> Vec<u8> {
    (0..s.len() / 2)
        .map(|i| u8::from_str_radix(&s[2 * i..2 * i + 2], 16).unwrap())
        .collect()
}

fn claims_of(r: &Value) -> Claims {
    Claims {
        userId: 0,
        userName: r["u"].as_str().unwrap_or("").to_string(),
        userGroups: r["g"]
            .as_array()
            .map(|a| a.iter().map(|x| x.as_str().unwrap_or("").to_string()).collect())
            .unwrap_or_default(),
        processId: 0,
        processName: OsString::from_vec(unhex(r["p"].as_str().unwrap_or(""))),
        processFullPath: PathBuf::from(OsString::from_vec(unhex(r["e"].as_str().unwrap_or("")))),
        processCmdLine: String::new(),
        runAsElevated: r["el"].as_bool().unwrap_or(false),
        clientIp: "127.0.0.1".to_string(),
        clientPort: 0,
    }
}

fn handle(rt: &tokio::runtime::Runtime, line: &str) -> Value {
    let v: Value = match serde_json::from_str(line) {
        Ok(v) => v,
        Err(e) => return json!({"err": format!("line: {}", e)}),
    };
    if let Some(admins) = v["admin"].as_array() {
        let out: Vec<Value> = rt.block_on(async {
            let shared = ProxyServerSharedState::start_new();
            let mut out = Vec::new();
            for a in admins {
                let mut entry = AuditEntry::empty();
                entry.logon_id = 0;
                entry.process_id = std::process::id();
                entry.is_admin = a.as_i64().unwrap_or(0) as i32;
                match Claims::from_audit_entry(
                    &entry,
                    std::net::IpAddr::V4(std::net::Ipv4Addr::LOCALHOST),
                    0,
                    shared.clone(),
                )
                .await
                {
                    Ok(c) => out.push(json!(c.runAsElevated)),
                    Err(e) => out.push(json!(format!("err:{}", e))),
                }
            }
            out
        });
        return json!({"elevated": out});
    }
    let doc = v["doc"].as_str();
    let mut res = Vec::new();
    let mut kinds = Vec::new();
    // ONE rule set per script line, as in the agent: the key keeper stores one ComputedAuthorizationItem
    // per delivered document and hands a clone to every request, so consecutive cases of a line are a
    // request SEQUENCE over the same rule set (anything the item shares between its clones is shared here).
    let mut doc_err: Option<String> = None;
    let base: Option<ComputedAuthorizationItem> = match doc {
        Some(d) => match serde_json::from_str::<AuthorizationItem>(d) {
            Ok(i) => Some(ComputedAuthorizationItem::from_authorization_item(i)),
            Err(e) => {
                doc_err = Some(format!("err:doc: {}", e));
                None
            }
        },
        None => None,
    };
    if let Some(cases) = v["cases"].as_array() {
        for r in cases {
            if let Some(e) = &doc_err {
                res.push(json!(e));
                kinds.push(json!(""));
                continue;
            }
            let rules: Option<ComputedAuthorizationItem> = base.clone();
            let uri: hyper::Uri = match r["url"].as_str().unwrap_or("").parse() {
                Ok(u) => u,
                Err(e) => {
                    res.push(json!(format!("err:uri: {}", e)));
                    kinds.push(json!(""));
                    continue;
                }
            };
            let ip = r["ip"].as_str().unwrap_or("").to_string();
            let port = r["port"].as_u64().unwrap_or(0) as u16;
            let claims = claims_of(r);
            kinds.push(json!(proxy_authorizer::get_authorizer(ip.clone(), port, claims.clone()).type_name()));
            let mut logger = ConnectionLogger::new(0, 0);
            let out = std::panic::catch_unwind(std::panic::AssertUnwindSafe(|| {
                proxy_authorizer::authorize(ip, port, &mut logger, uri, claims, rules)
            }));
            res.push(json!(match out {
                Ok(AuthorizeResult::Ok) => "ok",
                Ok(AuthorizeResult::OkWithAudit) => "audit",
                Ok(AuthorizeResult::Forbidden) => "forbidden",
                // a result this driver does not know (a variant added later): reported as such; whether
                // such a request is relayed is judged end to end, not here
                #[allow(unreachable_patterns)]
                Ok(_) => "other",
                Err(_) => "panic",
            }));
        }
    }
    json!({"res": res, "kinds": kinds})
}

fn listen_ports() -> Vec<u16> {
    // /proc/net/tcp of this network namespace: "sl local_address rem_address st ..."; st 0A = LISTEN
    let mut v = Vec::new();
    if let Ok(t) = std::fs::read_to_string("/proc/net/tcp") {
        for l in t.lines().skip(1) {
            let f: Vec<&str> = l.split_whitespace().collect();
            if f.len() > 3 && f[3] == "0A" {
                if let Some(p) = f[1].rsplit(':').next() {
                    if let Ok(port) = u16::from_str_radix(p, 16) {
                        v.push(port);
                    }
                }
            }
        }
    }
    v.sort();
    v.dedup();
    v
}

fn service_mode(spec: &str) {
    use base64_lite::decode;
    let v: Value = serde_json::from_str(spec).expect("C03_SERVICE json");
    let scratch = PathBuf::from(v["scratch"].as_str().expect("scratch"));
    for d in ["logs", "events", "keys"] {
        std::fs::create_dir_all(scratch.join(d)).expect("scratch dirs");
    }
    let exe_dir = std::env::current_exe().unwrap().parent().unwrap().to_path_buf();
    let mut cfg = json!({
        "logFolder": scratch.join("logs"), "eventFolder": scratch.join("events"), "latchKeyFolder": scratch.join("keys"),
        "monitorIntervalInSeconds": 60, "pollKeyStatusIntervalInSeconds": 15, "hostGAPluginSupport": 1,
        "ebpfProgramName": "ebpf_cgroup.o", "cgroupRoot": "/sys/fs/cgroup", "fileLogLevel": "Trace"
    });
    if let Some(p) = v["proxyPort"].as_u64() {
        cfg["proxyPort"] = json!(p);
    }
    std::fs::write(exe_dir.join("proxy-agent.json"), serde_json::to_vec_pretty(&cfg).unwrap()).expect("write proxy-agent.json");
    let requests: Vec<Vec<u8>> = v["requests"].as_array().map(|a| a.iter().map(|x| decode(x.as_str().unwrap_or(""))).collect()).unwrap_or_default();
    let callers: Vec<(u64, i32)> = v["callers"].as_array().map(|a| a.iter().map(|c| (c["uid"].as_u64().unwrap_or(0), c["is_admin"].as_i64().unwrap_or(0) as i32)).collect()).unwrap_or_default();

    let rt = tokio::runtime::Builder::new_multi_thread().worker_threads(2).enable_all().build().unwrap();
    let out = rt.block_on(async move {
        use tokio::io::{AsyncReadExt, AsyncWriteExt};
        gpa::redirector::verif_hooks::enable();
        let shared_state = gpa::shared_state::SharedState::start_all();
        gpa::service::start_service(shared_state.clone()).await;
        // wait for the agent's listener(s)
        let mut ports = Vec::new();
        for _ in 0..100 {
            ports = listen_ports();
            if !ports.is_empty() {
                break;
            }
            tokio::time::sleep(std::time::Duration::from_millis(50)).await;
        }
        tokio::time::sleep(std::time::Duration::from_millis(200)).await;
        let ports2 = listen_ports();
        if !ports2.is_empty() {
            ports = ports2;
        }
        let mut results = Vec::new();
        for &l in &ports {
            for &(uid, is_admin) in &callers {
                let mut statuses = Vec::new();
                for raw in &requests {
                    let st: Value = async {
                        let sock = match tokio::net::TcpSocket::new_v4() { Ok(s) => s, Err(e) => return json!(format!("socket: {}", e)) };
                        if let Err(e) = sock.bind("127.0.0.1:0".parse().unwrap()) { return json!(format!("bind: {}", e)); }
                        let lp = sock.local_addr().map(|a| a.port()).unwrap_or(0);
                        gpa::redirector::verif_hooks::insert(lp, (uid, std::process::id(), is_admin,
                            u32::from_le_bytes([127, 0, 0, 1]), l.to_be()));
                        let mut stream = match sock.connect(format!("127.0.0.1:{}", l).parse().unwrap()).await {
                            Ok(s) => s, Err(e) => return json!(format!("connect: {}", e)) };
                        if let Err(e) = stream.write_all(raw).await { return json!(format!("write: {}", e)); }
                        let mut buf = Vec::new();
                        let mut chunk = [0u8; 4096];
                        let deadline = tokio::time::Instant::now() + std::time::Duration::from_secs(5);
                        loop {
                            if buf.windows(4).any(|w| w == b"\r\n\r\n") { break; }
                            match tokio::time::timeout_at(deadline, stream.read(&mut chunk)).await {
                                Ok(Ok(0)) | Err(_) | Ok(Err(_)) => break,
                                Ok(Ok(n)) => buf.extend_from_slice(&chunk[..n]),
                            }
                        }
                        let head = String::from_utf8_lossy(&buf).to_string();
                        match head.split_whitespace().nth(1).and_then(|x| x.parse::<u16>().ok()) {
                            Some(code) => json!(code),
                            None => json!(format!("no status line: {:?}", head.chars().take(60).collect::<String>())),
                        }
                    }.await;
                    statuses.push(st);
                }
                results.push(json!({"port": l, "uid": uid, "is_admin": is_admin, "statuses": statuses}));
            }
        }
        json!({"listen": ports, "results": results})
    });
    let text = format!("@@ {}\n", out);
    io::stdout().write_all(text.as_bytes()).unwrap();
    io::stdout().flush().unwrap();
    std::process::exit(0);
}

mod base64_lite {
    pub fn decode(s: &str) -> Vec<u8> {
        let mut out = Vec::new();
        let (mut acc, mut bits) = (0u32, 0u32);
        for c in s.bytes() {
            let v = match c {
                b'A'..=b'Z' => c - b'A',
                b'a'..=b'z' => c - b'a' + 26,
                b'0'..=b'9' => c - b'0' + 52,
                b'+' => 62,
                b'/' => 63,
                _ => continue,
            } as u32;
            acc = (acc << 6) | v;
            bits += 6;
            if bits >= 8 {
                bits -= 8;
                out.push((acc >> bits) as u8);
                acc &= (1 << bits) - 1;
            }
        }
        out
    }
}

pub fn main() {
    if let Ok(spec) = std::env::var("C03_SERVICE") {
        service_mode(&spec);
        return;
    }
    std::panic::set_hook(Box::new(|_| {}));
    let rt = tokio::runtime::Builder::new_current_thread()
        .enable_all()
        .build()
        .unwrap();
    let stdin = io::stdin();
    // The library prints some log lines with println!; results go through the same line-buffered
    // stdout handle, one write per line, so the two cannot interleave inside a line.
    for line in stdin.lock().lines() {
        let line = line.unwrap();
        if line.trim().is_empty() {
            continue;
        }
        let text = format!("@@ {}\n", handle(&rt, &line));
        io::stdout().write_all(text.as_bytes()).unwrap();
    }
}
