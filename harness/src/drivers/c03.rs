// C03 correspondence driver: the real proxy_authorizer::authorize over (destination, claims, url,
// rule set) tuples, and Claims::from_audit_entry for the elevation bit.
//
// stdin: one JSON object per line
//   {"doc": "<JSON text of an AuthorizationItem>" | null,
//    "cases": [{"ip": "168.63.129.16", "port": 80, "u":.., "g":[..], "p": hex, "e": hex, "el": bool,
//               "url": "<request URI text>"}, ...]}
//      -> @@ {"res": ["ok" | "audit" | "forbidden" | "err:..."], "kinds": [type_name of the authorizer]}
//   {"admin": [i32, ...]}
//      -> @@ {"elevated": [bool, ...]}     runAsElevated of Claims::from_audit_entry(is_admin = x)
use gpa::key_keeper::key::AuthorizationItem;
use gpa::proxy::authorization_rules::ComputedAuthorizationItem;
use gpa::proxy::proxy_authorizer::{self, AuthorizeResult};
use gpa::proxy::proxy_connection::ConnectionLogger;
use gpa::proxy::Claims;
use gpa::redirector::AuditEntry;
use gpa::shared_state::proxy_server_wrapper::ProxyServerSharedState;
use serde_json::{json, Value};
use std::ffi::OsString;
use std::io::{self, BufRead, Write};
use std::os::unix::ffi::OsStringExt;
use std::path::PathBuf;

fn unhex(s: &str) -> Vec<u8> {
    (0..s.len() / 2)
        .map(|i| u8::from_str_radix(&s[2 * i..2 * i + 2], 16).unwrap())
        .collect()
}

fn claims_of(r: &Value) -> Claims {
    Claims {
        userId: 0,
        userName: r["u"].as_str().unwrap_or("").to_string(),
        userGroups: r["g"]
            .as_array()
            .map(|a| a.iter().map(|x| x.as_str().unwrap_or("").to_string()).collect())
            .unwrap_or_default(),
        processId: 0,
        processName: OsString::from_vec(unhex(r["p"].as_str().unwrap_or(""))),
        processFullPath: PathBuf::from(OsString::from_vec(unhex(r["e"].as_str().unwrap_or("")))),
        processCmdLine: String::new(),
        runAsElevated: r["el"].as_bool().unwrap_or(false),
        clientIp: "127.0.0.1".to_string(),
        clientPort: 0,
    }
}

fn handle(rt: &tokio::runtime::Runtime, line: &str) -> Value {
    let v: Value = match serde_json::from_str(line) {
        Ok(v) => v,
        Err(e) => return json!({"err": format!("line: {}", e)}),
    };
    if let Some(admins) = v["admin"].as_array() {
        let out: Vec<Value> = rt.block_on(async {
            let shared = ProxyServerSharedState::start_new();
            let mut out = Vec::new();
            for a in admins {
                let mut entry = AuditEntry::empty();
                entry.logon_id = 0;
                entry.process_id = std::process::id();
                entry.is_admin = a.as_i64().unwrap_or(0) as i32;
                match Claims::from_audit_entry(
                    &entry,
                    std::net::IpAddr::V4(std::net::Ipv4Addr::LOCALHOST),
                    0,
                    shared.clone(),
                )
                .await
                {
                    Ok(c) => out.push(json!(c.runAsElevated)),
                    Err(e) => out.push(json!(format!("err:{}", e))),
                }
            }
            out
        });
        return json!({"elevated": out});
    }
    let doc = v["doc"].as_str();
    let mut res = Vec::new();
    let mut kinds = Vec::new();
    if let Some(cases) = v["cases"].as_array() {
        for r in cases {
            let rules: Option<ComputedAuthorizationItem> = match doc {
                Some(d) => match serde_json::from_str::<AuthorizationItem>(d) {
                    Ok(i) => Some(ComputedAuthorizationItem::from_authorization_item(i)),
                    Err(e) => {
                        res.push(json!(format!("err:doc: {}", e)));
                        kinds.push(json!(""));
                        continue;
                    }
                },
                None => None,
            };
            let uri: hyper::Uri = match r["url"].as_str().unwrap_or("").parse() {
                Ok(u) => u,
                Err(e) => {
                    res.push(json!(format!("err:uri: {}", e)));
                    kinds.push(json!(""));
                    continue;
                }
            };
            let ip = r["ip"].as_str().unwrap_or("").to_string();
            let port = r["port"].as_u64().unwrap_or(0) as u16;
            let claims = claims_of(r);
            kinds.push(json!(proxy_authorizer::get_authorizer(ip.clone(), port, claims.clone()).type_name()));
            let mut logger = ConnectionLogger::new(0, 0);
            let out = std::panic::catch_unwind(std::panic::AssertUnwindSafe(|| {
                proxy_authorizer::authorize(ip, port, &mut logger, uri, claims, rules)
            }));
            res.push(json!(match out {
                Ok(AuthorizeResult::Ok) => "ok",
                Ok(AuthorizeResult::OkWithAudit) => "audit",
                Ok(AuthorizeResult::Forbidden) => "forbidden",
                Err(_) => "panic",
            }));
        }
    }
    json!({"res": res, "kinds": kinds})
}

pub fn main() {
    std::panic::set_hook(Box::new(|_| {}));
    let rt = tokio::runtime::Builder::new_current_thread()
        .enable_all()
        .build()
        .unwrap();
    let stdin = io::stdin();
    // The library prints some log lines with println!; results go through the same line-buffered
    // stdout handle, one write per line, so the two cannot interleave inside a line.
    for line in stdin.lock().lines() {
        let line = line.unwrap();
        if line.trim().is_empty() {
            continue;
        }
        let text = format!("@@ {}\n", handle(&rt, &line));
        io::stdout().write_all(text.as_bytes()).unwrap();
    }
}
