// C02 correspondence driver: the real RBAC decision, called exactly as the agent does.
//
// stdin: one JSON object per line
//   {"doc": "<JSON text of an AuthorizationItem>", "reps": n,
//    "reqs": [{"u": userName, "g": [groups], "p": hex(processName), "e": hex(processFullPath),
//              "el": runAsElevated, "url": "<request URI text>"}, ...]}
// stdout: one line per input line, prefixed "@@ ":
//   {"sum": {default, mode, privs, ids, assign}, "res": [{"d": [bool; reps], "path", "query"} | {"err": ..}]}
//   or {"err": "..."} when the document does not deserialize.
//
// The document goes through serde_json::from_str::<AuthorizationItem> (the parsing glue the agent
// uses for the host's answer), then ComputedAuthorizationItem::from_authorization_item, then
// is_allowed(logger, uri, claims).  Every request is decided on `reps` independently built
// computed items (each HashMap/HashSet gets a fresh RandomState, hence a different iteration
// order); all decisions are reported.
use gpa::key_keeper::key::AuthorizationItem;
use gpa::proxy::authorization_rules::ComputedAuthorizationItem;
use gpa::proxy::proxy_connection::ConnectionLogger;
use gpa::proxy::Claims;
use serde_json::{json, Value};
use std::ffi::OsString;
use std::io::{self, BufRead, Write};
use std::os::unix::ffi::OsStringExt;
use std::path::PathBuf;

fn unhex(s: &str) -> Vec<u8> {
    (0..s.len() / 2)
        .map(|i| u8::from_str_radix(&s[2 * i..2 * i + 2], 16).unwrap())
        .collect()
}

pub fn claims_of(r: &Value) -> Claims {
    Claims {
        userId: 0,
        userName: r["u"].as_str().unwrap_or("").to_string(),
        userGroups: r["g"]
            .as_array()
            .map(|a| a.iter().map(|x| x.as_str().unwrap_or("").to_string()).collect())
            .unwrap_or_default(),
        processId: 0,
        processName: OsString::from_vec(unhex(r["p"].as_str().unwrap_or(""))),
        processFullPath: PathBuf::from(OsString::from_vec(unhex(r["e"].as_str().unwrap_or("")))),
        processCmdLine: String::new(),
        runAsElevated: r["el"].as_bool().unwrap_or(false),
        clientIp: "127.0.0.1".to_string(),
        clientPort: 0,
    }
}

pub fn summary(c: &ComputedAuthorizationItem) -> Value {
    let mut privs: Vec<&String> = c.privileges.keys().collect();
    privs.sort();
    // key and the stored privilege's own name (is_allowed looks assignments up by the latter)
    let mut pnames: Vec<(String, String)> = c
        .privileges
        .iter()
        .map(|(k, v)| (k.clone(), v.name.clone()))
        .collect();
    pnames.sort();
    let mut ids: Vec<&String> = c.identities.keys().collect();
    ids.sort();
    let mut assign: Vec<(String, Vec<String>)> = c
        .privilegeAssignments
        .iter()
        .map(|(k, v)| {
            let mut s: Vec<String> = v.iter().cloned().collect();
            s.sort();
            (k.clone(), s)
        })
        .collect();
    assign.sort();
    json!({"default": c.defaultAllowed, "mode": c.mode.to_string(), "privs": privs,
           "pnames": pnames, "ids": ids, "assign": assign})
}

fn handle(line: &str) -> Value {
    let v: Value = match serde_json::from_str(line) {
        Ok(v) => v,
        Err(e) => return json!({"err": format!("line: {}", e)}),
    };
    let doc = v["doc"].as_str().unwrap_or("");
    let reps = v["reps"].as_u64().unwrap_or(1).max(1) as usize;
    let mut computed = Vec::new();
    for _ in 0..reps {
        let item: AuthorizationItem = match serde_json::from_str(doc) {
            Ok(i) => i,
            Err(e) => return json!({"err": format!("doc: {}", e)}),
        };
        computed.push(ComputedAuthorizationItem::from_authorization_item(item));
    }
    let mut res = Vec::new();
    if let Some(reqs) = v["reqs"].as_array() {
        for r in reqs {
            let uri: hyper::Uri = match r["url"].as_str().unwrap_or("").parse() {
                Ok(u) => u,
                Err(e) => {
                    res.push(json!({"err": format!("uri: {}", e)}));
                    continue;
                }
            };
            let claims = claims_of(r);
            let mut d = Vec::new();
            for c in &computed {
                let mut logger = ConnectionLogger::new(0, 0);
                let out = std::panic::catch_unwind(std::panic::AssertUnwindSafe(|| {
                    c.is_allowed(&mut logger, uri.clone(), claims.clone())
                }));
                match out {
                    Ok(b) => d.push(json!(b)),
                    Err(_) => d.push(json!("panic")),
                }
            }
            res.push(json!({"d": d, "path": uri.path(), "query": uri.query()}));
        }
    }
    json!({"sum": summary(&computed[0]), "res": res})
}

pub fn main() {
    std::panic::set_hook(Box::new(|_| {}));
    let stdin = io::stdin();
    // The library prints some log lines with println!; results go through the same line-buffered
    // stdout handle, one write per line, so the two cannot interleave inside a line.
    for line in stdin.lock().lines() {
        let line = line.unwrap();
        if line.trim().is_empty() {
            continue;
        }
        let text = format!("@@ {}\n", handle(&line));
        io::stdout().write_all(text.as_bytes()).unwrap();
    }
}
