// Shared end-to-end runner (see notes/E2E.md and tools/e2e.py, which is the supported front end).
//
// Runs the REAL proxy listener (`gpa::proxy::proxy_server::ProxyServer` on a fresh
// `SharedState::start_all()` per scenario) against in-process mock metadata hosts (plain tokio
// TCP listeners that record raw bytes and answer with scripted raw bytes), driven by JSON
// scenarios: one scenario per stdin line, one result per line on the ORIGINAL stdout (fd 1 is
// re-pointed to `$E2E_SCRATCH/agent_stdout.log` first, because the agent `println!`s its console
// log).  No command-line arguments (DESIGN 1.7).  Environment:
//   E2E_SCRATCH   scratch directory (logs/, events/, keys/ are created below it)        [required]
//   E2E_MOCKS     comma separated ip:port list the mock hosts bind                      [default below]
//   E2E_THREADS   tokio worker threads (0 = current_thread runtime)                     [2]
//   E2E_FILE_LOG  "0" = do not install the agent's file loggers                         [1]
// Must run where the mock addresses can be bound (private netns, see tools/e2e.py).
use gpa::key_keeper::key::{AuthorizationItem, Key};
use gpa::proxy::proxy_server::ProxyServer;
use gpa::redirector::verif_hooks as hooks;
use gpa::shared_state::agent_status_wrapper::AgentStatusModule;
use gpa::shared_state::SharedState;
use proxy_agent_shared::proxy_agent_aggregate_status::ModuleState;
use serde_json::{json, Value};
use std::collections::HashMap;
use std::io::Write;
use std::net::{Ipv4Addr, SocketAddr};
use std::os::unix::io::FromRawFd;
use std::sync::atomic::Ordering;
use std::sync::{Arc, Mutex};
use std::time::Duration;
use tokio::io::{AsyncReadExt, AsyncWriteExt};
use tokio::net::{TcpListener, TcpSocket, TcpStream};
use tokio::sync::Notify;

const DEFAULT_MOCKS: &str =
    "168.63.129.16:80,168.63.129.16:32526,169.254.169.254:80,10.9.8.7:80,127.0.0.1:18080";

// ------------------------------------------------------------------------------------------
// base64 (no such crate in the offline registry subset we depend on)
// ------------------------------------------------------------------------------------------
const B64: &[u8; 64] = b"ABCDEFGHIJKLMNOPQRSTUVWXYZabcdefghijklmnopqrstuvwxyz0123456789+/";

fn b64e(data: &[u8]) -> String {
    let mut out = String::with_capacity((data.len() + 2) / 3 * 4);
    for c in data.chunks(3) {
        let b = [c[0], *c.get(1).unwrap_or(&0), *c.get(2).unwrap_or(&0)];
        let n = ((b[0] as u32) << 16) | ((b[1] as u32) << 8) | b[2] as u32;
        out.push(B64[(n >> 18) as usize & 63] as char);
        out.push(B64[(n >> 12) as usize & 63] as char);
        out.push(if c.len() > 1 { B64[(n >> 6) as usize & 63] as char } else { '=' });
        out.push(if c.len() > 2 { B64[n as usize & 63] as char } else { '=' });
    }
    out
}

fn b64d(s: &str) -> Result<Vec<u8>, String> {
    let mut out = Vec::with_capacity(s.len() / 4 * 3);
    let mut acc: u32 = 0;
    let mut bits = 0;
    for ch in s.bytes() {
        let v = match ch {
            b'A'..=b'Z' => ch - b'A',
            b'a'..=b'z' => ch - b'a' + 26,
            b'0'..=b'9' => ch - b'0' + 52,
            b'+' | b'-' => 62,
            b'/' | b'_' => 63,
            b'=' | b'\n' | b'\r' | b' ' => continue,
            _ => return Err(format!("bad base64 character {:?}", ch as char)),
        };
        acc = (acc << 6) | v as u32;
        bits += 6;
        if bits >= 8 {
            bits -= 8;
            out.push((acc >> bits) as u8);
            acc &= (1 << bits) - 1;
        }
    }
    Ok(out)
}

// ------------------------------------------------------------------------------------------
// EXTENSIONS (C05/C14/C15): CRC-32 (IEEE, as Python's zlib.crc32) and the generated-body pattern
// ------------------------------------------------------------------------------------------
fn crc32_update(mut crc: u32, data: &[u8]) -> u32 {
    static TABLE: std::sync::OnceLock<[u32; 256]> = std::sync::OnceLock::new();
    let table = TABLE.get_or_init(|| {
        let mut t = [0u32; 256];
        for i in 0..256u32 {
            let mut c = i;
            for _ in 0..8 {
                c = if c & 1 != 0 { 0xEDB8_8320 ^ (c >> 1) } else { c >> 1 };
            }
            t[i as usize] = c;
        }
        t
    });
    crc = !crc;
    for &b in data {
        crc = table[((crc ^ b as u32) & 0xff) as usize] ^ (crc >> 8);
    }
    !crc
}

/// byte i of a generated body: ((i mod 251) + seed) mod 256  (period 251, so every chunk size sees
/// every phase; tools/e2e.py gen_body_bytes is the same function)
fn pattern_fill(out: &mut Vec<u8>, start: u64, len: usize, seed: u64) {
    out.clear();
    out.reserve(len);
    let mut ph = (start % 251) as u32;
    let sd = (seed % 256) as u32;
    for _ in 0..len {
        out.push(((ph + sd) & 0xff) as u8);
        ph += 1;
        if ph == 251 {
            ph = 0;
        }
    }
}

fn bytes_field(v: &Value, name: &str) -> Result<Option<Vec<u8>>, String> {
    // `<name>_b64` (base64) or `<name>` (plain text) -- base64 wins
    if let Some(s) = v.get(format!("{}_b64", name)).and_then(|x| x.as_str()) {
        return b64d(s).map(Some);
    }
    if let Some(s) = v.get(name).and_then(|x| x.as_str()) {
        return Ok(Some(s.as_bytes().to_vec()));
    }
    Ok(None)
}

// ------------------------------------------------------------------------------------------
// minimal HTTP/1.1 message framing (shared by the mock hosts and the client side)
// ------------------------------------------------------------------------------------------
fn find(hay: &[u8], needle: &[u8], from: usize) -> Option<usize> {
    if hay.len() < needle.len() || from > hay.len() - needle.len() {
        return None;
    }
    (from..=hay.len() - needle.len()).find(|&i| &hay[i..i + needle.len()] == needle)
}

struct Head {
    first_line: String,
    content_length: Option<usize>,
    chunked: bool,
    end: usize, // offset just after the blank line
}

fn parse_head(buf: &[u8], from: usize) -> Option<Head> {
    let he = find(buf, b"\r\n\r\n", from)?;
    let text = String::from_utf8_lossy(&buf[from..he]).to_string();
    let mut lines = text.split("\r\n");
    let first_line = lines.next().unwrap_or("").to_string();
    let mut content_length = None;
    let mut chunked = false;
    for l in lines {
        if let Some(ix) = l.find(':') {
            let (k, v) = (l[..ix].trim().to_ascii_lowercase(), l[ix + 1..].trim());
            if k == "content-length" {
                content_length = v.parse::<usize>().ok();
            } else if k == "transfer-encoding" && v.to_ascii_lowercase().contains("chunked") {
                chunked = true;
            }
        }
    }
    Some(Head { first_line, content_length, chunked, end: he + 4 })
}

/// offset just after a complete chunked body starting at `from`, or None when incomplete
fn chunked_end(buf: &[u8], from: usize) -> Option<usize> {
    let mut pos = from;
    loop {
        let le = find(buf, b"\r\n", pos)?;
        let line = String::from_utf8_lossy(&buf[pos..le]).to_string();
        let size_txt = line.split(';').next().unwrap_or("").trim().to_string();
        let size = usize::from_str_radix(&size_txt, 16).ok()?;
        pos = le + 2;
        if size == 0 {
            // trailers until an empty line
            loop {
                let te = find(buf, b"\r\n", pos)?;
                if te == pos {
                    return Some(pos + 2);
                }
                pos = te + 2;
            }
        }
        if buf.len() < pos + size + 2 {
            return None;
        }
        pos += size + 2;
    }
}

// ------------------------------------------------------------------------------------------
// mock hosts
// ------------------------------------------------------------------------------------------
#[derive(Default)]
struct UpConn {
    host: String,
    peer_port: u16,
    bytes: Vec<u8>,
    requests: Vec<(usize, usize, usize)>, // (start, end of head, end of body) offsets into bytes
    replies: usize,
    closed: bool,
    // EXTENSIONS: streaming mode (scenario "upstream_capture")
    total: usize,            // all bytes received (== bytes.len() unless capped)
    infos: Vec<Value>,       // per complete request: body_len, body_crc32, chunked, head_len
}

struct ScenarioRec {
    conns: Mutex<Vec<UpConn>>,
    replies: Mutex<HashMap<String, Vec<(Value, bool)>>>, // host -> [(spec, consumed)]
    default_reply: Value,
    notify: Notify,
    capture: Option<usize>, // EXTENSIONS: Some(n) = streaming mock, keep the first n bytes per connection
    read_pause_ms: u64,     // EXTENSIONS (C15 round 4): a slow host -- the streaming mock sleeps this long after every read (of <= 256 KiB)
}

static CURRENT: Mutex<Option<Arc<ScenarioRec>>> = Mutex::new(None);
static STRAY: Mutex<usize> = Mutex::new(0);
static PANICS: Mutex<Vec<String>> = Mutex::new(Vec::new());
/// arrival counters of the `barrier` op (name -> participants arrived)
static BARRIERS: Mutex<Option<HashMap<String, usize>>> = Mutex::new(None);
/// directory of the scenario's ProxyAgentStatusTask (`status_task_ms`), None when none is running
static STATUS_DIR: Mutex<Option<std::path::PathBuf>> = Mutex::new(None);

fn build_reply(spec: &Value, head_request: bool) -> Vec<u8> {
    if let Ok(Some(raw)) = bytes_field(spec, "raw") {
        return raw;
    }
    let status = spec.get("status").and_then(|x| x.as_u64()).unwrap_or(200);
    let reason = spec.get("reason").and_then(|x| x.as_str()).unwrap_or(match status {
        200 => "OK",
        404 => "Not Found",
        500 => "Internal Server Error",
        _ => "Status",
    });
    let body = bytes_field(spec, "body").ok().flatten().unwrap_or_else(|| b"mock-ok".to_vec());
    let mut out = format!("HTTP/1.1 {} {}\r\n", status, reason).into_bytes();
    let mut has_cl = false;
    let mut has_te = false;
    let mut has_headers = false;
    if let Some(hs) = spec.get("headers").and_then(|x| x.as_array()) {
        has_headers = true;
        for h in hs {
            let k = h.get(0).and_then(|x| x.as_str()).unwrap_or("");
            let v = h.get(1).and_then(|x| x.as_str()).unwrap_or("");
            match k.to_ascii_lowercase().as_str() {
                "content-length" => has_cl = true,
                "transfer-encoding" => has_te = true,
                _ => {}
            }
            out.extend_from_slice(format!("{}: {}\r\n", k, v).as_bytes());
        }
    }
    if !has_headers {
        out.extend_from_slice(b"Content-Type: text/plain\r\n");
    }
    let chunk_sizes: Option<Vec<usize>> = spec.get("chunked").and_then(|x| x.as_array()).map(|a| {
        a.iter().map(|n| n.as_u64().unwrap_or(1).max(1) as usize).collect()
    });
    let no_cl = spec.get("no_content_length").and_then(|x| x.as_bool()).unwrap_or(false);
    if let Some(sizes) = chunk_sizes {
        if !has_te {
            out.extend_from_slice(b"Transfer-Encoding: chunked\r\n");
        }
        out.extend_from_slice(b"\r\n");
        if !head_request {
            let mut pos = 0;
            let mut i = 0;
            while pos < body.len() {
                let want = if sizes.is_empty() { body.len() } else { sizes[i.min(sizes.len() - 1)] };
                let n = want.min(body.len() - pos);
                out.extend_from_slice(format!("{:x}\r\n", n).as_bytes());
                out.extend_from_slice(&body[pos..pos + n]);
                out.extend_from_slice(b"\r\n");
                pos += n;
                i += 1;
            }
            out.extend_from_slice(b"0\r\n\r\n");
        }
    } else {
        if !has_cl && !no_cl {
            out.extend_from_slice(format!("Content-Length: {}\r\n", body.len()).as_bytes());
        }
        out.extend_from_slice(b"\r\n");
        if !head_request {
            out.extend_from_slice(&body);
        }
    }
    out
}

fn choose_reply(rec: &ScenarioRec, host: &str, request: &[u8]) -> Value {
    let mut map = rec.replies.lock().unwrap();
    if let Some(list) = map.get_mut(host) {
        for (spec, consumed) in list.iter_mut() {
            if *consumed {
                continue;
            }
            if let Some(m) = spec.get("match").and_then(|x| x.as_str()) {
                if find(request, m.as_bytes(), 0).is_none() {
                    continue;
                }
            }
            if !spec.get("sticky").and_then(|x| x.as_bool()).unwrap_or(false) {
                *consumed = true;
            }
            return spec.clone();
        }
    }
    rec.default_reply.clone()
}

async fn mock_conn(mut stream: TcpStream, host: String, peer_port: u16) {
    let rec = match CURRENT.lock().unwrap().clone() {
        Some(r) => r,
        None => {
            *STRAY.lock().unwrap() += 1;
            return;
        }
    };
    let ix = {
        let mut conns = rec.conns.lock().unwrap();
        conns.push(UpConn { host: host.clone(), peer_port, ..Default::default() });
        conns.len() - 1
    };
    rec.notify.notify_waiters();
    if let Some(cap) = rec.capture {
        mock_conn_streaming(&mut stream, &rec, ix, &host, cap).await;
        let _ = stream.shutdown().await;
        drop(stream);
        rec.conns.lock().unwrap()[ix].closed = true;
        rec.notify.notify_waiters();
        return;
    }
    let mut buf: Vec<u8> = Vec::new();
    let mut pos = 0usize;
    let mut tmp = vec![0u8; 65536];
    'outer: loop {
        let n = match stream.read(&mut tmp).await {
            Ok(0) | Err(_) => break,
            Ok(n) => n,
        };
        buf.extend_from_slice(&tmp[..n]);
        {
            let mut conns = rec.conns.lock().unwrap();
            conns[ix].bytes.extend_from_slice(&tmp[..n]);
            conns[ix].total += n;
        }
        loop {
            let head = match parse_head(&buf, pos) {
                Some(h) => h,
                None => break,
            };
            let end = if head.chunked {
                match chunked_end(&buf, head.end) {
                    Some(e) => e,
                    None => break,
                }
            } else {
                let e = head.end + head.content_length.unwrap_or(0);
                if buf.len() < e {
                    break;
                }
                e
            };
            rec.conns.lock().unwrap()[ix].requests.push((pos, head.end, end));
            let spec = choose_reply(&rec, &host, &buf[pos..end]);
            pos = end;
            if let Some(ms) = spec.get("delay_ms").and_then(|x| x.as_u64()) {
                tokio::time::sleep(Duration::from_millis(ms)).await;
            }
            if spec.get("close_without_reply").and_then(|x| x.as_bool()).unwrap_or(false) {
                break 'outer;
            }
            let is_head = head.first_line.starts_with("HEAD ");
            let reply = build_reply(&spec, is_head);
            if !write_segmented(&mut stream, &reply, &spec).await {
                break 'outer;
            }
            let _ = stream.flush().await;
            rec.conns.lock().unwrap()[ix].replies += 1;
            if spec.get("close").and_then(|x| x.as_bool()).unwrap_or(false) {
                break 'outer;
            }
        }
    }
    let _ = stream.shutdown().await;
    drop(stream);
    rec.conns.lock().unwrap()[ix].closed = true;
    rec.notify.notify_waiters();
}

/// EXTENSIONS: write `data` in the TCP write sizes given by spec["write_sizes"] (last size repeats; a
/// flush and a pause of spec["write_pause_ms"] (default 1) between writes); one write when absent
async fn write_segmented<W: tokio::io::AsyncWrite + Unpin>(w: &mut W, data: &[u8], spec: &Value) -> bool {
    let sizes = match spec.get("write_sizes").and_then(|x| x.as_array()) {
        Some(a) if !a.is_empty() => a,
        _ => return w.write_all(data).await.is_ok(),
    };
    let pause = spec.get("write_pause_ms").and_then(|x| x.as_u64()).unwrap_or(1);
    let mut pos = 0usize;
    let mut i = 0usize;
    while pos < data.len() {
        let want = sizes[i.min(sizes.len() - 1)].as_u64().unwrap_or(1).max(1) as usize;
        let n = want.min(data.len() - pos);
        if w.write_all(&data[pos..pos + n]).await.is_err() {
            return false;
        }
        let _ = w.flush().await;
        pos += n;
        i += 1;
        if pos < data.len() {
            if pause > 0 {
                tokio::time::sleep(Duration::from_millis(pause)).await;
            } else {
                tokio::task::yield_now().await;
            }
        }
    }
    true
}

/// EXTENSIONS: incremental request parser for the streaming mock (scenario "upstream_capture")
enum PState {
    Head,
    Cl(usize),
    ChSize,
    ChData(usize),
    ChDataEnd(u8),
    ChTrailer,
}

struct SParser {
    state: PState,
    hbuf: Vec<u8>,
    line: Vec<u8>,
    body_len: u64,
    crc: u32,
    chunked: bool,
    chunks: u64,
    offset: usize, // stream offset of the next byte to be consumed
    start: usize,
    head_end: usize,
}

struct SDone {
    start: usize,
    head_end: usize,
    end: usize,
    head: Vec<u8>,
    body_len: u64,
    crc: u32,
    chunked: bool,
    chunks: u64,
}

impl SParser {
    fn new() -> Self {
        SParser { state: PState::Head, hbuf: Vec::new(), line: Vec::new(), body_len: 0, crc: 0, chunked: false, chunks: 0,
                  offset: 0, start: 0, head_end: 0 }
    }
    fn finish(&mut self) -> SDone {
        let d = SDone { start: self.start, head_end: self.head_end, end: self.offset, head: std::mem::take(&mut self.hbuf),
                        body_len: self.body_len, crc: self.crc, chunked: self.chunked, chunks: self.chunks };
        self.state = PState::Head;
        self.body_len = 0;
        self.crc = 0;
        self.chunked = false;
        self.chunks = 0;
        self.line.clear();
        d
    }
    /// consume from data[*pos..] until one request is complete (Some) or the data is used up (None)
    fn feed(&mut self, data: &[u8], pos: &mut usize) -> Option<SDone> {
        while *pos < data.len() {
            match self.state {
                PState::Head => {
                    if self.hbuf.is_empty() {
                        self.start = self.offset;
                    }
                    self.hbuf.push(data[*pos]);
                    *pos += 1;
                    self.offset += 1;
                    if self.hbuf.ends_with(b"\r\n\r\n") {
                        self.head_end = self.offset;
                        let head = parse_head(&self.hbuf, 0);
                        let (cl, ch) = head.map(|h| (h.content_length.unwrap_or(0), h.chunked)).unwrap_or((0, false));
                        self.chunked = ch;
                        if ch {
                            self.state = PState::ChSize;
                        } else if cl > 0 {
                            self.state = PState::Cl(cl);
                        } else {
                            return Some(self.finish());
                        }
                    }
                }
                PState::Cl(rem) | PState::ChData(rem) => {
                    let n = rem.min(data.len() - *pos);
                    self.crc = crc32_update(self.crc, &data[*pos..*pos + n]);
                    self.body_len += n as u64;
                    *pos += n;
                    self.offset += n;
                    let left = rem - n;
                    let was_cl = matches!(self.state, PState::Cl(_));
                    if left == 0 {
                        if was_cl {
                            return Some(self.finish());
                        }
                        self.state = PState::ChDataEnd(2);
                    } else if was_cl {
                        self.state = PState::Cl(left);
                    } else {
                        self.state = PState::ChData(left);
                    }
                }
                PState::ChDataEnd(k) => {
                    *pos += 1;
                    self.offset += 1;
                    self.state = if k <= 1 { PState::ChSize } else { PState::ChDataEnd(k - 1) };
                }
                PState::ChSize => {
                    let b = data[*pos];
                    *pos += 1;
                    self.offset += 1;
                    if b == b'\n' {
                        let txt = String::from_utf8_lossy(&self.line).to_string();
                        let size = usize::from_str_radix(txt.split(';').next().unwrap_or("").trim(), 16).unwrap_or(0);
                        self.line.clear();
                        if size == 0 {
                            self.state = PState::ChTrailer;
                        } else {
                            self.chunks += 1;
                            self.state = PState::ChData(size);
                        }
                    } else {
                        self.line.push(b);
                    }
                }
                PState::ChTrailer => {
                    let b = data[*pos];
                    *pos += 1;
                    self.offset += 1;
                    if b == b'\n' {
                        let empty = self.line.iter().all(|c| *c == b'\r');
                        self.line.clear();
                        if empty {
                            return Some(self.finish());
                        }
                    } else {
                        self.line.push(b);
                    }
                }
            }
        }
        None
    }
}

async fn mock_conn_streaming(stream: &mut TcpStream, rec: &Arc<ScenarioRec>, ix: usize, host: &str, cap: usize) {
    let mut parser = SParser::new();
    let mut tmp = vec![0u8; 1 << 18];
    'outer: loop {
        let n = match stream.read(&mut tmp).await {
            Ok(0) | Err(_) => break,
            Ok(n) => n,
        };
        if rec.read_pause_ms > 0 {
            tokio::time::sleep(Duration::from_millis(rec.read_pause_ms)).await;
        }
        {
            let mut conns = rec.conns.lock().unwrap();
            let c = &mut conns[ix];
            if c.bytes.len() < cap {
                let k = (cap - c.bytes.len()).min(n);
                c.bytes.extend_from_slice(&tmp[..k]);
            }
            c.total += n;
        }
        let mut pos = 0usize;
        while let Some(done) = parser.feed(&tmp[..n], &mut pos) {
            {
                let mut conns = rec.conns.lock().unwrap();
                conns[ix].requests.push((done.start, done.head_end, done.end));
                conns[ix].infos.push(json!({"start": done.start, "head_end": done.head_end, "end": done.end,
                    "head_b64": b64e(&done.head), "body_len": done.body_len, "body_crc32": done.crc,
                    "chunked": done.chunked, "chunks": done.chunks}));
            }
            let spec = choose_reply(rec, host, &done.head);
            if let Some(ms) = spec.get("delay_ms").and_then(|x| x.as_u64()) {
                tokio::time::sleep(Duration::from_millis(ms)).await;
            }
            if spec.get("close_without_reply").and_then(|x| x.as_bool()).unwrap_or(false) {
                break 'outer;
            }
            let reply = build_reply(&spec, done.head.starts_with(b"HEAD "));
            if !write_segmented(stream, &reply, &spec).await {
                break 'outer;
            }
            let _ = stream.flush().await;
            rec.conns.lock().unwrap()[ix].replies += 1;
            if spec.get("close").and_then(|x| x.as_bool()).unwrap_or(false) {
                break 'outer;
            }
        }
    }
}

async fn mock_listener(listener: TcpListener, host: String) {
    loop {
        if let Ok((stream, peer)) = listener.accept().await {
            let _ = stream.set_nodelay(true);
            tokio::spawn(mock_conn(stream, host.clone(), peer.port()));
        }
    }
}

// ------------------------------------------------------------------------------------------
// scenario state
// ------------------------------------------------------------------------------------------
struct Env {
    mocks: Vec<String>, // the addresses actually bound
    helper_pid: u32,
}

// ------------------------------------------------------------------------------------------
// exec helpers: scenario field `exec_helpers: {name: [argv...]}` spawns `sh -c 'read x; exec "$@"' sh argv...`
// (a process whose image is the shell until told otherwise); audit `pid: name` uses its pid; op
// {"op": "helper_exec", "name"} makes it exec argv (same pid, new image) and waits until /proc/<pid>/exe
// has changed.  Result `helpers: {name: {pid, exe_before, exe_after}}`.
// ------------------------------------------------------------------------------------------
struct ExecHelper {
    child: std::process::Child,
    exe_before: String,
    exe_after: Option<String>,
}
static HELPERS: Mutex<Vec<(String, ExecHelper)>> = Mutex::new(Vec::new());

fn proc_exe(pid: u32) -> String {
    std::fs::read_link(format!("/proc/{}/exe", pid)).map(|p| p.to_string_lossy().to_string()).unwrap_or_default()
}

/// the image switch of execve is not atomic for an observer of /proc: `exe` changes before the argument area is set
/// up, so wait until the command line is readable too before anybody is allowed to look at the process
fn proc_cmdline_ready(pid: u32) -> bool {
    std::fs::read(format!("/proc/{}/cmdline", pid)).map(|b| !b.is_empty()).unwrap_or(false)
}

fn kill_helpers() {
    for (_, mut h) in HELPERS.lock().unwrap().drain(..) {
        let _ = h.child.kill();
        let _ = h.child.wait();
    }
}

async fn spawn_exec_helper(name: &str, argv: &Value) -> Result<(), String> {
    let args: Vec<String> = argv.as_array().map(|a| a.iter().filter_map(|x| x.as_str().map(|s| s.to_string())).collect()).unwrap_or_default();
    if args.is_empty() {
        return Err(format!("exec_helpers.{}: argv missing", name));
    }
    let child = std::process::Command::new("sh")
        .arg("-c").arg("read x; exec \"$@\"").arg("sh").args(&args)
        .stdin(std::process::Stdio::piped()).stdout(std::process::Stdio::null()).stderr(std::process::Stdio::null())
        .spawn().map_err(|e| format!("exec_helpers.{}: {}", name, e))?;
    let pid = child.id();
    let mut exe = String::new();
    for _ in 0..2000 {
        exe = proc_exe(pid);
        // right after fork the image is still the driver's; wait for the shell
        if !exe.is_empty() && exe != proc_exe(std::process::id()) && proc_cmdline_ready(pid) {
            break;
        }
        tokio::time::sleep(Duration::from_millis(1)).await;
    }
    HELPERS.lock().unwrap().push((name.to_string(), ExecHelper { child, exe_before: exe, exe_after: None }));
    Ok(())
}

async fn helper_exec(name: &str) -> Result<(), String> {
    let (pid, before) = {
        let mut hs = HELPERS.lock().unwrap();
        let h = hs.iter_mut().find(|(n, _)| n == name).ok_or(format!("helper_exec: no exec helper {:?}", name))?;
        let mut stdin = h.1.child.stdin.take().ok_or("helper_exec: already told to exec")?;
        stdin.write_all(b"go\n").map_err(|e| e.to_string())?;
        drop(stdin);
        (h.1.child.id(), h.1.exe_before.clone())
    };
    for _ in 0..5000 {
        let now = proc_exe(pid);
        if !now.is_empty() && now != before && proc_cmdline_ready(pid) {
            let mut hs = HELPERS.lock().unwrap();
            if let Some(h) = hs.iter_mut().find(|(n, _)| n == name) {
                h.1.exe_after = Some(now);
            }
            return Ok(());
        }
        tokio::time::sleep(Duration::from_millis(1)).await;
    }
    Err(format!("helper_exec: the image of {} did not change", name))
}

fn audit_record(a: &Value, env: &Env) -> Result<hooks::Record, String> {
    let uid = a.get("uid").and_then(|x| x.as_u64()).unwrap_or(0);
    let pid = match a.get("pid") {
        Some(Value::String(s)) if s == "self" => std::process::id(),
        Some(Value::String(s)) if s == "helper" => env.helper_pid,
        Some(Value::String(s)) => match HELPERS.lock().unwrap().iter().find(|(n, _)| n == s) {
            Some((_, h)) => h.child.id(),
            None => return Err(format!("audit.pid: no exec helper named {:?}", s)),
        },
        Some(Value::Number(n)) => n.as_u64().unwrap_or(0) as u32,
        None | Some(Value::Null) => std::process::id(),
        Some(other) => return Err(format!("audit.pid: unsupported value {}", other)),
    };
    let is_admin = a.get("is_admin").and_then(|x| x.as_i64()).unwrap_or(0) as i32;
    let ip: Ipv4Addr = a
        .get("dest_ip")
        .and_then(|x| x.as_str())
        .ok_or("audit.dest_ip missing")?
        .parse()
        .map_err(|e| format!("audit.dest_ip: {}", e))?;
    let port = a.get("dest_port").and_then(|x| x.as_u64()).ok_or("audit.dest_port missing")? as u16;
    Ok((uid, pid, is_admin, u32::from(ip).to_be(), port.to_be()))
}

fn record_json(r: &hooks::Record) -> Value {
    json!({"uid": r.0, "pid": r.1, "is_admin": r.2,
           "dest_ip": Ipv4Addr::from_bits(r.3.to_be()).to_string(), "dest_port": u16::from_be(r.4)})
}

fn record_dest(r: &hooks::Record) -> String {
    format!("{}:{}", Ipv4Addr::from_bits(r.3.to_be()), u16::from_be(r.4))
}

fn trace_json(t: Vec<hooks::Event>) -> Value {
    Value::Array(
        t.into_iter()
            .map(|e| match e {
                hooks::Event::Lookup { port, found } => json!({"ev": "lookup", "port": port, "found": found}),
                hooks::Event::Remove { port, found, failed } => {
                    json!({"ev": "remove", "port": port, "found": found, "failed": failed})
                }
                hooks::Event::Policy { endpoint, redirect } => {
                    json!({"ev": "policy", "endpoint": endpoint, "redirect": redirect})
                }
            })
            .collect(),
    )
}

async fn summaries(shared: &SharedState) -> Value {
    let st = shared.get_agent_status_shared_state();
    let conv = |v: Vec<proxy_agent_shared::proxy_agent_aggregate_status::ProxyConnectionSummary>| {
        let mut items: Vec<Value> = v
            .into_iter()
            .map(|s| {
                json!({"userName": s.userName, "ip": s.ip, "port": s.port, "processCmdLine": s.processCmdLine,
                       "responseStatus": s.responseStatus, "count": s.count, "userGroups": s.userGroups,
                       "processFullPath": s.processFullPath})
            })
            .collect();
        items.sort_by_key(|x| x.to_string());
        Value::Array(items)
    };
    let failed = match st.get_all_failed_connection_summary().await {
        Ok(v) => conv(v),
        Err(e) => json!({"error": e.to_string()}),
    };
    let ok = match st.get_all_connection_summary().await {
        Ok(v) => conv(v),
        Err(e) => json!({"error": e.to_string()}),
    };
    let http_count = st.get_connection_count().await.map(|n| n as u64).unwrap_or(u64::MAX);
    json!({"failed": failed, "ok": ok, "http_connection_count": http_count})
}

/// The fragment of status.json a real `ProxyAgentStatusTask` (scenario field `status_task_ms`) publishes.
/// Waits until the file has been completely rewritten TWICE after this call (its "timestamp" changed
/// twice; the write is temp-file + rename), so that what is returned was computed after the call.
/// Null when no task is running.
async fn status_json() -> Value {
    let dir = match STATUS_DIR.lock().unwrap().clone() {
        Some(d) => d,
        None => return Value::Null,
    };
    let path = dir.join("status.json");
    let read = |p: &std::path::Path| -> Option<Value> {
        std::fs::read(p).ok().and_then(|b| serde_json::from_slice::<Value>(&b).ok())
    };
    let stamp = |v: &Option<Value>| -> Option<String> {
        v.as_ref().and_then(|x| x.get("timestamp")).and_then(|t| t.as_str()).map(|t| t.to_string())
    };
    let mut last = stamp(&read(&path));
    let mut changes = 0;
    let t0 = std::time::Instant::now();
    while t0.elapsed() < Duration::from_secs(20) {
        tokio::time::sleep(Duration::from_millis(1)).await;
        let cur = read(&path);
        let ts = stamp(&cur);
        if ts.is_some() && ts != last {
            changes += 1;
            last = ts;
            if changes >= 2 {
                let v = cur.unwrap();
                let conv = |key: &str| -> Value {
                    let mut items: Vec<Value> = v.get(key).and_then(|x| x.as_array()).cloned().unwrap_or_default();
                    items.sort_by_key(|x| x.to_string());
                    Value::Array(items)
                };
                return json!({"failed": conv("failedAuthenticateSummary"), "ok": conv("proxyConnectionSummary"),
                              "timestamp": v.get("timestamp").cloned().unwrap_or(Value::Null),
                              "has_failed_field": v.get("failedAuthenticateSummary").is_some(),
                              "has_ok_field": v.get("proxyConnectionSummary").is_some()});
            }
        }
    }
    json!({"error": format!("status.json in {} was not rewritten twice within 20 s", dir.display())})
}

fn snapshot_json() -> Value {
    Value::Array(hooks::snapshot().iter().map(|(p, r)| json!([p, record_json(r)])).collect())
}

async fn set_rules(shared: &SharedState, endpoint: &str, item: &Value) -> Result<(), String> {
    let parsed: Option<AuthorizationItem> = if item.is_null() {
        None
    } else {
        Some(serde_json::from_value(item.clone()).map_err(|e| format!("rules for {}: {}", endpoint, e))?)
    };
    let kk = shared.get_key_keeper_shared_state();
    let r = match endpoint {
        "wireserver" => kk.set_wireserver_rules(parsed).await,
        "imds" => kk.set_imds_rules(parsed).await,
        "hostga" => kk.set_hostga_rules(parsed).await,
        other => return Err(format!("unknown endpoint {}", other)),
    };
    r.map_err(|e| e.to_string())
}

async fn set_key(shared: &SharedState, k: &Value) -> Result<(), String> {
    let kk = shared.get_key_keeper_shared_state();
    if k.is_null() {
        return kk.clear_key().await.map_err(|e| e.to_string());
    }
    let mut doc = json!({
        "authorizationScheme": "Azure-HMAC-SHA256",
        "guid": k.get("guid").and_then(|x| x.as_str()).unwrap_or("00000000-0000-0000-0000-000000000001"),
        "issued": k.get("issued").and_then(|x| x.as_str()).unwrap_or("2024-01-01T00:00:00Z"),
        "key": k.get("key").and_then(|x| x.as_str()).unwrap_or(""),
    });
    if let Some(n) = k.get("incarnation").and_then(|x| x.as_u64()) {
        doc["incarnationId"] = json!(n);
    }
    let key: Key = serde_json::from_value(doc).map_err(|e| format!("key: {}", e))?;
    kk.update_key(key).await.map_err(|e| e.to_string())
}

// ------------------------------------------------------------------------------------------
// killable actors (C01: the two 500 paths of the handler need a dead actor).  Scenario field
// `killable: ["key_keeper" | "agent_status"]` puts that actor's task on a runtime of its own and
// swaps its handle into the SharedState; op {"op": "kill_actor", "actor": ...} shuts that runtime
// down, after which every call on the handle returns Err (send/receive error), exactly as when the
// actor task has died in production.  The SharedState fields are private and there is no
// constructor from parts, so the handle (one pointer: a newtype over mpsc::Sender) is located in
// the struct by its value and overwritten; the layout facts relied upon are checked at run time
// and the scenario fails with "killable: ..." instead of guessing when they do not hold.
// ------------------------------------------------------------------------------------------
static KILLABLE: Mutex<Vec<(String, tokio::runtime::Runtime)>> = Mutex::new(Vec::new());

fn swap_handle<S, T>(holder: &mut S, probe: T, new: T) -> Result<(), String> {
    use std::mem::{size_of, transmute_copy};
    if size_of::<T>() != size_of::<usize>() || size_of::<S>() % size_of::<usize>() != 0
        || std::mem::align_of::<S>() < std::mem::align_of::<usize>() {
        return Err("killable: actor handle is not a single pointer in this build".to_string());
    }
    unsafe {
        let old: usize = transmute_copy(&probe);
        let base = holder as *mut S as *mut usize;
        let n = size_of::<S>() / size_of::<usize>();
        let hits: Vec<usize> = (0..n).filter(|i| *base.add(*i) == old).collect();
        if hits.len() != 1 {
            return Err(format!("killable: handle found {} times in SharedState", hits.len()));
        }
        let newp: usize = transmute_copy(&new);
        std::mem::forget(new);
        *base.add(hits[0]) = newp;
        let displaced: T = transmute_copy(&old); // the clone that lived in the struct: now ours to drop
        drop(displaced);
    }
    drop(probe);
    Ok(())
}

fn make_killable(shared: &mut SharedState, actor: &str) -> Result<(), String> {
    use gpa::shared_state::agent_status_wrapper::AgentStatusSharedState;
    use gpa::shared_state::key_keeper_wrapper::KeyKeeperSharedState;
    let rt = tokio::runtime::Builder::new_multi_thread().worker_threads(1).enable_all().build().map_err(|e| format!("killable: {}", e))?;
    let r = match actor {
        "key_keeper" => {
            let h = { let _g = rt.enter(); KeyKeeperSharedState::start_new() };
            let want: usize = unsafe { std::mem::transmute_copy(&h) };
            let probe = shared.get_key_keeper_shared_state();
            swap_handle(shared, probe, h).and_then(|_| {
                let got: usize = unsafe { std::mem::transmute_copy(&shared.get_key_keeper_shared_state()) };
                // (the temporary clone above is dropped normally; only its pointer value is read)
                if got == want { Ok(()) } else { Err("killable: swap not effective".to_string()) }
            })
        }
        "agent_status" => {
            let h = { let _g = rt.enter(); AgentStatusSharedState::start_new() };
            let want: usize = unsafe { std::mem::transmute_copy(&h) };
            let probe = shared.get_agent_status_shared_state();
            swap_handle(shared, probe, h).and_then(|_| {
                let got: usize = unsafe { std::mem::transmute_copy(&shared.get_agent_status_shared_state()) };
                if got == want { Ok(()) } else { Err("killable: swap not effective".to_string()) }
            })
        }
        other => Err(format!("killable: unknown actor {:?}", other)),
    };
    match r {
        Ok(()) => {
            KILLABLE.lock().unwrap().push((actor.to_string(), rt));
            Ok(())
        }
        Err(e) => {
            rt.shutdown_background();
            Err(e)
        }
    }
}

async fn kill_actor(shared: &SharedState, actor: &str) -> Result<(), String> {
    let rt = {
        let mut k = KILLABLE.lock().unwrap();
        match k.iter().position(|(a, _)| a == actor) {
            Some(i) => k.remove(i).1,
            None => return Err(format!("kill_actor: {:?} is not listed in the scenario's `killable`", actor)),
        }
    };
    let _ = tokio::task::spawn_blocking(move || rt.shutdown_timeout(Duration::from_secs(5))).await;
    for _ in 0..2000 {
        let dead = match actor {
            "key_keeper" => shared.get_key_keeper_shared_state().get_wireserver_rules().await.is_err(),
            _ => shared.get_agent_status_shared_state().get_connection_count().await.is_err(),
        };
        if dead {
            return Ok(());
        }
        tokio::time::sleep(Duration::from_millis(1)).await;
    }
    Err(format!("kill_actor: {} still answers", actor))
}

async fn run_ops(ops: Option<&Value>, shared: &SharedState, env: &Env, snaps: &Mutex<Vec<Value>>) -> Result<(), String> {
    let list = match ops.and_then(|x| x.as_array()) {
        Some(l) => l,
        None => return Ok(()),
    };
    for op in list {
        let name = op.get("op").and_then(|x| x.as_str()).unwrap_or("");
        match name {
            "update_key" => set_key(shared, op).await?,
            "clear_key" => set_key(shared, &Value::Null).await?,
            "set_rules" => {
                set_rules(shared, op.get("endpoint").and_then(|x| x.as_str()).unwrap_or(""),
                          op.get("item").unwrap_or(&Value::Null)).await?
            }
            "fail_remove" => hooks::FAIL_REMOVE.store(op.get("value").and_then(|x| x.as_bool()).unwrap_or(true), Ordering::SeqCst),
            "insert_audit" => {
                let port = op.get("port").and_then(|x| x.as_u64()).ok_or("insert_audit.port")? as u16;
                hooks::insert(port, audit_record(op.get("audit").unwrap_or(&Value::Null), env)?);
            }
            "remove_audit" => {
                let port = op.get("port").and_then(|x| x.as_u64()).ok_or("remove_audit.port")? as u16;
                hooks::AUDIT.lock().unwrap().remove(&port);
            }
            "helper_exec" => helper_exec(op.get("name").and_then(|x| x.as_str()).unwrap_or("")).await?,
            "kill_actor" => kill_actor(shared, op.get("actor").and_then(|x| x.as_str()).unwrap_or("")).await?,
            "clear_summary" => shared.get_agent_status_shared_state().clear_all_summary().await.map_err(|e| e.to_string())?,
            "summary_burst" => {
                // conservation leg for the failed-authorization summary: `threads` OS threads add, at the same instant
                // (std barrier), one failed summary each for a key nobody has seen yet; repeated for `keys` fresh keys.
                // Recorded as a snapshot {label, burst: {adds, keys, threads}, summary}.  Whatever the scheduling, every
                // add that returned Ok must be counted.
                let threads = op.get("threads").and_then(|x| x.as_u64()).unwrap_or(8).max(1) as usize;
                let keys = op.get("keys").and_then(|x| x.as_u64()).unwrap_or(200) as usize;
                let label = op.get("label").and_then(|x| x.as_str()).unwrap_or("burst").to_string();
                let st = shared.get_agent_status_shared_state();
                let handle = tokio::runtime::Handle::current();
                let lbl = label.clone();
                let ok_adds = tokio::task::spawn_blocking(move || {
                    // a spinning rendezvous (a futex barrier wakes its waiters one after the other)
                    let arrived = std::sync::atomic::AtomicUsize::new(0);
                    let oks = std::sync::atomic::AtomicUsize::new(0);
                    std::thread::scope(|sc| {
                        for _ in 0..threads {
                            sc.spawn(|| {
                                for k in 0..keys {
                                    let summary = gpa::proxy::proxy_summary::ProxySummary {
                                        id: k as u128,
                                        method: "GET".to_string(),
                                        url: "/burst".to_string(),
                                        clientIp: "127.0.0.1".to_string(),
                                        clientPort: 1,
                                        ip: "169.254.169.254".to_string(),
                                        port: 80,
                                        userId: 0,
                                        userName: format!("burst-{}-{}", lbl, k),
                                        userGroups: vec!["g".to_string()],
                                        processFullPath: std::path::PathBuf::from("/burst/exe"),
                                        processCmdLine: "exe --burst".to_string(),
                                        runAsElevated: false,
                                        responseStatus: "403 Forbidden".to_string(),
                                        elapsedTime: 0,
                                        errorDetails: String::new(),
                                    };
                                    arrived.fetch_add(1, Ordering::SeqCst);
                                    let mut spins = 0u64;
                                    while arrived.load(Ordering::SeqCst) < (k + 1) * threads {
                                        spins += 1;
                                        if spins % 20000 == 0 {
                                            std::thread::yield_now();
                                        }
                                        std::hint::spin_loop();
                                    }
                                    if handle.block_on(st.add_one_failed_connection_summary(summary)).is_ok() {
                                        oks.fetch_add(1, Ordering::SeqCst);
                                    }
                                }
                            });
                        }
                    });
                    oks.load(Ordering::SeqCst)
                })
                .await
                .map_err(|e| format!("summary_burst: {}", e))?;
                let s = json!({"label": label, "burst": {"adds": ok_adds, "keys": keys, "threads": threads},
                               "audit_map": snapshot_json(), "summary": summaries(shared).await, "status_json": status_json().await});
                snaps.lock().unwrap().push(s);
            }
            "barrier" => {
                // rendezvous of concurrent client connections: continue when `n` participants have arrived at `name`
                let name = op.get("name").and_then(|x| x.as_str()).unwrap_or("barrier").to_string();
                let n = op.get("n").and_then(|x| x.as_u64()).unwrap_or(1) as usize;
                let limit = Duration::from_millis(op.get("timeout_ms").and_then(|x| x.as_u64()).unwrap_or(60000));
                {
                    let mut b = BARRIERS.lock().unwrap();
                    *b.get_or_insert_with(HashMap::new).entry(name.clone()).or_insert(0) += 1;
                }
                let t0 = std::time::Instant::now();
                loop {
                    let arrived = BARRIERS.lock().unwrap().as_ref().and_then(|m| m.get(&name).copied()).unwrap_or(0);
                    if arrived >= n || t0.elapsed() > limit {
                        break;
                    }
                    tokio::time::sleep(Duration::from_millis(1)).await;
                }
            }
            "wait_trace" => {
                // wait until the accept processing of the n-th connection from `port` is over: `lookups` lookup
                // events for the port are in the H1 trace and every lookup that found an entry has its remove event
                let port = op.get("port").and_then(|x| x.as_u64()).ok_or("wait_trace.port")? as u16;
                let want = op.get("lookups").and_then(|x| x.as_u64()).unwrap_or(1) as usize;
                let limit = Duration::from_millis(op.get("timeout_ms").and_then(|x| x.as_u64()).unwrap_or(3000));
                let t0 = std::time::Instant::now();
                loop {
                    let (lookups, found, removes) = {
                        let tr = hooks::TRACE.lock().unwrap();
                        let mut l = 0usize;
                        let mut f = 0usize;
                        let mut r = 0usize;
                        for e in tr.iter() {
                            match e {
                                hooks::Event::Lookup { port: p, found } if *p == port => {
                                    l += 1;
                                    if *found {
                                        f += 1;
                                    }
                                }
                                hooks::Event::Remove { port: p, .. } if *p == port => r += 1,
                                _ => {}
                            }
                        }
                        (l, f, r)
                    };
                    if (lookups >= want && removes >= found) || t0.elapsed() > limit {
                        break;
                    }
                    tokio::time::sleep(Duration::from_millis(1)).await;
                }
            }
            "sleep_ms" => tokio::time::sleep(Duration::from_millis(op.get("ms").and_then(|x| x.as_u64()).unwrap_or(1))).await,
            "snapshot" => {
                let s = json!({"label": op.get("label").cloned().unwrap_or(Value::Null),
                               "audit_map": snapshot_json(), "summary": summaries(shared).await,
                               "status_json": status_json().await});
                snaps.lock().unwrap().push(s);
            }
            other => return Err(format!("unknown op {:?}", other)),
        }
    }
    Ok(())
}

// ------------------------------------------------------------------------------------------
// client side
// ------------------------------------------------------------------------------------------
/// read one complete HTTP response (skipping 1xx interim ones) from `stream`; `buf` carries
/// bytes already read beyond the previous message
async fn read_response<R: tokio::io::AsyncRead + Unpin>(stream: &mut R, buf: &mut Vec<u8>, head_request: bool, timeout: Duration) -> Value {
    let mut tmp = vec![0u8; 65536];
    let mut start = 0usize; // start of the current (possibly interim) message inside buf
    let mut eof = false;
    let mut timed_out = false;
    loop {
        // try to complete a message from what we have
        let mut need_more = true;
        if let Some(head) = parse_head(buf, start) {
            let status: u16 = head.first_line.split(' ').nth(1).and_then(|s| s.parse().ok()).unwrap_or(0);
            let no_body = head_request || (100..200).contains(&status) || status == 204 || status == 304;
            let end = if no_body {
                Some(head.end)
            } else if head.chunked {
                chunked_end(buf, head.end)
            } else if let Some(cl) = head.content_length {
                if buf.len() >= head.end + cl { Some(head.end + cl) } else { None }
            } else if eof {
                Some(buf.len()) // body delimited by close
            } else {
                None
            };
            if let Some(end) = end {
                if (100..200).contains(&status) && status != 101 {
                    start = end; // interim response: keep its bytes, continue with the next message
                    need_more = buf.len() <= start;
                    if !need_more {
                        continue;
                    }
                } else {
                    let raw: Vec<u8> = buf.drain(..end).collect();
                    return json!({"complete": true, "status": status, "raw_b64": b64e(&raw)});
                }
            }
        }
        if eof || timed_out || !need_more {
            let raw: Vec<u8> = buf.drain(..).collect();
            return json!({"complete": false, "status": Value::Null, "raw_b64": b64e(&raw), "eof": eof, "timeout": timed_out});
        }
        match tokio::time::timeout(timeout, stream.read(&mut tmp)).await {
            Err(_) => timed_out = true,
            Ok(Ok(0)) | Ok(Err(_)) => eof = true,
            Ok(Ok(n)) => buf.extend_from_slice(&tmp[..n]),
        }
    }
}

/// EXTENSIONS: one request written piecewise WHILE the response is being read (so that an early
/// answer -- 413 before the body is consumed -- is seen even when the proxy then resets the
/// connection).  `raw` is written first (in spec["write_sizes"] pieces when given), then the body
/// described by spec["gen_body"] = {len, seed, chunk_sizes: [..]|null}: `len` pattern bytes
/// (pattern_fill), either plain or chunk-encoded with the given sizes (last size repeats).
/// Writing stops as soon as a complete response has been read.
async fn exchange_streaming(stream: &mut TcpStream, buf: &mut Vec<u8>, raw: &[u8], spec: &Value, head_request: bool,
                            timeout: Duration) -> Value {
    let (mut rd, mut wr) = stream.split();
    let written = std::sync::atomic::AtomicU64::new(0);
    let client_aborts = std::sync::atomic::AtomicBool::new(false);
    let writer = async {
        if !write_segmented(&mut wr, raw, spec).await {
            return Some("write error while sending the head".to_string());
        }
        let g = match spec.get("gen_body") {
            Some(g) if g.is_object() => g,
            _ => {
                let _ = wr.flush().await;
                return None;
            }
        };
        let len = g.get("len").and_then(|x| x.as_u64()).unwrap_or(0);
        let seed = g.get("seed").and_then(|x| x.as_u64()).unwrap_or(0);
        // EXTENSIONS (C15 round 3): gen_body.abort_after = n -- the client gives up after n body bytes (connection dropped by the caller)
        let abort_after = g.get("abort_after").and_then(|x| x.as_u64());
        let len = match abort_after {
            Some(n) if n < len => {
                client_aborts.store(true, Ordering::SeqCst);
                n
            }
            _ => len,
        };
        let chunk_sizes: Option<Vec<u64>> = g.get("chunk_sizes").and_then(|x| x.as_array())
            .map(|a| a.iter().map(|n| n.as_u64().unwrap_or(1).max(1)).collect());
        let block: usize = 1 << 16;
        let mut tmp: Vec<u8> = Vec::new();
        let mut sent: u64 = 0;
        match chunk_sizes {
            None => {
                while sent < len {
                    let n = (len - sent).min(block as u64) as usize;
                    pattern_fill(&mut tmp, sent, n, seed);
                    if let Err(e) = wr.write_all(&tmp).await {
                        return Some(format!("write error after {} body bytes: {}", sent, e));
                    }
                    sent += n as u64;
                    written.store(sent, Ordering::SeqCst);
                }
            }
            Some(sizes) => {
                let mut i = 0usize;
                while sent < len {
                    let cs = if sizes.is_empty() { len } else { sizes[i.min(sizes.len() - 1)] }.min(len - sent);
                    i += 1;
                    if let Err(e) = wr.write_all(format!("{:x}\r\n", cs).as_bytes()).await {
                        return Some(format!("write error after {} body bytes: {}", sent, e));
                    }
                    let mut left = cs;
                    while left > 0 {
                        let n = left.min(block as u64) as usize;
                        pattern_fill(&mut tmp, sent, n, seed);
                        if let Err(e) = wr.write_all(&tmp).await {
                            return Some(format!("write error after {} body bytes: {}", sent, e));
                        }
                        sent += n as u64;
                        left -= n as u64;
                        written.store(sent, Ordering::SeqCst);
                    }
                    if let Err(e) = wr.write_all(b"\r\n").await {
                        return Some(format!("write error after {} body bytes: {}", sent, e));
                    }
                    let _ = wr.flush().await;
                }
                if client_aborts.load(Ordering::SeqCst) {
                    let _ = wr.flush().await;
                    return None;
                }
                if let Err(e) = wr.write_all(b"0\r\n\r\n").await {
                    return Some(format!("write error after {} body bytes: {}", sent, e));
                }
            }
        }
        let _ = wr.flush().await;
        None
    };
    let reader = read_response(&mut rd, buf, head_request, timeout);
    tokio::pin!(writer);
    tokio::pin!(reader);
    let mut wres: Option<Option<String>> = None;
    let mut resp = loop {
        tokio::select! {
            biased;
            r = &mut reader => break r,
            w = &mut writer, if wres.is_none() => {
                wres = Some(w);
                if client_aborts.load(Ordering::SeqCst) {
                    // the client walks away in the middle of its upload: no answer is awaited
                    break json!({"complete": false, "status": Value::Null, "raw_b64": "", "aborted": true});
                }
            }
        }
    };
    resp["write_completed"] = json!(matches!(wres, Some(None)));
    if let Some(Some(e)) = wres {
        resp["write_error"] = json!(e);
    }
    resp["sent_body"] = json!(written.load(Ordering::SeqCst));
    resp
}

async fn connect_from(local_ip: Ipv4Addr, local_port: u16, proxy_port: u16) -> Result<(TcpSocket, u16), String> {
    // bind first so that the source port is known before the connection exists
    let mut last = String::new();
    for _ in 0..50 {
        let sock = TcpSocket::new_v4().map_err(|e| e.to_string())?;
        let _ = sock.set_reuseaddr(true);
        match sock.bind(SocketAddr::from((local_ip, local_port))) {
            Ok(()) => {
                let p = sock.local_addr().map_err(|e| e.to_string())?.port();
                if p == proxy_port {
                    continue;
                }
                return Ok((sock, p));
            }
            Err(e) => {
                last = e.to_string();
                tokio::time::sleep(Duration::from_millis(20)).await;
            }
        }
    }
    Err(format!("cannot bind {}:{}: {}", local_ip, local_port, last))
}

async fn run_connection(
    c: Value,
    proxy_port: u16,
    shared: SharedState,
    env: Arc<Env>,
    snaps: Arc<Mutex<Vec<Value>>>,
    expected: Arc<Mutex<HashMap<String, usize>>>,
    default_timeout: u64,
) -> Value {
    let id = c.get("id").cloned().unwrap_or(Value::Null);
    let mut out = json!({"id": id, "local_port": Value::Null, "connect_error": Value::Null,
                         "responses": [], "trailing_b64": "", "eof": false, "error": Value::Null});
    let local_port = c.get("local_port").and_then(|x| x.as_u64()).unwrap_or(0) as u16;
    let timeout = Duration::from_millis(c.get("timeout_ms").and_then(|x| x.as_u64()).unwrap_or(default_timeout));
    // optional source address (any 127.x.y.z is local): the stand-in audit map, like the kernel's, is keyed by port only
    let local_ip: Ipv4Addr = match c.get("local_ip").and_then(|x| x.as_str()) {
        Some(t) => match t.parse() {
            Ok(ip) => ip,
            Err(e) => {
                out["connect_error"] = json!(format!("local_ip: {}", e));
                return out;
            }
        },
        None => Ipv4Addr::LOCALHOST,
    };
    let (sock, port) = match connect_from(local_ip, local_port, proxy_port).await {
        Ok(x) => x,
        Err(e) => {
            out["connect_error"] = json!(e);
            return out;
        }
    };
    out["local_port"] = json!(port);
    if let Some(a) = c.get("audit") {
        if !a.is_null() {
            match audit_record(a, &env) {
                Ok(r) => hooks::insert(port, r),
                Err(e) => {
                    out["error"] = json!(e);
                    return out;
                }
            }
        }
    }
    if let Err(e) = run_ops(c.get("ops_before_connect"), &shared, &env, &snaps).await {
        out["error"] = json!(e);
        return out;
    }
    // what the proxy will find for this source port decides whether it opens an upstream connection
    if let Some(r) = hooks::AUDIT.lock().unwrap().get(&port) {
        let dest = record_dest(r);
        if env.mocks.contains(&dest) {
            *expected.lock().unwrap().entry(dest).or_insert(0) += 1;
        }
    }
    let mut stream = match tokio::time::timeout(
        Duration::from_secs(10),
        sock.connect(SocketAddr::from((Ipv4Addr::LOCALHOST, proxy_port))),
    )
    .await
    {
        Ok(Ok(s)) => s,
        Ok(Err(e)) => {
            out["connect_error"] = json!(e.to_string());
            return out;
        }
        Err(_) => {
            out["connect_error"] = json!("connect timeout");
            return out;
        }
    };
    let _ = stream.set_nodelay(true);
    if c.get("reset_after_connect").and_then(|x| x.as_bool()).unwrap_or(false) {
        // abortive close right after the handshake: SO_LINGER {on, 0} + close sends RST instead of FIN
        let _ = stream.set_linger(Some(Duration::from_secs(0)));
        drop(stream);
        out["reset"] = json!(true);
        if let Err(e) = run_ops(c.get("ops_before_close"), &shared, &env, &snaps).await {
            out["error"] = json!(e);
        }
        return out;
    }
    let empty = Vec::new();
    let reqs = c.get("requests").and_then(|x| x.as_array()).unwrap_or(&empty);
    let pipelined = c.get("pipelined").and_then(|x| x.as_bool()).unwrap_or(false);
    let mut raws: Vec<Vec<u8>> = Vec::new();
    for r in reqs {
        match bytes_field(r, "raw") {
            Ok(Some(b)) => raws.push(b),
            Ok(None) => {
                out["error"] = json!("request without raw/raw_b64");
                return out;
            }
            Err(e) => {
                out["error"] = json!(e);
                return out;
            }
        }
    }
    let mut buf: Vec<u8> = Vec::new();
    let mut abandoned = false;
    let mut responses: Vec<Value> = Vec::new();
    if pipelined {
        let mut all = Vec::new();
        for b in &raws {
            all.extend_from_slice(b);
        }
        let _ = stream.write_all(&all).await;
        let _ = stream.flush().await;
        for b in &raws {
            let resp = read_response(&mut stream, &mut buf, b.starts_with(b"HEAD "), timeout).await;
            let done = resp["complete"] != json!(true);
            responses.push(resp);
            if done {
                break;
            }
        }
    } else {
        for (i, b) in raws.iter().enumerate() {
            if let Err(e) = run_ops(reqs[i].get("ops_before"), &shared, &env, &snaps).await {
                out["error"] = json!(e);
                break;
            }
            let t = reqs[i].get("timeout_ms").and_then(|x| x.as_u64()).map(Duration::from_millis).unwrap_or(timeout);
            // optional split write: send the first `split_at` bytes, pause, then the rest
            if reqs[i].get("gen_body").map(|g| g.is_object()).unwrap_or(false) || reqs[i].get("write_sizes").is_some() {
                let resp = exchange_streaming(&mut stream, &mut buf, b, &reqs[i], b.starts_with(b"HEAD "), t).await;
                let done = resp["complete"] != json!(true);
                if resp["aborted"] == json!(true) {
                    abandoned = true;
                }
                responses.push(resp);
                if let Err(e) = run_ops(reqs[i].get("ops_after"), &shared, &env, &snaps).await {
                    out["error"] = json!(e);
                    break;
                }
                if done {
                    break;
                }
                continue;
            }
            let split = reqs[i].get("split_at").and_then(|x| x.as_u64()).map(|n| (n as usize).min(b.len()));
            let werr = match split {
                Some(n) => {
                    let r1 = stream.write_all(&b[..n]).await;
                    let _ = stream.flush().await;
                    tokio::time::sleep(Duration::from_millis(reqs[i].get("split_pause_ms").and_then(|x| x.as_u64()).unwrap_or(20))).await;
                    r1.and(stream.write_all(&b[n..]).await)
                }
                None => stream.write_all(b).await,
            };
            let _ = stream.flush().await;
            // EXTENSIONS (C14 round 4): "read_delay_ms": n -- a slow reader: nothing is read from the socket for n ms after the request
            // has been written (the proxy may well have closed its side by then)
            if let Some(ms) = reqs[i].get("read_delay_ms").and_then(|x| x.as_u64()) {
                tokio::time::sleep(Duration::from_millis(ms)).await;
            }
            // EXTENSIONS (C14): "abort_after": n -- read n bytes of the response, then ABANDON the connection (dropped at once,
            // nothing drained: the proxy sees a client that went away in the middle of a download)
            if let Some(n) = reqs[i].get("abort_after").and_then(|x| x.as_u64()) {
                let mut tmp = vec![0u8; 16384];
                let mut eof = false;
                while (buf.len() as u64) < n {
                    match tokio::time::timeout(t, stream.read(&mut tmp)).await {
                        Ok(Ok(0)) | Ok(Err(_)) | Err(_) => {
                            eof = true;
                            break;
                        }
                        Ok(Ok(k)) => buf.extend_from_slice(&tmp[..k]),
                    }
                }
                let raw: Vec<u8> = buf.drain(..).collect();
                responses.push(json!({"complete": false, "status": Value::Null, "raw_b64": b64e(&raw[..raw.len().min(4096)]),
                                      "aborted": true, "read": raw.len(), "eof": eof}));
                abandoned = true;
                break;
            }
            let mut resp = read_response(&mut stream, &mut buf, b.starts_with(b"HEAD "), t).await;
            if let Err(e) = werr {
                resp["write_error"] = json!(e.to_string());
            }
            let done = resp["complete"] != json!(true);
            responses.push(resp);
            if let Err(e) = run_ops(reqs[i].get("ops_after"), &shared, &env, &snaps).await {
                out["error"] = json!(e);
                break;
            }
            if done {
                break;
            }
        }
    }
    out["responses"] = Value::Array(responses);
    if let Err(e) = run_ops(c.get("ops_before_close"), &shared, &env, &snaps).await {
        out["error"] = json!(e);
    }
    if abandoned {
        out["trailing_b64"] = json!("");
        out["eof"] = json!(false);
        drop(stream);
        return out;
    }
    // close: half-close our side, collect whatever the proxy still sends, until EOF
    let _ = stream.shutdown().await;
    let mut tmp = vec![0u8; 65536];
    let mut eof = false;
    loop {
        match tokio::time::timeout(Duration::from_millis(2000), stream.read(&mut tmp)).await {
            Ok(Ok(0)) | Ok(Err(_)) => {
                eof = true;
                break;
            }
            Ok(Ok(n)) => buf.extend_from_slice(&tmp[..n]),
            Err(_) => break,
        }
    }
    out["trailing_b64"] = json!(b64e(&buf));
    out["eof"] = json!(eof);
    drop(stream);
    out
}

async fn run_scenario(sc: Value, env: Arc<Env>) -> Value {
    let name = sc.get("name").cloned().unwrap_or(Value::Null);
    let proxy_port = match sc.get("proxy_port").and_then(|x| x.as_u64()) {
        Some(p) => p as u16,
        None => return json!({"name": name, "ok": false, "error": "proxy_port missing"}),
    };
    let default_timeout = sc.get("timeout_ms").and_then(|x| x.as_u64()).unwrap_or(10000);

    // ---- reset the process-global verification state
    hooks::enable();
    hooks::AUDIT.lock().unwrap().clear();
    let _ = hooks::take_trace();
    hooks::FAIL_REMOVE.store(sc.get("fail_remove").and_then(|x| x.as_bool()).unwrap_or(false), Ordering::SeqCst);
    PANICS.lock().unwrap().clear();
    *BARRIERS.lock().unwrap() = None;

    let mut replies: HashMap<String, Vec<(Value, bool)>> = HashMap::new();
    if let Some(m) = sc.get("replies").and_then(|x| x.as_object()) {
        for (host, list) in m {
            let v = list.as_array().cloned().unwrap_or_default();
            replies.insert(host.clone(), v.into_iter().map(|s| (s, false)).collect());
        }
    }
    let rec = Arc::new(ScenarioRec {
        conns: Mutex::new(Vec::new()),
        replies: Mutex::new(replies),
        default_reply: sc.get("default_reply").cloned().unwrap_or(json!({})),
        notify: Notify::new(),
        capture: sc.get("upstream_capture").and_then(|x| x.as_u64()).map(|n| n as usize),
        read_pause_ms: sc.get("upstream_read_pause_ms").and_then(|x| x.as_u64()).unwrap_or(0),
    });
    *CURRENT.lock().unwrap() = Some(rec.clone());

    let mut shared = SharedState::start_all();
    let snaps = Arc::new(Mutex::new(Vec::new()));
    let expected = Arc::new(Mutex::new(HashMap::new()));
    let mut error: Option<String> = None;
    for (_, rt) in KILLABLE.lock().unwrap().drain(..) {
        rt.shutdown_background();
    }
    if let Some(list) = sc.get("killable").and_then(|x| x.as_array()) {
        for a in list {
            if let Err(e) = make_killable(&mut shared, a.as_str().unwrap_or("")) {
                error = Some(e);
            }
        }
    }
    let shared = shared;
    kill_helpers();
    if let Some(m) = sc.get("exec_helpers").and_then(|x| x.as_object()) {
        for (name, argv) in m {
            if let Err(e) = spawn_exec_helper(name, argv).await {
                error = Some(e);
            }
        }
    }

    // ---- policy and key in force
    if let Some(rules) = sc.get("rules").and_then(|x| x.as_object()) {
        for (endpoint, item) in rules {
            if let Err(e) = set_rules(&shared, endpoint, item).await {
                error = Some(e);
            }
        }
    }
    if let Some(k) = sc.get("key") {
        if !k.is_null() {
            if let Err(e) = set_key(&shared, k).await {
                error = Some(e);
            }
        }
    }
    if let Some(list) = sc.get("pre_audit").and_then(|x| x.as_array()) {
        for item in list {
            let port = item.get("port").and_then(|x| x.as_u64()).unwrap_or(0) as u16;
            match audit_record(item.get("audit").unwrap_or(&Value::Null), &env) {
                Ok(r) => hooks::insert(port, r),
                Err(e) => error = Some(e),
            }
        }
    }

    // ---- optional: a real ProxyAgentStatusTask publishing status.json every `status_task_ms`
    *STATUS_DIR.lock().unwrap() = None;
    if let Some(ms) = sc.get("status_task_ms").and_then(|x| x.as_u64()) {
        let dir = std::path::PathBuf::from(std::env::var("E2E_SCRATCH").unwrap_or_default()).join(format!("status.{}", proxy_port));
        let _ = std::fs::remove_dir_all(&dir);
        let task = gpa::proxy_agent_status::ProxyAgentStatusTask::new(
            Duration::from_millis(ms.max(2)),
            dir.clone(),
            shared.get_cancellation_token(),
            shared.get_key_keeper_shared_state(),
            shared.get_agent_status_shared_state(),
        );
        tokio::spawn(async move { task.start().await });
        *STATUS_DIR.lock().unwrap() = Some(dir);
    }

    // ---- the real listener
    let server = ProxyServer::new(proxy_port, &shared);
    let server_task = tokio::spawn(async move { server.start().await });
    let status = shared.get_agent_status_shared_state();
    let mut listening = false;
    for _ in 0..20000 {
        let st = status.get_module_status(AgentStatusModule::ProxyServer).await;
        if st.status == ModuleState::RUNNING {
            listening = true;
            break;
        }
        if server_task.is_finished() {
            break;
        }
        tokio::time::sleep(Duration::from_micros(500)).await;
    }
    if !listening {
        error = Some(format!(
            "proxy listener did not start on port {}: {}",
            proxy_port,
            status.get_module_status(AgentStatusModule::ProxyServer).await.message
        ));
    }

    // ---- client connections
    let mut conn_results: Vec<Value> = Vec::new();
    if error.is_none() {
        if let Err(e) = run_ops(sc.get("ops_before"), &shared, &env, &snaps).await {
            error = Some(e);
        }
    }
    if error.is_none() {
        let empty = Vec::new();
        let conns = sc.get("connections").and_then(|x| x.as_array()).unwrap_or(&empty);
        if sc.get("concurrent").and_then(|x| x.as_bool()).unwrap_or(false) {
            let mut handles = Vec::new();
            for c in conns {
                handles.push(tokio::spawn(run_connection(
                    c.clone(), proxy_port, shared.clone(), env.clone(), snaps.clone(), expected.clone(), default_timeout,
                )));
            }
            for h in handles {
                conn_results.push(h.await.unwrap_or_else(|e| json!({"error": format!("driver task failed: {}", e)})));
            }
        } else {
            for c in conns {
                conn_results.push(
                    run_connection(c.clone(), proxy_port, shared.clone(), env.clone(), snaps.clone(), expected.clone(), default_timeout).await,
                );
            }
        }
        if let Err(e) = run_ops(sc.get("ops_after"), &shared, &env, &snaps).await {
            error = Some(e);
        }
    }

    // ---- drain: every upstream connection the proxy opened has been accepted and has seen EOF
    let want: HashMap<String, usize> = expected.lock().unwrap().clone();
    let drained = tokio::time::timeout(Duration::from_millis(sc.get("drain_timeout_ms").and_then(|x| x.as_u64()).unwrap_or(5000)), async {
        loop {
            let notified = rec.notify.notified();
            tokio::pin!(notified);
            notified.as_mut().enable();
            let ok = {
                let conns = rec.conns.lock().unwrap();
                let mut have: HashMap<&str, usize> = HashMap::new();
                for c in conns.iter() {
                    *have.entry(c.host.as_str()).or_insert(0) += 1;
                }
                conns.iter().all(|c| c.closed) && want.iter().all(|(h, n)| have.get(h.as_str()).copied().unwrap_or(0) >= *n)
            };
            if ok {
                break;
            }
            let _ = tokio::time::timeout(Duration::from_millis(50), notified).await;
        }
    })
    .await
    .is_ok();

    // ---- collect
    let summary = summaries(&shared).await;
    let status_file = status_json().await;
    *STATUS_DIR.lock().unwrap() = None;
    shared.cancel_cancellation_token();
    let _ = tokio::time::timeout(Duration::from_secs(5), server_task).await;
    *CURRENT.lock().unwrap() = None;
    let mut upstream = serde_json::Map::new();
    for m in &env.mocks {
        upstream.insert(m.clone(), json!([]));
    }
    for c in rec.conns.lock().unwrap().iter() {
        let item = json!({"peer_port": c.peer_port, "nbytes": c.total, "bytes_b64": b64e(&c.bytes),
                          "requests": c.requests.iter().map(|(a, b, e)| json!([a, b, e])).collect::<Vec<_>>(),
                          "replies": c.replies, "closed": c.closed, "request_info": c.infos});
        upstream.get_mut(&c.host).and_then(|v| v.as_array_mut()).map(|a| a.push(item));
    }
    let stray = std::mem::take(&mut *STRAY.lock().unwrap());
    let result = json!({
        "name": name,
        "ok": error.is_none(),
        "error": error,
        "proxy_port": proxy_port,
        "connections": conn_results,
        "upstream": upstream,
        "expected_upstream": want,
        "audit_map": snapshot_json(),
        "trace": trace_json(hooks::take_trace()),
        "summary": summary,
        "status_json": status_file,
        "snapshots": snaps.lock().unwrap().clone(),
        "drained": drained,
        "stray_upstream": stray,
        "panics": PANICS.lock().unwrap().clone(),
        "helpers": HELPERS.lock().unwrap().iter().map(|(n, h)| (n.clone(), json!({"pid": h.child.id(), "exe_before": h.exe_before, "exe_after": h.exe_after}))).collect::<serde_json::Map<String, Value>>(),
        "self_pid": std::process::id(),
        "helper_pid": env.helper_pid,
    });
    hooks::FAIL_REMOVE.store(false, Ordering::SeqCst);
    kill_helpers();
    for (_, rt) in KILLABLE.lock().unwrap().drain(..) {
        rt.shutdown_background();
    }
    result
}

// ------------------------------------------------------------------------------------------
// process set-up
// ------------------------------------------------------------------------------------------
pub fn main() {
    let scratch = std::env::var("E2E_SCRATCH").expect("E2E_SCRATCH must name a scratch directory");
    let scratch = std::path::PathBuf::from(scratch);
    for d in ["logs", "events", "keys"] {
        std::fs::create_dir_all(scratch.join(d)).expect("create scratch dirs");
    }
    // results go to the original stdout; the agent's console log (println!) goes to a file
    let mut out = unsafe {
        let keep = libc::dup(1);
        let log = std::fs::OpenOptions::new().create(true).append(true).open(scratch.join("agent_stdout.log")).expect("agent_stdout.log");
        libc::dup2(std::os::unix::io::AsRawFd::as_raw_fd(&log), 1);
        std::fs::File::from_raw_fd(keep)
    };
    // configuration beside our own executable, before the library touches it (DESIGN 1.7)
    let exe_dir = std::env::current_exe().unwrap().parent().unwrap().to_path_buf();
    let cfg = json!({
        "logFolder": scratch.join("logs"), "eventFolder": scratch.join("events"), "latchKeyFolder": scratch.join("keys"),
        "monitorIntervalInSeconds": 60, "pollKeyStatusIntervalInSeconds": 15, "hostGAPluginSupport": 1,
        "ebpfProgramName": "ebpf_cgroup.o", "cgroupRoot": "/sys/fs/cgroup", "fileLogLevel": "Trace"
    });
    std::fs::write(exe_dir.join("proxy-agent.json"), serde_json::to_vec_pretty(&cfg).unwrap()).expect("write proxy-agent.json");
    let _ = gpa::common::config::get_logs_dir();

    if std::env::var("E2E_FILE_LOG").map(|v| v != "0").unwrap_or(true) {
        use proxy_agent_shared::logger::{logger_manager, rolling_logger::RollingLogger};
        logger_manager::set_logger_level(gpa::common::config::get_file_log_level());
        let mut loggers = HashMap::new();
        loggers.insert(
            gpa::common::logger::AGENT_LOGGER_KEY.to_string(),
            RollingLogger::create_new(scratch.join("logs"), "ProxyAgent.log".to_string(), 10 * 1024 * 1024, 5),
        );
        loggers.insert(
            gpa::proxy::proxy_connection::ConnectionLogger::CONNECTION_LOGGER_KEY.to_string(),
            RollingLogger::create_new(scratch.join("logs"), "ProxyAgent.Connection.log".to_string(), 10 * 1024 * 1024, 5),
        );
        logger_manager::set_loggers(loggers, gpa::common::logger::AGENT_LOGGER_KEY.to_string());
    }

    let prev = std::panic::take_hook();
    std::panic::set_hook(Box::new(move |info| {
        PANICS.lock().unwrap().push(info.to_string());
        prev(info);
    }));

    let mut helper = std::process::Command::new("sleep").arg("1000000").spawn().expect("spawn helper process");
    let threads: usize = std::env::var("E2E_THREADS").ok().and_then(|v| v.parse().ok()).unwrap_or(2);
    let rt = if threads == 0 {
        tokio::runtime::Builder::new_current_thread().enable_all().build().unwrap()
    } else {
        tokio::runtime::Builder::new_multi_thread().worker_threads(threads).enable_all().build().unwrap()
    };
    let mocks_spec = std::env::var("E2E_MOCKS").unwrap_or_else(|_| DEFAULT_MOCKS.to_string());
    let helper_pid = helper.id();
    rt.block_on(async {
        let mut bound = Vec::new();
        let mut bind_errors = Vec::new();
        for addr in mocks_spec.split(',').map(|s| s.trim()).filter(|s| !s.is_empty()) {
            let mut ok = false;
            for _ in 0..50 {
                match TcpListener::bind(addr).await {
                    Ok(l) => {
                        tokio::spawn(mock_listener(l, addr.to_string()));
                        bound.push(addr.to_string());
                        ok = true;
                        break;
                    }
                    Err(e) => {
                        if bind_errors.len() < 20 {
                            bind_errors.push(format!("{}: {}", addr, e));
                        }
                        tokio::time::sleep(Duration::from_millis(20)).await;
                    }
                }
            }
            if !ok {
                let _ = writeln!(out, "{}", json!({"ok": false, "fatal": format!("cannot bind mock host {}", addr), "detail": bind_errors}));
                return;
            }
        }
        let env = Arc::new(Env { mocks: bound, helper_pid });
        let stdin = std::io::stdin();
        let mut line = String::new();
        loop {
            line.clear();
            match stdin.read_line(&mut line) {
                Ok(0) | Err(_) => break,
                Ok(_) => {}
            }
            if line.trim().is_empty() {
                continue;
            }
            let result = match serde_json::from_str::<Value>(&line) {
                Err(e) => json!({"ok": false, "error": format!("scenario is not JSON: {}", e)}),
                Ok(sc) => {
                    let name = sc.get("name").cloned().unwrap_or(Value::Null);
                    let limit = Duration::from_millis(sc.get("scenario_timeout_ms").and_then(|x| x.as_u64()).unwrap_or(60000));
                    let h = tokio::spawn(run_scenario(sc, env.clone()));
                    match tokio::time::timeout(limit, h).await {
                        Ok(Ok(v)) => v,
                        Ok(Err(e)) => json!({"name": name, "ok": false, "error": format!("driver task failed: {}", e),
                                             "panics": PANICS.lock().unwrap().clone()}),
                        Err(_) => {
                            *CURRENT.lock().unwrap() = None;
                            json!({"name": name, "ok": false, "error": "scenario timeout"})
                        }
                    }
                }
            };
            let _ = writeln!(out, "{}", result);
            let _ = out.flush();
        }
    });
    kill_helpers();
    let _ = helper.kill();
    let _ = helper.wait();
    let _ = out.flush();
    // actor tasks of the last scenario may still be parked; do not wait for them
    std::process::exit(0);
}
