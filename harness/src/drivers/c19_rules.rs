// C19 driver for the rule dumps: runs the REAL
// gpa::proxy::authorization_rules::AuthorizationRulesForLogging::write_all on scratch directories.
// Script on stdin, one JSON line per input line.  No command-line arguments.
//   fresh <path>          remove + create the directory and make it current
//   put <name> <size>     create a regular file of <size> bytes in the current directory
//   dump <max>            write_all(current directory, <max>)   -> listing
//   cfgcap                gpa::common::config::get_max_event_file_count()
//   ls                    listing
use gpa::proxy::authorization_rules::{AuthorizationRulesForLogging, ComputedAuthorizationRules};
use std::io::{BufRead, Write};
use std::path::{Path, PathBuf};

fn listing(dir: &Path) -> serde_json::Value {
    let mut v: Vec<(String, u64, bool)> = Vec::new();
    if let Ok(rd) = std::fs::read_dir(dir) {
        for e in rd.flatten() {
            if let Ok(md) = std::fs::metadata(e.path()) {
                v.push((e.file_name().to_string_lossy().to_string(), md.len(), md.is_file()));
            }
        }
    }
    v.sort();
    serde_json::json!(v)
}

pub fn main() {
    // write_all touches neither common::config nor the loggers (LOGGERS unset -> no file log)
    let rules = AuthorizationRulesForLogging::new(
        None,
        ComputedAuthorizationRules { wireserver: None, imds: None, hostga: None },
    );
    let stdin = std::io::stdin();
    let stdout = std::io::stdout();
    // the library prints its own console lines to stdout: results are prefixed to tell them apart
    let mut cur = PathBuf::from(".");
    for line in stdin.lock().lines() {
        let line = line.unwrap();
        let p: Vec<&str> = line.split(' ').collect();
        let res: serde_json::Value = match p[0] {
            "fresh" => {
                cur = PathBuf::from(p[1]);
                let _ = std::fs::remove_dir_all(&cur);
                std::fs::create_dir_all(&cur).unwrap();
                serde_json::json!("ok")
            }
            "symlink" => {
                // foreign entry that cannot be stat()-ed: dangling link, or a loop (target = own name)
                let _ = std::os::unix::fs::symlink(p[2], cur.join(p[1]));
                serde_json::json!("ok")
            }
            "mkdir" => {
                use std::os::unix::fs::PermissionsExt;
                let d = cur.join(p[1]);
                let _ = std::fs::create_dir_all(&d);
                let _ = std::fs::set_permissions(&d, std::fs::Permissions::from_mode(u32::from_str_radix(p[2], 8).unwrap()));
                serde_json::json!("ok")
            }
            "put" => {
                let size: usize = p[2].parse().unwrap();
                std::fs::write(cur.join(p[1]), vec![b'p'; size]).unwrap();
                serde_json::json!("ok")
            }
            "dump" => {
                let max: usize = p[1].parse().unwrap();
                let r = std::panic::catch_unwind(std::panic::AssertUnwindSafe(|| rules.write_all(&cur, max)));
                serde_json::json!({"r": if r.is_ok() {"ok"} else {"panic"}, "ls": listing(&cur)})
            }
            "ls" => serde_json::json!({"r": "ok", "ls": listing(&cur)}),
            // the cap provision::start_event_threads hands to event_logger::start: the real getter on
            // the proxy-agent.json beside THIS executable (the check runs a private copy of the exe)
            "cfgcap" => serde_json::json!({"cap": gpa::common::config::get_max_event_file_count()}),
            _ => serde_json::json!("bad command"),
        };
        let mut out = stdout.lock();
        writeln!(out, "@@C19 {}", res).unwrap();
    }
}
