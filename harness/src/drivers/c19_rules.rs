// C19 driver for the rule dumps: runs the REAL
// gpa::proxy::authorization_rules::AuthorizationRulesForLogging::write_all on scratch directories.
// Script on stdin, one JSON line per input line.  No command-line arguments.
//   fresh <path>          remove + create the directory and make it current
//   put <name> <size>     create a regular file of <size> bytes in the current directory
//   dump <max> [<ws> <imds> <ga>]   write_all(current directory, <max>) of a rule set whose three items have the
//                         given modes (none|disabled|audit|enforce; default none)   -> listing
//   start                 the agent's real start-up path up to and including the start banner:
//                         service::start_service polled once (setup_loggers on config::get_logs_dir(), i.e.
//                         the logFolder of the proxy-agent.json beside THIS executable, then the start line)
//                         -> listing of that folder.  Loggers are process-global: one restart = one process
//   a <len> / c <len>     one Info line through the agent logger / the connection logger  -> listing
//   cfgcap                gpa::common::config::get_max_event_file_count()
//   ls                    listing
use gpa::proxy::authorization_rules::{
    AuthorizationMode, AuthorizationRulesForLogging, ComputedAuthorizationItem, ComputedAuthorizationRules,
};
use std::io::{BufRead, Write};
use std::path::{Path, PathBuf};

fn listing(dir: &Path) -> serde_json::Value {
    let mut v: Vec<(String, u64, bool)> = Vec::new();
    if let Ok(rd) = std::fs::read_dir(dir) {
        for e in rd.flatten() {
            if let Ok(md) = std::fs::metadata(e.path()) {
                v.push((e.file_name().to_string_lossy().to_string(), md.len(), md.is_file()));
            }
        }
    }
    v.sort();
    serde_json::json!(v)
}

fn item(mode: &str) -> Option<ComputedAuthorizationItem> {
    let mode = match mode {
        "disabled" => AuthorizationMode::Disabled,
        "audit" => AuthorizationMode::Audit,
        "enforce" => AuthorizationMode::Enforce,
        _ => return None,
    };
    Some(ComputedAuthorizationItem {
        id: "c19".to_string(),
        defaultAllowed: true,
        mode,
        privileges: Default::default(),
        privilegeAssignments: Default::default(),
        identities: Default::default(),
    })
}

struct Noop;
impl std::task::Wake for Noop {
    fn wake(self: std::sync::Arc<Self>) {}
}

pub fn main() {
    // write_all touches neither common::config nor the loggers (LOGGERS unset -> no file log)
    let mut rt: Option<tokio::runtime::Runtime> = None;
    let stdin = std::io::stdin();
    let stdout = std::io::stdout();
    // the library prints its own console lines to stdout: results are prefixed to tell them apart
    let mut cur = PathBuf::from(".");
    for line in stdin.lock().lines() {
        let line = line.unwrap();
        let p: Vec<&str> = line.split(' ').collect();
        let res: serde_json::Value = match p[0] {
            "fresh" => {
                cur = PathBuf::from(p[1]);
                let _ = std::fs::remove_dir_all(&cur);
                std::fs::create_dir_all(&cur).unwrap();
                serde_json::json!("ok")
            }
            "symlink" => {
                // foreign entry that cannot be stat()-ed: dangling link, or a loop (target = own name)
                let _ = std::os::unix::fs::symlink(p[2], cur.join(p[1]));
                serde_json::json!("ok")
            }
            "mkdir" => {
                use std::os::unix::fs::PermissionsExt;
                let d = cur.join(p[1]);
                let _ = std::fs::create_dir_all(&d);
                let _ = std::fs::set_permissions(&d, std::fs::Permissions::from_mode(u32::from_str_radix(p[2], 8).unwrap()));
                serde_json::json!("ok")
            }
            "put" => {
                let size: usize = p[2].parse().unwrap();
                std::fs::write(cur.join(p[1]), vec![b'p'; size]).unwrap();
                serde_json::json!("ok")
            }
            "start" => {
                use std::future::Future;
                let r = tokio::runtime::Builder::new_current_thread().enable_all().build().unwrap();
                let done = r.block_on(async {
                    let shared_state = gpa::shared_state::SharedState::start_all();
                    let mut f = Box::pin(gpa::service::start_service(shared_state));
                    let waker = std::task::Waker::from(std::sync::Arc::new(Noop));
                    let mut cx = std::task::Context::from_waker(&waker);
                    f.as_mut().poll(&mut cx).is_ready()
                });
                rt = Some(r); // the spawned tasks (key keeper, redirector, proxy) are never driven
                cur = gpa::common::config::get_logs_dir();
                serde_json::json!({"r": if done {"ok"} else {"pending"}, "ls": listing(&cur)})
            }
            "a" | "c" => {
                let len: usize = p[1].parse().unwrap();
                if p[0] == "a" {
                    gpa::common::logger::write_information("x".repeat(len));
                } else {
                    proxy_agent_shared::logger::logger_manager::log(
                        gpa::proxy::proxy_connection::ConnectionLogger::CONNECTION_LOGGER_KEY.to_string(),
                        proxy_agent_shared::logger::LoggerLevel::Info,
                        "y".repeat(len),
                    );
                }
                serde_json::json!({"r": "ok", "ls": listing(&cur)})
            }
            "dump" => {
                let max: usize = p[1].parse().unwrap();
                let m = |i: usize| if p.len() > i { p[i] } else { "none" };
                let rules = AuthorizationRulesForLogging::new(
                    None,
                    ComputedAuthorizationRules { wireserver: item(m(2)), imds: item(m(3)), hostga: item(m(4)) },
                );
                let r = std::panic::catch_unwind(std::panic::AssertUnwindSafe(|| rules.write_all(&cur, max)));
                serde_json::json!({"r": if r.is_ok() {"ok"} else {"panic"}, "ls": listing(&cur)})
            }
            "ls" => serde_json::json!({"r": "ok", "ls": listing(&cur)}),
            // the cap provision::start_event_threads hands to event_logger::start: the real getter on
            // the proxy-agent.json beside THIS executable (the check runs a private copy of the exe)
            "cfgcap" => serde_json::json!({"cap": gpa::common::config::get_max_event_file_count()}),
            _ => serde_json::json!("bad command"),
        };
        let mut out = stdout.lock();
        writeln!(out, "@@C19 {}", res).unwrap();
    }
}
