// C09 / C08 correspondence driver: the REAL KeyKeeper (KeyKeeper::new + poll_secure_channel_status)
// from the repository's working tree, against a mock host that lives OUTSIDE this process
// (tools/mockhost.py), so that the host's request log survives a SIGKILL of this process (C08).
//
// No command-line arguments (DESIGN 1.7).  stdin: one JSON command per line; every answer is ONE
// line on the original stdout, prefixed "@@ " (fd 1 itself is re-pointed to $C09_AGENT_LOG or
// /dev/null first, because the agent println!s its console log).
//
//   {"cmd":"start","base_url":"http://127.0.0.1:PORT/","key_dir":D,"log_dir":L,"interval_ms":10}
//        fresh SharedState::start_all(), KeyKeeper::new(base_url, key_dir, log_dir, interval,
//        &shared_state), spawn(poll_secure_channel_status)                      -> {"ok":true}
//   {"cmd":"dump"}      public getters of the key-keeper state + the H2 redirect-policy trace since
//                       the previous dump + key/log directory listings + panics -> {...}
//   {"cmd":"notify"}    KeyKeeperSharedState::notify()                          -> {"ok":true}
//   {"cmd":"stop"}      cancel the token, wait for the keeper task              -> {"ok":true,..}
//   {"cmd":"compute","item":{..}}  ComputedAuthorizationItem::from_authorization_item -> {"computed":..}
//   {"cmd":"codec","key":{..}}     the exact bytes store_local_key writes for this key
//                                  (serde_json::to_vec_pretty) and what from_str reads back
//   {"cmd":"decode","hex":".."}    serde_json::from_str::<Key> on arbitrary file bytes
//   {"cmd":"quit"}
//
// Time: the runtime is current_thread with tokio's clock PAUSED (test-util): whenever every task
// is idle the clock jumps to the next timer, so the keeper's interval / 1 s "frequent poll" sleeps
// cost nothing, while a keeper blocked in an HTTP request to the mock simply waits (no timer is
// pending then).  The mock withholds the answer to status request n+1 until the check has read
// the getters: "status request n+1 arrived" == "poll n is complete".
use gpa::key_keeper::key::{AuthorizationItem, Key};
use gpa::key_keeper::KeyKeeper;
use gpa::proxy::authorization_rules::ComputedAuthorizationItem;
use gpa::redirector::verif_hooks as hooks;
use gpa::shared_state::SharedState;
use serde_json::{json, Value};
use std::io::{BufRead, Write};
use std::os::unix::io::{AsRawFd, FromRawFd};
use std::path::PathBuf;
use std::sync::{Arc, Mutex};
use std::time::Duration;

static PANICS: Mutex<Vec<String>> = Mutex::new(Vec::new());

fn hex(b: &[u8]) -> String {
    b.iter().map(|x| format!("{:02x}", x)).collect()
}

fn unhex(s: &str) -> Vec<u8> {
    (0..s.len() / 2)
        .map(|i| u8::from_str_radix(&s[2 * i..2 * i + 2], 16).unwrap_or(0))
        .collect()
}

fn list_dir(dir: &PathBuf) -> Value {
    // name -> hex content (key files are tiny); rule dumps are listed by name only
    let mut names: Vec<(String, Value)> = Vec::new();
    if let Ok(rd) = std::fs::read_dir(dir) {
        for e in rd.flatten() {
            let name = e.file_name().to_string_lossy().to_string();
            let content = match std::fs::read(e.path()) {
                Ok(b) => Value::String(hex(&b)),
                Err(_) => Value::Null,
            };
            names.push((name, content));
        }
    }
    names.sort_by(|a, b| a.0.cmp(&b.0));
    Value::Array(names.into_iter().map(|(n, c)| json!([n, c])).collect())
}

fn list_names(dir: &PathBuf) -> Value {
    let mut names: Vec<String> = Vec::new();
    if let Ok(rd) = std::fs::read_dir(dir) {
        for e in rd.flatten() {
            names.push(e.file_name().to_string_lossy().to_string());
        }
    }
    names.sort();
    json!(names)
}

struct Session {
    shared: SharedState,
    handle: tokio::task::JoinHandle<()>,
    key_dir: PathBuf,
    log_dir: PathBuf,
}

async fn drain() {
    for _ in 0..50 {
        tokio::task::yield_now().await;
    }
}

async fn dump(sess: &Option<Session>) -> Value {
    let Some(s) = sess else {
        return json!({"err": "no session"});
    };
    drain().await;
    let kk = s.shared.get_key_keeper_shared_state();
    let opt = |r: gpa::common::result::Result<Option<String>>| match r {
        Ok(Some(x)) => json!(x),
        Ok(None) => Value::Null,
        Err(e) => json!({ "err": e.to_string() }),
    };
    let st = |r: gpa::common::result::Result<String>| match r {
        Ok(x) => json!(x),
        Err(e) => json!({ "err": e.to_string() }),
    };
    let rules = |r: gpa::common::result::Result<Option<ComputedAuthorizationItem>>| match r {
        Ok(Some(x)) => serde_json::to_value(&x).unwrap_or(json!({"err":"serialize"})),
        Ok(None) => Value::Null,
        Err(e) => json!({ "err": e.to_string() }),
    };
    let trace: Vec<Value> = hooks::take_trace()
        .into_iter()
        .filter_map(|e| match e {
            hooks::Event::Policy { endpoint, redirect } => Some(json!([endpoint, redirect])),
            _ => None,
        })
        .collect();
    let inc = match kk.get_current_key_incarnation().await {
        Ok(Some(n)) => json!(n),
        Ok(None) => Value::Null,
        Err(e) => json!({ "err": e.to_string() }),
    };
    json!({
        "state": st(kk.get_current_secure_channel_state().await),
        "key_guid": opt(kk.get_current_key_guid().await),
        "key_value": opt(kk.get_current_key_value().await),
        "key_incarnation": inc,
        "ws_id": st(kk.get_wireserver_rule_id().await),
        "imds_id": st(kk.get_imds_rule_id().await),
        "ga_id": st(kk.get_hostga_rule_id().await),
        "ws_rules": rules(kk.get_wireserver_rules().await),
        "imds_rules": rules(kk.get_imds_rules().await),
        "ga_rules": rules(kk.get_hostga_rules().await),
        "policy": trace,
        "key_dir": list_dir(&s.key_dir),
        "log_dir": list_names(&s.log_dir),
        "alive": !s.handle.is_finished(),
        "panics": PANICS.lock().unwrap().clone(),
    })
}

pub fn main() {
    // results go to the original stdout; the agent's console log (println!) goes elsewhere
    let mut out = unsafe {
        let keep = libc::dup(1);
        let path = std::env::var("C09_AGENT_LOG").unwrap_or_else(|_| "/dev/null".to_string());
        let log = std::fs::OpenOptions::new()
            .create(true)
            .append(true)
            .open(&path)
            .expect("agent log");
        libc::dup2(log.as_raw_fd(), 1);
        std::fs::File::from_raw_fd(keep)
    };
    // configuration beside our own executable, before the library touches it (DESIGN 1.7);
    // the check runs a private copy of this binary in its scratch directory.
    let exe_dir = std::env::current_exe().unwrap().parent().unwrap().to_path_buf();
    let cfg_path = exe_dir.join("proxy-agent.json");
    if !cfg_path.exists() {
        let scratch = exe_dir.join("agent");
        let cfg = json!({
            "logFolder": scratch.join("logs"), "eventFolder": scratch.join("events"),
            "latchKeyFolder": scratch.join("keys"),
            "monitorIntervalInSeconds": 60, "pollKeyStatusIntervalInSeconds": 15,
            "hostGAPluginSupport": 1, "ebpfProgramName": "ebpf_cgroup.o",
            "cgroupRoot": "/sys/fs/cgroup", "fileLogLevel": "Info"
        });
        let _ = std::fs::write(&cfg_path, serde_json::to_vec_pretty(&cfg).unwrap());
    }
    hooks::enable();
    let prev = std::panic::take_hook();
    std::panic::set_hook(Box::new(move |info| {
        PANICS.lock().unwrap().push(info.to_string());
        prev(info);
    }));

    let rt = tokio::runtime::Builder::new_current_thread()
        .enable_all()
        .start_paused(std::env::var("C09_REAL_TIME").is_err())
        .build()
        .unwrap();

    // stdin on a plain thread (not spawn_blocking: that would inhibit the paused clock's auto-advance)
    let (tx, mut rx) = tokio::sync::mpsc::unbounded_channel::<String>();
    std::thread::spawn(move || {
        let stdin = std::io::stdin();
        for line in stdin.lock().lines() {
            match line {
                Ok(l) => {
                    if tx.send(l).is_err() {
                        break;
                    }
                }
                Err(_) => break,
            }
        }
    });

    rt.block_on(async move {
        let mut sess: Option<Session> = None;
        while let Some(line) = rx.recv().await {
            let line = line.trim().to_string();
            if line.is_empty() {
                continue;
            }
            let cmd: Value = match serde_json::from_str(&line) {
                Ok(v) => v,
                Err(e) => {
                    let _ = writeln!(out, "@@ {}", json!({"err": format!("bad command: {}", e)}));
                    continue;
                }
            };
            let reply = match cmd["cmd"].as_str().unwrap_or("") {
                "start" => {
                    if let Some(s) = sess.take() {
                        s.shared.cancel_cancellation_token();
                        s.handle.abort();
                        let _ = s.handle.await;
                    }
                    let _ = hooks::take_trace();
                    let base_url: hyper::Uri = cmd["base_url"].as_str().unwrap_or("").parse().unwrap();
                    let key_dir = PathBuf::from(cmd["key_dir"].as_str().unwrap_or(""));
                    let log_dir = PathBuf::from(cmd["log_dir"].as_str().unwrap_or(""));
                    let interval = Duration::from_millis(cmd["interval_ms"].as_u64().unwrap_or(10));
                    let shared = SharedState::start_all();
                    let keeper = KeyKeeper::new(base_url, key_dir.clone(), log_dir.clone(), interval, &shared);
                    let handle = tokio::spawn(async move {
                        keeper.poll_secure_channel_status().await;
                    });
                    sess = Some(Session { shared, handle, key_dir, log_dir });
                    json!({"ok": true})
                }
                "dump" => dump(&sess).await,
                "notify" => match &sess {
                    Some(s) => match s.shared.get_key_keeper_shared_state().notify().await {
                        Ok(()) => json!({"ok": true}),
                        Err(e) => json!({"err": e.to_string()}),
                    },
                    None => json!({"err": "no session"}),
                },
                "stop" => {
                    if let Some(s) = sess.take() {
                        s.shared.cancel_cancellation_token();
                        drain().await;
                        let finished = tokio::time::timeout(Duration::from_secs(5), s.handle).await;
                        json!({"ok": true, "clean": matches!(finished, Ok(Ok(()))), "panics": PANICS.lock().unwrap().clone()})
                    } else {
                        json!({"ok": true, "clean": true})
                    }
                }
                "compute" => match serde_json::from_value::<AuthorizationItem>(cmd["item"].clone()) {
                    Ok(item) => {
                        let c = ComputedAuthorizationItem::from_authorization_item(item);
                        json!({"computed": serde_json::to_value(&c).unwrap_or(Value::Null)})
                    }
                    Err(e) => json!({"err": e.to_string()}),
                },
                "codec" => match serde_json::from_value::<Key>(cmd["key"].clone()) {
                    Ok(k) => {
                        // exactly what misc_helpers::json_write_to_file puts into the file
                        let bytes = serde_json::to_vec_pretty(&k).unwrap_or_default();
                        let back = std::str::from_utf8(&bytes)
                            .ok()
                            .and_then(|s| serde_json::from_str::<Key>(s).ok())
                            .map(|k2| serde_json::to_value(&k2).unwrap_or(Value::Null));
                        json!({"hex": hex(&bytes), "back": back})
                    }
                    Err(e) => json!({"err": e.to_string()}),
                },
                "decode" => {
                    let bytes = unhex(cmd["hex"].as_str().unwrap_or(""));
                    // fetch_local_key: fs::read_to_string (UTF-8 or error) then serde_json::from_str::<Key>
                    match String::from_utf8(bytes) {
                        Ok(s) => match serde_json::from_str::<Key>(&s) {
                            Ok(k) => json!({"key": serde_json::to_value(&k).unwrap_or(Value::Null)}),
                            Err(_) => json!({"key": Value::Null}),
                        },
                        Err(_) => json!({"key": Value::Null}),
                    }
                }
                "quit" => {
                    let _ = writeln!(out, "@@ {}", json!({"ok": true}));
                    let _ = out.flush();
                    break;
                }
                other => json!({"err": format!("unknown command {:?}", other)}),
            };
            let _ = writeln!(out, "@@ {}", reply);
            let _ = out.flush();
        }
        if let Some(s) = sess.take() {
            s.shared.cancel_cancellation_token();
            s.handle.abort();
        }
    });
    let _ = Arc::new(0);
    std::process::exit(0);
}
