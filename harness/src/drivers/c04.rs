// C04 correspondence driver: runs the REAL canonicalisation / signing code of
// proxy_agent/src/common/hyper_client.rs and helpers.rs on scripts read from stdin, one JSON
// result per input line.  Fields are hex strings prefixed with 'x' ("x" = empty), "-" = absent.
//
//   U <method> <target>                       Method::from_bytes, Uri::try_from, then
//                                             path(), query(), to_string(), query_pairs,
//                                             get_path_and_canonicalized_parameters (H3 tap),
//                                             should_skip_sig
//   H <n> (<name> <value>)*n                  HeaderMap built by append; its iteration order and
//                                             headers_to_canonicalized_string (H3 tap)
//   S <method> <target> <body> <key> <n> (<name> <value>)*n
//                                             proxied route: request_to_sign_input on the builder
//                                             (H3 tap), as_sig_input(parts, body),
//                                             compute_signature(key, input)
//   B <method> <full url> <body|-> <key|-> <guid|-> <n> (<name> <value>)*n
//                                             the agent's own calls: build_request; prints the
//                                             built request (method, target, headers, body)
//
//   R <calls>                                 the agent's own calls under a rotating key: the real
//                                             WireServerClient::get_goalstate / get_shared_config and
//                                             ImdsClient::get_imds_instance_info run <calls> times each
//                                             against a raw-socket mock host while a task latches two keys
//                                             alternately (KeyKeeperSharedState::update_key, a yield
//                                             between updates); prints every request the host received and
//                                             the two keys, so that the check can verify each request under
//                                             the key NAMED in its authorization header
//
//   L <calls>                                 load: <calls> CONCURRENT own calls (get_goalstate /
//                                             get_imds_instance_info alternately, one task each, all
//                                             started before any is polled) with one key latched and no
//                                             rotation; prints what the mock host received
//
// Every library rejection is reported distinctly ({"reject": "..."}) so that the model is never
// asked about an input the code does not see; a panic inside the code under test is caught and
// reported as {"panic": true} (header values with a byte >= 0x80: C13's subject, F7).
// No command-line arguments (see DESIGN 1.7).
use gpa::common::helpers;
use gpa::common::hyper_client;
use gpa::common::hyper_client::verif_taps;
use http::header::{HeaderName, HeaderValue};
use http::{HeaderMap, Method, Request, Uri};
use http_body_util::BodyExt;
use hyper::body::Bytes;
use serde_json::{json, Value};
use std::collections::HashMap;
use std::io::{self, BufRead, Write};
use std::panic::{catch_unwind, AssertUnwindSafe};

fn unhex(t: &str) -> Option<Vec<u8>> {
    if t == "-" {
        return None;
    }
    let t = t.strip_prefix('x').expect("field must start with x");
    let b = t.as_bytes();
    assert!(b.len() % 2 == 0);
    let v = |c: u8| -> u8 {
        match c {
            b'0'..=b'9' => c - b'0',
            b'a'..=b'f' => c - b'a' + 10,
            _ => panic!("bad hex in script"),
        }
    };
    Some((0..b.len() / 2).map(|i| v(b[2 * i]) * 16 + v(b[2 * i + 1])).collect())
}

fn hx(b: &[u8]) -> String {
    let mut s = String::with_capacity(b.len() * 2 + 1);
    s.push('x');
    for c in b {
        s.push_str(&format!("{:02x}", c));
    }
    s
}

fn header_list(h: &HeaderMap) -> Value {
    Value::Array(
        h.iter()
            .map(|(k, v)| json!([hx(k.as_str().as_bytes()), hx(v.as_bytes())]))
            .collect(),
    )
}

fn parse_pairs<'a>(it: &mut impl Iterator<Item = &'a str>) -> Vec<(Vec<u8>, Vec<u8>)> {
    let n: usize = it.next().unwrap().parse().unwrap();
    (0..n)
        .map(|_| {
            let k = unhex(it.next().unwrap()).unwrap();
            let v = unhex(it.next().unwrap()).unwrap();
            (k, v)
        })
        .collect()
}

fn build_map(pairs: &[(Vec<u8>, Vec<u8>)]) -> Result<HeaderMap, Value> {
    let mut map = HeaderMap::new();
    for (i, (k, v)) in pairs.iter().enumerate() {
        let name = match HeaderName::from_bytes(k) {
            Ok(n) => n,
            Err(_) => return Err(json!({"reject": "header-name", "index": i})),
        };
        let value = match HeaderValue::from_bytes(v) {
            Ok(v) => v,
            Err(_) => return Err(json!({"reject": "header-value", "index": i})),
        };
        map.append(name, value);
    }
    Ok(map)
}

fn op_u<'a>(it: &mut impl Iterator<Item = &'a str>) -> Value {
    let m = unhex(it.next().unwrap()).unwrap();
    let t = unhex(it.next().unwrap()).unwrap();
    let method = match Method::from_bytes(&m) {
        Ok(m) => m,
        Err(_) => return json!({"reject": "method"}),
    };
    let uri = match Uri::try_from(t.as_slice()) {
        Ok(u) => u,
        Err(_) => return json!({"reject": "uri"}),
    };
    let r = catch_unwind(AssertUnwindSafe(|| {
        let pairs = hyper_client::query_pairs(&uri);
        let pp = verif_taps::get_path_and_canonicalized_parameters(&uri);
        let skip = hyper_client::should_skip_sig(&method, &uri);
        json!({
            "method": hx(method.as_str().as_bytes()),
            "path": hx(uri.path().as_bytes()),
            "query": uri.query().map(|q| hx(q.as_bytes())),
            "has_authority": uri.authority().is_some(),
            "to_string": hx(uri.to_string().as_bytes()),
            "pairs": pairs.iter().map(|(k, v)| json!([hx(k.as_bytes()), hx(v.as_bytes())])).collect::<Vec<_>>(),
            "canon_path": hx(pp.0.as_bytes()),
            "canon_params": hx(pp.1.as_bytes()),
            "skip": skip,
        })
    }));
    r.unwrap_or_else(|_| json!({"panic": true}))
}

fn op_h<'a>(it: &mut impl Iterator<Item = &'a str>) -> Value {
    let pairs = parse_pairs(it);
    let map = match build_map(&pairs) {
        Ok(m) => m,
        Err(v) => return v,
    };
    let iter = header_list(&map);
    match catch_unwind(AssertUnwindSafe(|| verif_taps::headers_to_canonicalized_string(&map))) {
        Ok(s) => json!({"iter": iter, "canon": hx(s.as_bytes())}),
        Err(_) => json!({"iter": iter, "panic": true}),
    }
}

fn op_s<'a>(it: &mut impl Iterator<Item = &'a str>) -> Value {
    let m = unhex(it.next().unwrap()).unwrap();
    let t = unhex(it.next().unwrap()).unwrap();
    let body = unhex(it.next().unwrap()).unwrap();
    let key = unhex(it.next().unwrap()).unwrap();
    let pairs = parse_pairs(it);
    let method = match Method::from_bytes(&m) {
        Ok(m) => m,
        Err(_) => return json!({"reject": "method"}),
    };
    let uri = match Uri::try_from(t.as_slice()) {
        Ok(u) => u,
        Err(_) => return json!({"reject": "uri"}),
    };
    let key = match String::from_utf8(key) {
        Ok(k) => k,
        Err(_) => return json!({"reject": "key-utf8"}),
    };
    let map = match build_map(&pairs) {
        Ok(m) => m,
        Err(v) => return v,
    };
    let iter = header_list(&map);
    let r = catch_unwind(AssertUnwindSafe(|| {
        // the builder exactly as the request is about to be built from it
        let mut builder = Request::builder().method(method.clone()).uri(uri.clone());
        for (k, v) in map.iter() {
            builder = builder.header(k.clone(), v.clone());
        }
        let tap = verif_taps::request_to_sign_input(&builder, Some(body.clone()));
        let tap_nobody = verif_taps::request_to_sign_input(&builder, None);
        let request = builder.body(()).unwrap();
        let (head, _) = request.into_parts();
        let head_headers = header_list(&head.headers);
        let input = hyper_client::as_sig_input(head, Bytes::from(body.clone()));
        let sig = helpers::compute_signature(&key, input.as_slice());
        json!({
            "iter": head_headers,
            "sig_input": hx(&input),
            "tap": tap.ok().map(|v| hx(&v)),
            "tap_nobody": tap_nobody.ok().map(|v| hx(&v)),
            "signature": sig.ok(),
        })
    }));
    r.unwrap_or_else(|_| json!({"iter": iter, "panic": true}))
}

fn op_b<'a>(it: &mut impl Iterator<Item = &'a str>, rt: &tokio::runtime::Runtime) -> Value {
    let m = unhex(it.next().unwrap()).unwrap();
    let t = unhex(it.next().unwrap()).unwrap();
    let body = unhex(it.next().unwrap());
    let key = unhex(it.next().unwrap());
    let guid = unhex(it.next().unwrap());
    let pairs = parse_pairs(it);
    let method = match Method::from_bytes(&m) {
        Ok(m) => m,
        Err(_) => return json!({"reject": "method"}),
    };
    let uri = match Uri::try_from(t.as_slice()) {
        Ok(u) => u,
        Err(_) => return json!({"reject": "uri"}),
    };
    let to_s = |o: Option<Vec<u8>>| -> Result<Option<String>, Value> {
        match o {
            None => Ok(None),
            Some(b) => String::from_utf8(b).map(Some).map_err(|_| json!({"reject": "utf8"})),
        }
    };
    let key = match to_s(key) {
        Ok(k) => k,
        Err(v) => return v,
    };
    let guid = match to_s(guid) {
        Ok(k) => k,
        Err(v) => return v,
    };
    let mut headers: HashMap<String, String> = HashMap::new();
    for (k, v) in pairs {
        match (String::from_utf8(k), String::from_utf8(v)) {
            (Ok(k), Ok(v)) => {
                headers.insert(k, v);
            }
            _ => return json!({"reject": "utf8"}),
        }
    }
    let r = catch_unwind(AssertUnwindSafe(|| {
        match hyper_client::build_request(method, &uri, &headers, body.as_deref(), guid, key) {
            Err(e) => json!({"err": e.to_string()}),
            Ok(req) => {
                let (head, b) = req.into_parts();
                let collected = rt.block_on(async { b.collect().await.map(|c| c.to_bytes()) });
                let body_bytes = match collected {
                    Ok(b) => b,
                    Err(_) => return json!({"err": "body-collect"}),
                };
                json!({
                    "method": hx(head.method.as_str().as_bytes()),
                    "path": hx(head.uri.path().as_bytes()),
                    "query": head.uri.query().map(|q| hx(q.as_bytes())),
                    "has_authority": head.uri.authority().is_some(),
                    "headers": header_list(&head.headers),
                    "body": hx(&body_bytes),
                })
            }
        }
    }));
    r.unwrap_or_else(|_| json!({"panic": true}))
}

const ROT_KEYS: [(&str, &str); 2] = [
    (
        "11111111-c04c-4c04-8c04-c04c04c04c04",
        "4A404E635266556A586E3272357538782F413F4428472B4B6250645367566B59",
    ),
    (
        "22222222-c04c-4c04-8c04-c04c04c04c04",
        "7134743777217a25432a462d4a614e645267556b58703273357638792f423f45",
    ),
];

fn find(hay: &[u8], needle: &[u8]) -> Option<usize> {
    hay.windows(needle.len()).position(|w| w == needle)
}

/// raw-socket mock host: records (head bytes, body bytes) of every request, answers 503
fn start_mock_host() -> (u16, std::sync::mpsc::Receiver<(Vec<u8>, Vec<u8>)>) {
    use std::io::Read;
    let listener = std::net::TcpListener::bind((std::net::Ipv4Addr::LOCALHOST, 0)).unwrap();
    let port = listener.local_addr().unwrap().port();
    let (tx, rx) = std::sync::mpsc::channel();
    std::thread::spawn(move || {
        for stream in listener.incoming() {
            let mut stream = match stream {
                Ok(s) => s,
                Err(_) => return,
            };
            let tx = tx.clone();
            std::thread::spawn(move || {
                let mut buf: Vec<u8> = Vec::new();
                let mut tmp = [0u8; 4096];
                loop {
                    let head_end = loop {
                        if let Some(p) = find(&buf, b"\r\n\r\n") {
                            break p;
                        }
                        match stream.read(&mut tmp) {
                            Ok(0) | Err(_) => return,
                            Ok(n) => buf.extend_from_slice(&tmp[..n]),
                        }
                    };
                    let head = buf[..head_end].to_vec();
                    let cl = String::from_utf8_lossy(&head)
                        .split("\r\n")
                        .filter_map(|l| l.split_once(':'))
                        .find(|(n, _)| n.eq_ignore_ascii_case("content-length"))
                        .and_then(|(_, v)| v.trim().parse::<usize>().ok())
                        .unwrap_or(0);
                    while buf.len() < head_end + 4 + cl {
                        match stream.read(&mut tmp) {
                            Ok(0) | Err(_) => return,
                            Ok(n) => buf.extend_from_slice(&tmp[..n]),
                        }
                    }
                    let body = buf[head_end + 4..head_end + 4 + cl].to_vec();
                    buf.drain(..head_end + 4 + cl);
                    let _ = tx.send((head, body));
                    if stream
                        .write_all(b"HTTP/1.1 503 Service Unavailable\r\nContent-Length: 0\r\n\r\n")
                        .is_err()
                    {
                        return;
                    }
                }
            });
        }
    });
    (port, rx)
}

fn op_r<'a>(it: &mut impl Iterator<Item = &'a str>, rt: &tokio::runtime::Runtime) -> Value {
    use gpa::host_clients::imds_client::ImdsClient;
    use gpa::host_clients::wire_server_client::WireServerClient;
    use gpa::key_keeper::key::Key;
    use gpa::shared_state::key_keeper_wrapper::KeyKeeperSharedState;
    use std::sync::atomic::{AtomicBool, Ordering};
    use std::sync::Arc;
    let calls: usize = it.next().unwrap().parse().unwrap();
    let (port, received) = start_mock_host();
    let key = |n: usize| -> Key {
        let mut k = Key::empty();
        k.guid = ROT_KEYS[n].0.to_string();
        k.key = ROT_KEYS[n].1.to_string();
        k.incarnationId = Some(n as u32 + 1);
        k
    };
    let r = catch_unwind(AssertUnwindSafe(|| {
        rt.block_on(async {
            let state = KeyKeeperSharedState::start_new();
            state.update_key(key(0)).await.unwrap();
            let stop = Arc::new(AtomicBool::new(false));
            let rotator = tokio::spawn({
                let state = state.clone();
                let stop = stop.clone();
                async move {
                    let mut n = 0usize;
                    while !stop.load(Ordering::SeqCst) {
                        n += 1;
                        let _ = state.update_key(key(n % 2)).await;
                        tokio::task::yield_now().await;
                    }
                    n
                }
            });
            let ws = WireServerClient::new("127.0.0.1", port, state.clone());
            let imds = ImdsClient::new("127.0.0.1", port, state.clone());
            for i in 0..calls {
                let _ = ws.get_goalstate().await;
                let _ = ws
                    .get_shared_config(format!("http://127.0.0.1:{}/machine/x?comp=config&type=sharedConfig&incarnation={}", port, i))
                    .await;
                let _ = imds.get_imds_instance_info().await;
            }
            stop.store(true, Ordering::SeqCst);
            rotator.await.unwrap_or(0)
        })
    }));
    let rotations = match r {
        Ok(n) => n,
        Err(_) => return json!({"panic": true}),
    };
    std::thread::sleep(std::time::Duration::from_millis(50));
    let mut reqs = Vec::new();
    while let Ok((head, body)) = received.try_recv() {
        reqs.push(json!({"head": hx(&head), "body": hx(&body)}));
    }
    json!({
        "requests": reqs,
        "rotations": rotations,
        "keys": ROT_KEYS.iter().map(|(g, k)| json!([g, k])).collect::<Vec<_>>(),
    })
}

fn op_l<'a>(it: &mut impl Iterator<Item = &'a str>, rt: &tokio::runtime::Runtime) -> Value {
    use gpa::host_clients::imds_client::ImdsClient;
    use gpa::host_clients::wire_server_client::WireServerClient;
    use gpa::key_keeper::key::Key;
    use gpa::shared_state::key_keeper_wrapper::KeyKeeperSharedState;
    let calls: usize = it.next().unwrap().parse().unwrap();
    let (port, received) = start_mock_host();
    let r = catch_unwind(AssertUnwindSafe(|| {
        rt.block_on(async {
            let state = KeyKeeperSharedState::start_new();
            let mut k = Key::empty();
            k.guid = ROT_KEYS[0].0.to_string();
            k.key = ROT_KEYS[0].1.to_string();
            k.incarnationId = Some(1);
            state.update_key(k).await.unwrap();
            let mut handles = Vec::new();
            for i in 0..calls {
                let state = state.clone();
                handles.push(tokio::spawn(async move {
                    if i % 2 == 0 {
                        let _ = WireServerClient::new("127.0.0.1", port, state).get_goalstate().await;
                    } else {
                        let _ = ImdsClient::new("127.0.0.1", port, state).get_imds_instance_info().await;
                    }
                }));
            }
            for h in handles {
                let _ = h.await;
            }
        })
    }));
    if r.is_err() {
        return json!({"panic": true});
    }
    std::thread::sleep(std::time::Duration::from_millis(100));
    let mut reqs = Vec::new();
    while let Ok((head, body)) = received.try_recv() {
        reqs.push(json!({"head": hx(&head), "body": hx(&body)}));
    }
    json!({
        "requests": reqs,
        "calls": calls,
        "keys": ROT_KEYS.iter().map(|(g, k)| json!([g, k])).collect::<Vec<_>>(),
    })
}

pub fn main() {
    std::panic::set_hook(Box::new(|_| {}));
    let rt = tokio::runtime::Builder::new_current_thread().enable_all().build().unwrap();
    let stdin = io::stdin();
    let stdout = io::stdout();
    let mut out = io::BufWriter::new(stdout.lock());
    for line in stdin.lock().lines() {
        let line = line.unwrap();
        let mut it = line.split(' ');
        let v = match it.next() {
            Some("U") => op_u(&mut it),
            Some("H") => op_h(&mut it),
            Some("S") => op_s(&mut it),
            Some("B") => op_b(&mut it, &rt),
            Some("R") => op_r(&mut it, &rt),
            Some("L") => op_l(&mut it, &rt),
            _ => json!({"bad_line": true}),
        };
        writeln!(out, "{}", v).unwrap();
    }
}
