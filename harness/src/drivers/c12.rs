// C12 driver -- canary runs of the REAL key keeper / proxy listener / status task / provision code.
//
// One process = one *segment* of a history (a history is cut at its `restart` ops by
// tools/checks/c12.py; all segments of a history share one scratch tree, so key files, logs,
// events and tag files persist across the restart exactly as they do for the agent).
//
// What runs, all of it the repository's own code compiled from the working tree:
//   * `gpa::key_keeper::KeyKeeper::poll_secure_channel_status` (mkdir/chown/chmod of the key
//     directory, then the poll loop) against a mock host inside this process that answers
//     `/secure-channel/status`, `/secure-channel/key`, `/secure-channel/key/{guid}/key-attestation`
//     with the bodies scripted by the history (one script per poll; the status request of poll
//     n+1 is held until the driver releases it, which is how the driver knows poll n is over);
//   * `gpa::proxy::proxy_server::ProxyServer` (client requests attributed through hook H1,
//     `/provision` queries straight to the listener);
//   * `gpa::provision::provision_timeup` (status.tag / provisioned.tag / serial console / event);
//   * `gpa::proxy_agent_status::ProxyAgentStatusTask::start` (one status.json write per op);
//   * `proxy_agent_shared::telemetry::event_logger::start` (event files).
// The driver only *runs* histories; the canary scan of every produced file is done by the check.
//
// No command-line arguments.  Environment: C12_SCRATCH (scratch tree; logs/ events/ keys/ status/
// snap/ are created below it).  stdin: one JSON line {"ops": [...]}; stdout (the original one;
// fd 1/2 are re-pointed to <scratch>/agent_stdout.log / agent_stderr.log first): one JSON line.
use gpa::key_keeper::KeyKeeper;
use gpa::proxy::proxy_server::ProxyServer;
use gpa::proxy_agent_status::ProxyAgentStatusTask;
use gpa::redirector::verif_hooks as hooks;
use gpa::shared_state::agent_status_wrapper::AgentStatusModule;
use gpa::shared_state::SharedState;
use http_body_util::{BodyExt, Full};
use hyper::body::Bytes;
use hyper::service::service_fn;
use hyper::{Request, Response};
use hyper_util::rt::TokioIo;
use proxy_agent_shared::proxy_agent_aggregate_status::ModuleState;
use serde_json::{json, Value};
use std::collections::{HashMap, VecDeque};
use std::io::Write;
use std::net::{Ipv4Addr, SocketAddr};
use std::os::unix::fs::MetadataExt;
use std::os::unix::io::{AsRawFd, FromRawFd};
use std::path::{Path, PathBuf};
use std::sync::atomic::{AtomicUsize, Ordering};
use std::sync::{Arc, Mutex};
use std::time::Duration;
use tokio::io::{AsyncReadExt, AsyncWriteExt};
use tokio::net::{TcpListener, TcpSocket};
use tokio::sync::Notify;

const HOST_PORT: u16 = 18080; // 127.0.0.1:18080 -- not one of the three metadata endpoints: Default authorizer
const PROXY_PORT: u16 = 20000;

const B64: &[u8; 64] = b"ABCDEFGHIJKLMNOPQRSTUVWXYZabcdefghijklmnopqrstuvwxyz0123456789+/";
fn b64e(data: &[u8]) -> String {
    let mut out = String::with_capacity((data.len() + 2) / 3 * 4);
    for c in data.chunks(3) {
        let b = [c[0], *c.get(1).unwrap_or(&0), *c.get(2).unwrap_or(&0)];
        let n = ((b[0] as u32) << 16) | ((b[1] as u32) << 8) | b[2] as u32;
        out.push(B64[(n >> 18) as usize & 63] as char);
        out.push(B64[(n >> 12) as usize & 63] as char);
        out.push(if c.len() > 1 { B64[(n >> 6) as usize & 63] as char } else { '=' });
        out.push(if c.len() > 2 { B64[n as usize & 63] as char } else { '=' });
    }
    out
}

// ------------------------------------------------------------------------------------------
// mock host
// ------------------------------------------------------------------------------------------
#[derive(Clone, Default)]
struct Reply {
    code: u16,
    body: String,
    content_type: Option<String>,
}

fn reply_of(v: Option<&Value>, default_body: &str) -> Reply {
    let v = match v {
        Some(v) => v,
        None => return Reply { code: 200, body: default_body.to_string(), content_type: None },
    };
    Reply {
        code: v.get("code").and_then(|x| x.as_u64()).unwrap_or(200) as u16,
        body: v.get("body").and_then(|x| x.as_str()).unwrap_or(default_body).to_string(),
        content_type: v.get("content_type").and_then(|x| x.as_str()).map(|s| s.to_string()),
    }
}

#[derive(Clone, Default)]
struct PollScript {
    status: Reply,
    key: Reply,
    attest: Reply,
}

struct Host {
    queue: Mutex<VecDeque<PollScript>>,
    current: Mutex<PollScript>,
    released: Notify,      // a script was pushed
    arrived: Notify,       // a status request arrived
    status_requests: AtomicUsize,
    received: Mutex<Vec<String>>, // everything the agent sent to the host, as text
}

async fn host_handle(host: Arc<Host>, req: Request<hyper::body::Incoming>) -> Result<Response<Full<Bytes>>, hyper::Error> {
    let (head, body) = req.into_parts();
    let body = body.collect().await.map(|b| b.to_bytes()).unwrap_or_default();
    let mut text = format!("{} {}\r\n", head.method, head.uri);
    for (k, v) in head.headers.iter() {
        text.push_str(&format!("{}: {}\r\n", k, String::from_utf8_lossy(v.as_bytes())));
    }
    text.push_str("\r\n");
    text.push_str(&String::from_utf8_lossy(&body));
    host.received.lock().unwrap().push(text);

    let path = head.uri.path().to_string();
    let reply = if path == "/secure-channel/status" {
        host.status_requests.fetch_add(1, Ordering::SeqCst);
        host.arrived.notify_waiters();
        // hold the request until the driver releases the next poll
        let script = loop {
            let notified = host.released.notified();
            tokio::pin!(notified);
            notified.as_mut().enable();
            if let Some(s) = host.queue.lock().unwrap().pop_front() {
                break s;
            }
            notified.await;
        };
        *host.current.lock().unwrap() = script.clone();
        script.status
    } else if path == "/secure-channel/key" {
        host.current.lock().unwrap().key.clone()
    } else if path.starts_with("/secure-channel/key/") && path.ends_with("/key-attestation") {
        host.current.lock().unwrap().attest.clone()
    } else {
        Reply { code: 200, body: "mock-ok".to_string(), content_type: Some("text/plain".to_string()) }
    };
    let mut b = Response::builder().status(reply.code);
    if let Some(ct) = &reply.content_type {
        b = b.header("Content-Type", ct.as_str());
    }
    Ok(b.body(Full::new(Bytes::from(reply.body.into_bytes()))).unwrap())
}

async fn host_listen(listener: TcpListener, host: Arc<Host>) {
    loop {
        if let Ok((stream, _)) = listener.accept().await {
            let host = host.clone();
            tokio::spawn(async move {
                let io = TokioIo::new(stream);
                let svc = service_fn(move |req| host_handle(host.clone(), req));
                let _ = hyper::server::conn::http1::Builder::new().serve_connection(io, svc).await;
            });
        }
    }
}

async fn wait_status_requests(host: &Host, n: usize, limit: Duration) -> bool {
    tokio::time::timeout(limit, async {
        loop {
            let notified = host.arrived.notified();
            tokio::pin!(notified);
            notified.as_mut().enable();
            if host.status_requests.load(Ordering::SeqCst) >= n {
                return;
            }
            let _ = tokio::time::timeout(Duration::from_millis(100), notified).await;
        }
    })
    .await
    .is_ok()
}

// ------------------------------------------------------------------------------------------
// client side
// ------------------------------------------------------------------------------------------
async fn raw_exchange(request: &[u8], audit_dest: Option<(Ipv4Addr, u16)>) -> Result<Vec<u8>, String> {
    let sock = TcpSocket::new_v4().map_err(|e| e.to_string())?;
    let _ = sock.set_reuseaddr(true);
    sock.bind(SocketAddr::from((Ipv4Addr::LOCALHOST, 0))).map_err(|e| e.to_string())?;
    let port = sock.local_addr().map_err(|e| e.to_string())?.port();
    if let Some((ip, dport)) = audit_dest {
        // (logon id, pid, is_admin, destination ip / port in network byte order)
        hooks::insert(port, (0, std::process::id(), 1, u32::from(ip).to_be(), dport.to_be()));
    }
    let mut stream = tokio::time::timeout(Duration::from_secs(10), sock.connect(SocketAddr::from((Ipv4Addr::LOCALHOST, PROXY_PORT))))
        .await
        .map_err(|_| "connect timeout".to_string())?
        .map_err(|e| e.to_string())?;
    stream.write_all(request).await.map_err(|e| e.to_string())?;
    let _ = stream.flush().await;
    let mut out = Vec::new();
    let mut tmp = vec![0u8; 65536];
    loop {
        match tokio::time::timeout(Duration::from_secs(10), stream.read(&mut tmp)).await {
            Ok(Ok(0)) | Ok(Err(_)) => break,
            Ok(Ok(n)) => out.extend_from_slice(&tmp[..n]),
            Err(_) => return Err(format!("response timeout after {} bytes", out.len())),
        }
    }
    Ok(out)
}

fn file_id(p: &Path) -> Option<(u64, u64, i64, i64)> {
    std::fs::metadata(p).ok().map(|m| (m.dev(), m.ino(), m.mtime(), m.mtime_nsec()))
}

fn snap(scratch: &Path, src: &Path, label: &str, counter: &AtomicUsize) {
    if src.exists() {
        let n = counter.fetch_add(1, Ordering::SeqCst);
        let dst = scratch.join("snap").join(format!("{}.{:04}.{}", label, n, std::process::id()));
        let _ = std::fs::copy(src, dst);
    }
}

static PANICS: Mutex<Vec<String>> = Mutex::new(Vec::new());

/// The key folder AS CONFIGURED (what the agent is told): `$C12_KEYS_DIR` verbatim when set -- e.g. the relative
/// path "keys" (the check starts the driver with the scratch tree as working directory) -- else <scratch>/keys.
/// <scratch>/keys itself may be a symlink (or a chain of symlinks) to the directory that really holds the files;
/// the driver's own bookkeeping always goes through <scratch>/keys.
fn configured_key_dir(scratch: &Path) -> PathBuf {
    match std::env::var("C12_KEYS_DIR") {
        Ok(v) if !v.is_empty() => PathBuf::from(v),
        _ => scratch.join("keys"),
    }
}

async fn run(ops: Vec<Value>, scratch: PathBuf) -> Value {
    let host = Arc::new(Host {
        queue: Mutex::new(VecDeque::new()),
        current: Mutex::new(PollScript::default()),
        released: Notify::new(),
        arrived: Notify::new(),
        status_requests: AtomicUsize::new(0),
        received: Mutex::new(Vec::new()),
    });
    let mut listener = None;
    for _ in 0..100 {
        match TcpListener::bind((Ipv4Addr::LOCALHOST, HOST_PORT)).await {
            Ok(l) => {
                listener = Some(l);
                break;
            }
            Err(_) => tokio::time::sleep(Duration::from_millis(50)).await,
        }
    }
    let listener = match listener {
        Some(l) => l,
        None => return json!({"ok": false, "error": "cannot bind the mock host"}),
    };
    tokio::spawn(host_listen(listener, host.clone()));

    hooks::enable();
    let shared = SharedState::start_all();
    let status = shared.get_agent_status_shared_state();
    let snap_counter = AtomicUsize::new(0);

    // event files (the real writer, short interval)
    let events_dir = scratch.join("events");
    tokio::spawn({
        let d = events_dir.clone();
        async move {
            proxy_agent_shared::telemetry::event_logger::start(d, Duration::from_millis(15), 100000, |_s: String| async {}).await;
        }
    });

    // the real listener
    let server = ProxyServer::new(PROXY_PORT, &shared);
    let server_task = tokio::spawn(async move { server.start().await });
    let mut listening = false;
    for _ in 0..20000 {
        if status.get_module_status(AgentStatusModule::ProxyServer).await.status == ModuleState::RUNNING {
            listening = true;
            break;
        }
        if server_task.is_finished() {
            break;
        }
        tokio::time::sleep(Duration::from_micros(500)).await;
    }
    if !listening {
        return json!({"ok": false, "error": format!("proxy listener did not start: {}",
            status.get_module_status(AgentStatusModule::ProxyServer).await.message)});
    }

    // the real key keeper (interval 10 ms once the channel state is known; the code's own 1 s while unknown)
    let base: hyper::Uri = format!("http://127.0.0.1:{}/", HOST_PORT).parse().unwrap();
    let keeper = KeyKeeper::new(base, configured_key_dir(&scratch), scratch.join("logs"), Duration::from_millis(10), &shared);
    tokio::spawn(async move { keeper.poll_secure_channel_status().await });
    if !wait_status_requests(&host, 1, Duration::from_secs(20)).await {
        return json!({"ok": false, "error": "the key keeper never asked for the channel status"});
    }

    let mut results: Vec<Value> = Vec::new();
    let mut polls = 0usize;
    let mut error: Option<String> = None;
    for op in ops.iter() {
        let name = op.get("op").and_then(|x| x.as_str()).unwrap_or("");
        let r = match name {
            "poll" => {
                let script = PollScript {
                    status: reply_of(op.get("status"), "{}"),
                    key: reply_of(op.get("key"), "{}"),
                    attest: reply_of(op.get("attest"), ""),
                };
                host.queue.lock().unwrap().push_back(script);
                host.released.notify_waiters();
                polls += 1;
                // poll n is over when the status request of poll n+1 is waiting at the host
                if !wait_status_requests(&host, polls + 1, Duration::from_secs(30)).await {
                    error = Some(format!("poll {} did not finish (key keeper task dead?)", polls));
                }
                json!({"op": "poll"})
            }
            "client" => {
                let req = b"GET /machine?comp=goalstate HTTP/1.1\r\nhost: x\r\nx-ms-version: 2012-11-30\r\nconnection: close\r\n\r\n";
                match raw_exchange(req, Some((Ipv4Addr::LOCALHOST, HOST_PORT))).await {
                    Ok(b) => json!({"op": "client", "response_b64": b64e(&b)}),
                    Err(e) => {
                        error = Some(format!("client request: {}", e));
                        json!({"op": "client", "error": e})
                    }
                }
            }
            "provision" => {
                let notify = op.get("notify").and_then(|x| x.as_bool()).unwrap_or(false);
                let mut req = String::from("GET /provision HTTP/1.1\r\nhost: x\r\nMetadata: True\r\nx-ms-azure-time_tick: 99999999999999999999999999999\r\nconnection: close\r\n");
                if notify {
                    req.push_str("x-ms-azure-notify: provision\r\n");
                }
                req.push_str("\r\n");
                match raw_exchange(req.as_bytes(), None).await {
                    Ok(b) => json!({"op": "provision", "response_b64": b64e(&b)}),
                    Err(e) => {
                        error = Some(format!("provision query: {}", e));
                        json!({"op": "provision", "error": e})
                    }
                }
            }
            "timeup" => {
                gpa::provision::provision_timeup(None, shared.get_provision_shared_state(), shared.get_agent_status_shared_state()).await;
                snap(&scratch, &scratch.join("keys").join("status.tag"), "status.tag", &snap_counter);
                snap(&scratch, &scratch.join("keys").join("provisioned.tag"), "provisioned.tag", &snap_counter);
                json!({"op": "timeup"})
            }
            "status_tick" => {
                let file = scratch.join("status").join("status.json");
                let before = file_id(&file);
                let task = ProxyAgentStatusTask::new(
                    Duration::from_secs(3600),
                    scratch.join("status"),
                    shared.get_cancellation_token(),
                    shared.get_key_keeper_shared_state(),
                    shared.get_agent_status_shared_state(),
                );
                let h = tokio::spawn(async move { task.start().await });
                let mut written = false;
                for _ in 0..5000 {
                    let now = file_id(&file);
                    if now.is_some() && now != before {
                        written = true;
                        break;
                    }
                    tokio::time::sleep(Duration::from_millis(2)).await;
                }
                tokio::time::sleep(Duration::from_millis(5)).await;
                h.abort();
                if !written {
                    error = Some("status.json was not written".to_string());
                }
                snap(&scratch, &file, "status.json", &snap_counter);
                json!({"op": "status_tick", "written": written})
            }
            "rmdir" => {
                // somebody removes the key directory (with everything in it) while the agent runs
                // (entries first, then a plain rmdir(2) with the full path, which the strace leg recognises)
                let dir = scratch.join("keys");
                if let Ok(rd) = std::fs::read_dir(&dir) {
                    for e in rd.flatten() {
                        // keep a copy for the canary scan (what was in the key store stays a KeyFile observation)
                        let name = e.file_name().to_string_lossy().to_string();
                        let label = if name.ends_with(".key") || (name.ends_with(".tmp") && !name.starts_with("status.tag")) {
                            format!("keyfile.{}", name)
                        } else {
                            name
                        };
                        snap(&scratch, &e.path(), &label, &snap_counter);
                        let _ = std::fs::remove_file(e.path());
                    }
                }
                let r = std::fs::remove_dir(&dir);
                json!({"op": "rmdir", "removed": r.is_ok()})
            }
            "cancelled_signer" => {
                // a requester of the key that is cancelled between queueing its request at the key keeper
                // actor and receiving the reply: poll the real accessor once by hand, then drop it; repeated, because the actor may win the race on another worker thread
                let kk = shared.get_key_keeper_shared_state();
                let mut dropped = 0u32;
                struct Noop;
                impl std::task::Wake for Noop {
                    fn wake(self: Arc<Self>) {}
                }
                let waker = std::task::Waker::from(Arc::new(Noop));
                for _ in 0..200 {
                    let mut cx = std::task::Context::from_waker(&waker);
                    let mut fut = Box::pin(kk.get_current_key_guid_and_value());
                    if std::future::Future::poll(fut.as_mut(), &mut cx).is_pending() {
                        dropped += 1;
                    }
                    drop(fut);
                }
                tokio::time::sleep(Duration::from_millis(30)).await;
                json!({"op": "cancelled_signer", "dropped": dropped})
            }
            other => {
                error = Some(format!("unknown op {:?}", other));
                json!({"op": other})
            }
        };
        results.push(r);
        if error.is_some() {
            break;
        }
    }

    // let connection loggers drop; then make sure the event writer has flushed everything queued so far:
    // push a marker event and wait until it is on disk (the queue is FIFO and a flush drains it whole)
    tokio::time::sleep(Duration::from_millis(40)).await;
    let marker = format!("c12-flush-marker-{}-{}", std::process::id(), polls);
    proxy_agent_shared::telemetry::event_logger::write_event(
        proxy_agent_shared::logger::LoggerLevel::Info,
        marker.clone(),
        "flush",
        "c12_driver",
        gpa::common::logger::AGENT_LOGGER_KEY,
    );
    let mut flushed = false;
    'wait: for _ in 0..1500 {
        tokio::time::sleep(Duration::from_millis(20)).await;
        if let Ok(rd) = std::fs::read_dir(&events_dir) {
            for e in rd.flatten() {
                if e.path().extension().map(|x| x != "json").unwrap_or(true) {
                    continue; // a .tmp still being written
                }
                if let Ok(text) = std::fs::read_to_string(e.path()) {
                    if text.contains(&marker) {
                        flushed = true;
                        break 'wait;
                    }
                }
            }
        }
    }
    if !flushed && error.is_none() {
        error = Some("the event writer did not flush the marker event within 30 s".to_string());
    }
    let received = host.received.lock().unwrap().clone();
    json!({
        "ok": error.is_none(),
        "error": error,
        "ops": results,
        "polls": polls,
        "host_received_b64": received.iter().map(|s| b64e(s.as_bytes())).collect::<Vec<_>>(),
        "panics": PANICS.lock().unwrap().clone(),
        "pid": std::process::id(),
    })
}

pub fn main() {
    let scratch = PathBuf::from(std::env::var("C12_SCRATCH").expect("C12_SCRATCH must name a scratch directory"));
    // keys/ is deliberately NOT created here: creating it is the key keeper's business (syscall order)
    for d in ["logs", "events", "status", "snap"] {
        std::fs::create_dir_all(scratch.join(d)).expect("create scratch dirs");
    }
    let mut out = unsafe {
        let keep = libc::dup(1);
        let so = std::fs::OpenOptions::new().create(true).append(true).open(scratch.join("agent_stdout.log")).expect("agent_stdout.log");
        let se = std::fs::OpenOptions::new().create(true).append(true).open(scratch.join("agent_stderr.log")).expect("agent_stderr.log");
        libc::dup2(so.as_raw_fd(), 1);
        libc::dup2(se.as_raw_fd(), 2);
        std::fs::File::from_raw_fd(keep)
    };
    let exe_dir = std::env::current_exe().unwrap().parent().unwrap().to_path_buf();
    let cfg = json!({
        "logFolder": scratch.join("logs"), "eventFolder": scratch.join("events"), "latchKeyFolder": configured_key_dir(&scratch),
        "monitorIntervalInSeconds": 60, "pollKeyStatusIntervalInSeconds": 15, "hostGAPluginSupport": 1,
        "ebpfProgramName": "ebpf_cgroup.o", "cgroupRoot": "/sys/fs/cgroup", "fileLogLevel": "Trace"
    });
    std::fs::write(exe_dir.join("proxy-agent.json"), serde_json::to_vec_pretty(&cfg).unwrap()).expect("write proxy-agent.json");
    let _ = gpa::common::config::get_logs_dir();
    {
        use proxy_agent_shared::logger::{logger_manager, rolling_logger::RollingLogger};
        logger_manager::set_logger_level(gpa::common::config::get_file_log_level());
        let mut loggers = HashMap::new();
        loggers.insert(
            gpa::common::logger::AGENT_LOGGER_KEY.to_string(),
            RollingLogger::create_new(scratch.join("logs"), "ProxyAgent.log".to_string(), 10 * 1024 * 1024, 5),
        );
        loggers.insert(
            gpa::proxy::proxy_connection::ConnectionLogger::CONNECTION_LOGGER_KEY.to_string(),
            RollingLogger::create_new(scratch.join("logs"), "ProxyAgent.Connection.log".to_string(), 10 * 1024 * 1024, 5),
        );
        logger_manager::set_loggers(loggers, gpa::common::logger::AGENT_LOGGER_KEY.to_string());
    }
    let prev = std::panic::take_hook();
    std::panic::set_hook(Box::new(move |info| {
        PANICS.lock().unwrap().push(info.to_string());
        prev(info);
    }));

    let mut line = String::new();
    let _ = std::io::stdin().read_line(&mut line);
    let result = match serde_json::from_str::<Value>(&line) {
        Err(e) => json!({"ok": false, "error": format!("input is not JSON: {}", e)}),
        Ok(v) => {
            let ops = v.get("ops").and_then(|x| x.as_array()).cloned().unwrap_or_default();
            let rt = tokio::runtime::Builder::new_multi_thread().worker_threads(2).enable_all().build().unwrap();
            rt.block_on(async {
                match tokio::time::timeout(Duration::from_secs(100), tokio::spawn(run(ops, scratch.clone()))).await {
                    Ok(Ok(v)) => v,
                    Ok(Err(e)) => json!({"ok": false, "error": format!("driver task failed: {}", e), "panics": PANICS.lock().unwrap().clone()}),
                    Err(_) => json!({"ok": false, "error": "segment timeout"}),
                }
            })
        }
    };
    let _ = writeln!(out, "{}", result);
    let _ = out.flush();
    // the keeper is parked in a held status request and actor tasks are parked: do not wait for them
    std::process::exit(0);
}
