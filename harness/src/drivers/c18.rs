// C18 correspondence driver: the REAL telemetry code (xml_escape, TelemetryData/TelemetryEvent,
// EventReader) on scripts read from stdin.
//
// One JSON command per stdin line, one JSON result per line on the ORIGINAL stdout (fd 1 is
// re-pointed to /dev/null first: the agent `println!`s its console log, including the
// "Event data too large" warning with the whole event).  No command-line arguments (DESIGN 1.7);
// `proxy-agent.json` is written beside the executable, so the check runs a private copy of this
// binary from its scratch directory.
//
// Text fields are either a JSON string or a run-length list [[piece, count], ...] (large
// messages stay small on the wire and in the Coq expression that mirrors them).
//
//   {"op":"env"}                          -> what from_event_log reads from the machine
//   {"op":"escape","s":text}              -> {"out_hex": hex of helpers::xml_escape(s)}
//   {"op":"pure","vm":{..},"events":[ev..],"full":bool}
//        TelemetryData::new(); for each event add_event(from_event_log(..)) and get_size();
//        -> sizes after each add, the final to_xml() (hex when full, else length + checksum),
//           every event's own rendering (same), event_count, and the size after one
//           remove_last_event()
//   {"op":"run","dir":path,"files":[{"name":..,"events":[ev..]}|{"name":..,"raw":text}],
//    "docs":{"goalstate":xml,"sharedconfig":xml,"imds":json},"responses":[200|500|"drop"..]}
//        writes the files (event lists with misc_helpers::json_write_to_file, the writer the
//        event logger uses), starts a mock WireServer + IMDS on 127.0.0.1:<ephemeral>, runs
//        EventReader::start(1 h, Some("127.0.0.1"), Some(port)) on a current_thread runtime with
//        the tokio clock PAUSED (the 15 s retry sleeps and the 1 h interval cost no wall time),
//        until the reader begins its second iteration (second goal-state request, held by the
//        mock until the snapshot is taken), then cancels it.  The mock is a raw-TCP HTTP/1.1
//        server: an answer may also be {"status":200,"fault":"cut_body"|"head_only"|"cut_chunked"}
//        (complete response head, body cut off: the host HAS accepted the batch).
//        "cancel":{"at":"arrival"|"answer"|"sleep","n":i,"delay_s":d} fires the reader's
//        cancellation token (service stop) when telemetry POST #i arrives / is answered / d virtual
//        seconds after its answer; the result then covers everything the mock received until
//        start() has returned plus 120 virtual seconds.
//        -> every telemetry POST in order (body saved to <dir>/../posts/<n>.bin, length,
//           checksum, content type, the status answered), the directory listing afterwards,
//           the VmMetaData the reader obtained
//   A watchdog thread turns a scenario that makes no progress for C18_HANG_SECS (default 90)
//   into {"hang":true} and exits: the remaining lines are re-run by the check in a new process.
use gpa::common::helpers;
use gpa::shared_state::agent_status_wrapper::AgentStatusSharedState;
use gpa::shared_state::key_keeper_wrapper::KeyKeeperSharedState;
use gpa::shared_state::telemetry_wrapper::TelemetrySharedState;
use gpa::telemetry::event_reader::{EventReader, VmMetaData};
use gpa::telemetry::telemetry_event::{KeywordName, TelemetryData, TelemetryEvent};
use proxy_agent_shared::misc_helpers;
use proxy_agent_shared::telemetry::Event;
use serde_json::{json, Value};
use std::io::Write;
use std::os::unix::io::FromRawFd;
use std::path::PathBuf;
use std::sync::atomic::{AtomicU64, Ordering};
use std::sync::{Arc, Mutex};
use std::time::Duration;
use tokio::net::TcpListener;
use tokio_util::sync::CancellationToken;

static PROGRESS: AtomicU64 = AtomicU64::new(0);

fn text(v: &Value) -> String {
    match v {
        Value::String(s) => s.clone(),
        Value::Array(parts) => {
            let mut out = String::new();
            for p in parts {
                let piece = p[0].as_str().unwrap_or("");
                let n = p[1].as_u64().unwrap_or(0);
                for _ in 0..n {
                    out.push_str(piece);
                }
            }
            out
        }
        _ => String::new(),
    }
}

fn hexs(b: &[u8]) -> String {
    let mut s = String::with_capacity(b.len() * 2);
    for x in b {
        s.push_str(&format!("{:02x}", x));
    }
    s
}

/// the position-sensitive checksum of Model/Telemetry.v `cksum`
fn cksum(b: &[u8]) -> (u64, u64) {
    let (mut a, mut c) = (0u64, 0u64);
    for x in b {
        a += *x as u64;
        c += a;
    }
    (a, c)
}

fn event_of(v: &Value) -> Event {
    Event {
        EventLevel: text(&v["level"]),
        Message: text(&v["message"]),
        Version: text(&v["version"]),
        TaskName: text(&v["task"]),
        EventPid: text(&v["pid"]),
        EventTid: text(&v["tid"]),
        OperationId: text(&v["opid"]),
        TimeStamp: text(&v["ts"]),
    }
}

fn vm_of(v: &Value) -> VmMetaData {
    VmMetaData {
        container_id: text(&v["container_id"]),
        tenant_name: text(&v["tenant_name"]),
        role_name: text(&v["role_name"]),
        role_instance_name: text(&v["role_instance_name"]),
        subscription_id: text(&v["subscription_id"]),
        resource_group_name: text(&v["resource_group_name"]),
        vm_id: text(&v["vm_id"]),
        image_origin: v["image_origin"].as_u64().unwrap_or(0),
    }
}

fn vm_json(v: &VmMetaData) -> Value {
    json!({"container_id": v.container_id, "tenant_name": v.tenant_name, "role_name": v.role_name,
           "role_instance_name": v.role_instance_name, "subscription_id": v.subscription_id,
           "resource_group_name": v.resource_group_name, "vm_id": v.vm_id, "image_origin": v.image_origin})
}

fn blob(b: &[u8], full: bool) -> Value {
    let (a, c) = cksum(b);
    if full {
        json!({"len": b.len(), "ck": [a, c], "hex": hexs(b)})
    } else {
        json!({"len": b.len(), "ck": [a, c]})
    }
}

fn op_env() -> Value {
    json!({
        "os_version": helpers::get_long_os_version(),
        "keyword_name": KeywordName::new(helpers::get_cpu_arch()).to_json(),
        "ram": helpers::get_ram_in_mb(),
        "processors": helpers::get_cpu_count() as u64,
    })
}

fn op_pure(sc: &Value) -> Value {
    let vm = vm_of(&sc["vm"]);
    let full = sc["full"].as_bool().unwrap_or(false);
    let mut td = TelemetryData::new();
    let mut sizes = Vec::new();
    let mut singles = Vec::new();
    let empty_size = td.get_size();
    for ev in sc["events"].as_array().map(|a| a.as_slice()).unwrap_or(&[]) {
        let e = event_of(ev);
        td.add_event(TelemetryEvent::from_event_log(&e, vm.clone()));
        sizes.push(td.get_size());
        let mut one = TelemetryData::new();
        one.add_event(TelemetryEvent::from_event_log(&e, vm.clone()));
        singles.push(blob(one.to_xml().as_bytes(), full));
        PROGRESS.fetch_add(1, Ordering::Relaxed);
    }
    let xml = td.to_xml();
    let count = td.event_count();
    let removed = td.remove_last_event().is_some();
    json!({"ok": true, "empty_size": empty_size, "sizes": sizes, "xml": blob(xml.as_bytes(), full),
           "singles": singles, "count": count, "removed": removed,
           "size_after_remove": td.get_size(), "count_after_remove": td.event_count()})
}

#[derive(Default)]
struct MockState {
    docs: Value,
    responses: Vec<Value>,
    posts: Vec<Value>,
    goalstate_requests: u64,
    other_requests: Vec<String>,
    posts_dir: PathBuf,
    port: u16,
    cancel_spec: Value,
    cancel_fired_at_post: Option<usize>,
}

type Shared = Arc<Mutex<MockState>>;

struct Ctl {
    st: Shared,
    second_iteration: Arc<tokio::sync::Notify>,
    released: CancellationToken,   // set by the driver once the snapshot is taken
    reader_cancel: CancellationToken, // the token handed to EventReader::new
}

struct Req {
    method: String,
    target: String,
    headers: Vec<(String, String)>,
    body: Vec<u8>,
}

fn find(hay: &[u8], needle: &[u8]) -> Option<usize> {
    hay.windows(needle.len()).position(|w| w == needle)
}

/// one HTTP/1.1 request from a raw connection (the agent opens a connection per request)
async fn read_request(stream: &mut tokio::net::TcpStream) -> Option<Req> {
    use tokio::io::AsyncReadExt;
    let mut buf: Vec<u8> = Vec::new();
    let mut tmp = vec![0u8; 65536];
    let head_end = loop {
        if let Some(p) = find(&buf, b"\r\n\r\n") {
            break p;
        }
        let n = stream.read(&mut tmp).await.ok()?;
        if n == 0 {
            return None;
        }
        buf.extend_from_slice(&tmp[..n]);
    };
    let head = String::from_utf8_lossy(&buf[..head_end]).to_string();
    let mut lines = head.split("\r\n");
    let mut first = lines.next()?.split(' ');
    let method = first.next()?.to_string();
    let target = first.next()?.to_string();
    let headers: Vec<(String, String)> = lines
        .filter_map(|l| l.split_once(':').map(|(a, b)| (a.trim().to_lowercase(), b.trim().to_string())))
        .collect();
    let get = |n: &str| headers.iter().find(|(k, _)| k == n).map(|(_, v)| v.clone());
    let mut rest: Vec<u8> = buf[head_end + 4..].to_vec();
    let mut body = Vec::new();
    if let Some(cl) = get("content-length").and_then(|v| v.parse::<usize>().ok()) {
        while rest.len() < cl {
            let n = stream.read(&mut tmp).await.ok()?;
            if n == 0 {
                return None;
            }
            rest.extend_from_slice(&tmp[..n]);
        }
        body = rest[..cl].to_vec();
    } else if get("transfer-encoding").map(|v| v.to_lowercase().contains("chunked")).unwrap_or(false) {
        loop {
            let line_end = loop {
                if let Some(p) = find(&rest, b"\r\n") {
                    break p;
                }
                let n = stream.read(&mut tmp).await.ok()?;
                if n == 0 {
                    return None;
                }
                rest.extend_from_slice(&tmp[..n]);
            };
            let size_txt = String::from_utf8_lossy(&rest[..line_end]).to_string();
            let size = usize::from_str_radix(size_txt.split(';').next().unwrap_or("").trim(), 16).ok()?;
            rest.drain(..line_end + 2);
            while rest.len() < size + 2 {
                let n = stream.read(&mut tmp).await.ok()?;
                if n == 0 {
                    return None;
                }
                rest.extend_from_slice(&tmp[..n]);
            }
            if size == 0 {
                break;
            }
            body.extend_from_slice(&rest[..size]);
            rest.drain(..size + 2);
        }
    }
    Some(Req { method, target, headers, body })
}

fn complete_response(code: u64, ctype: &str, body: &[u8]) -> Vec<u8> {
    let mut out = format!(
        "HTTP/1.1 {} Scripted\r\nContent-Type: {}\r\nContent-Length: {}\r\nConnection: close\r\n\r\n",
        code,
        ctype,
        body.len()
    )
    .into_bytes();
    out.extend_from_slice(body);
    out
}

/// the bytes the scripted telemetry answer puts on the wire (None = close without a response).
/// An answer is a status code, "drop", or {"status":code,"body":text,"fault":kind}: with a fault the
/// response HEAD is complete (the host has answered, a 2xx counts as accepted) but the body is not:
///   cut_body    Content-Length announces more than is sent, then the connection is closed
///   head_only   Content-Length > 0, no body byte at all, connection closed
///   cut_chunked chunked body, one chunk, closed before the terminating chunk
fn telemetry_answer_bytes(answer: &Value) -> Option<Vec<u8>> {
    if let Some(code) = answer.as_u64() {
        return Some(complete_response(code, "text/plain", b""));
    }
    if answer.is_string() {
        return None;
    }
    let code = answer["status"].as_u64().unwrap_or(200);
    let body = text(&answer["body"]);
    let body = if body.is_empty() { "accepted by the mock host".to_string() } else { body };
    match answer["fault"].as_str() {
        None => Some(complete_response(code, "text/plain", body.as_bytes())),
        Some("cut_body") => {
            let mut out = format!(
                "HTTP/1.1 {} Scripted\r\nContent-Type: text/plain\r\nContent-Length: {}\r\nConnection: close\r\n\r\n",
                code,
                body.len() + 40
            )
            .into_bytes();
            out.extend_from_slice(body.as_bytes());
            Some(out)
        }
        Some("head_only") => Some(
            format!(
                "HTTP/1.1 {} Scripted\r\nContent-Type: text/plain\r\nContent-Length: {}\r\nConnection: close\r\n\r\n",
                code,
                body.len().max(1)
            )
            .into_bytes(),
        ),
        Some(_) => {
            let mut out = format!(
                "HTTP/1.1 {} Scripted\r\nContent-Type: text/plain\r\nTransfer-Encoding: chunked\r\nConnection: close\r\n\r\n{:x}\r\n",
                code,
                body.len()
            )
            .into_bytes();
            out.extend_from_slice(body.as_bytes());
            out.extend_from_slice(b"\r\n");
            Some(out)
        }
    }
}

async fn serve_conn(mut stream: tokio::net::TcpStream, ctl: Arc<Ctl>) {
    use tokio::io::AsyncWriteExt;
    PROGRESS.fetch_add(1, Ordering::Relaxed);
    let req = match read_request(&mut stream).await {
        Some(r) => r,
        None => return,
    };
    let st = &ctl.st;
    let pq = req.target.clone();
    let ctype = req.headers.iter().find(|(k, _)| k == "content-type").map(|(_, v)| v.clone()).unwrap_or_default();
    let mut out: Option<Vec<u8>> = None;
    let mut sleep_cancel: Option<u64> = None;
    if req.method == "GET" && pq.starts_with("/machine?comp=goalstate") {
        let (n, doc) = {
            let mut g = st.lock().unwrap();
            g.goalstate_requests += 1;
            let port = g.port;
            (g.goalstate_requests, text(&g.docs["goalstate"]).replace("##PORT##", &port.to_string()))
        };
        if n >= 2 && !ctl.reader_cancel.is_cancelled() {
            // the reader finished its first pass and slept through the interval: hold this request
            // until the driver has taken its snapshot and cancelled the reader
            ctl.second_iteration.notify_one();
            ctl.released.cancelled().await;
        }
        out = Some(complete_response(200, "text/xml; charset=utf-8", doc.as_bytes()));
    } else if req.method == "GET" && pq.starts_with("/machine/") && pq.contains("type=sharedConfig") {
        let doc = text(&st.lock().unwrap().docs["sharedconfig"]);
        out = Some(complete_response(200, "text/xml; charset=utf-8", doc.as_bytes()));
    } else if req.method == "GET" && pq.starts_with("/metadata/instance") {
        let doc = text(&st.lock().unwrap().docs["imds"]);
        out = Some(complete_response(200, "application/json; charset=utf-8", doc.as_bytes()));
    } else if req.method == "POST" && pq == "/machine/?comp=telemetrydata" {
        let (answer, path, i, spec) = {
            let mut g = st.lock().unwrap();
            let i = g.posts.len();
            let answer = g.responses.get(i).cloned().unwrap_or(json!(200));
            let path = g.posts_dir.join(format!("{}.bin", i));
            let (a, c) = cksum(&req.body);
            let after_cancel = ctl.reader_cancel.is_cancelled();
            g.posts.push(json!({"file": path, "len": req.body.len(), "ck": [a, c], "content_type": ctype,
                                "answer": answer, "after_cancel": after_cancel}));
            (answer, path, i, g.cancel_spec.clone())
        };
        let _ = std::fs::write(&path, &req.body);
        // cancellation points of the scenario: the stop signal of the service arrives ...
        if spec["n"].as_u64() == Some(i as u64) && !ctl.reader_cancel.is_cancelled() {
            match spec["at"].as_str() {
                // ... when the host has the batch and is about to answer / has decided its answer
                Some("arrival") | Some("answer") => {
                    st.lock().unwrap().cancel_fired_at_post = Some(i);
                    ctl.reader_cancel.cancel();
                }
                // ... some (virtual) seconds after the answer: in the retry sleep after a failure
                Some("sleep") => sleep_cancel = Some(spec["delay_s"].as_u64().unwrap_or(5)),
                _ => {}
            }
        }
        out = telemetry_answer_bytes(&answer);
    } else {
        st.lock().unwrap().other_requests.push(format!("{} {}", req.method, pq));
        out = Some(complete_response(404, "text/plain", b""));
    }
    if let Some(bytes) = out {
        let _ = stream.write_all(&bytes).await;
        let _ = stream.flush().await;
        let _ = stream.shutdown().await;
    }
    drop(stream);
    if let Some(d) = sleep_cancel {
        let ctl = ctl.clone();
        let i = st.lock().unwrap().posts.len().saturating_sub(1);
        tokio::spawn(async move {
            tokio::time::sleep(Duration::from_secs(d)).await;
            if !ctl.reader_cancel.is_cancelled() {
                ctl.st.lock().unwrap().cancel_fired_at_post = Some(i);
                ctl.reader_cancel.cancel();
            }
        });
    }
}

async fn op_run(sc: &Value) -> Value {
    let dir = PathBuf::from(sc["dir"].as_str().unwrap_or(""));
    if dir.as_os_str().is_empty() {
        return json!({"ok": false, "error": "no dir"});
    }
    let _ = std::fs::remove_dir_all(&dir);
    if let Err(e) = std::fs::create_dir_all(&dir) {
        return json!({"ok": false, "error": format!("mkdir: {}", e)});
    }
    let posts_dir = dir.parent().unwrap_or(&dir).join("posts");
    let _ = std::fs::remove_dir_all(&posts_dir);
    let _ = std::fs::create_dir_all(&posts_dir);
    for f in sc["files"].as_array().map(|a| a.as_slice()).unwrap_or(&[]) {
        let path = dir.join(f["name"].as_str().unwrap_or("x"));
        if let Some(evs) = f.get("events").and_then(|x| x.as_array()) {
            let events: Vec<Event> = evs.iter().map(event_of).collect();
            // the function event_logger::start writes its files with
            if let Err(e) = misc_helpers::json_write_to_file(&events, &path) {
                return json!({"ok": false, "error": format!("json_write_to_file: {}", e)});
            }
        } else {
            let _ = std::fs::write(&path, text(&f["raw"]).as_bytes());
        }
        PROGRESS.fetch_add(1, Ordering::Relaxed);
    }

    // the listener is retried: another process may hold the port between bind attempts
    let mut listener = None;
    for _ in 0..50 {
        match TcpListener::bind("127.0.0.1:0").await {
            Ok(l) => {
                listener = Some(l);
                break;
            }
            Err(_) => tokio::task::yield_now().await,
        }
    }
    let listener = match listener {
        Some(l) => l,
        None => return json!({"ok": false, "error": "bind failed"}),
    };
    let port = listener.local_addr().unwrap().port();
    let cancel = CancellationToken::new();
    let cancel_mode = sc["cancel"].is_object();
    let st: Shared = Arc::new(Mutex::new(MockState {
        docs: sc["docs"].clone(),
        responses: sc["responses"].as_array().cloned().unwrap_or_default(),
        posts_dir,
        port,
        cancel_spec: sc["cancel"].clone(),
        ..Default::default()
    }));
    let ctl = Arc::new(Ctl {
        st: st.clone(),
        second_iteration: Arc::new(tokio::sync::Notify::new()),
        released: CancellationToken::new(),
        reader_cancel: cancel.clone(),
    });
    let stop = CancellationToken::new();
    let server = {
        let ctl = ctl.clone();
        let stop = stop.clone();
        tokio::spawn(async move {
            loop {
                tokio::select! {
                    _ = stop.cancelled() => return,
                    r = listener.accept() => {
                        if let Ok((stream, _)) = r {
                            let ctl = ctl.clone();
                            let stop = stop.clone();
                            tokio::spawn(async move {
                                tokio::select! {
                                    _ = stop.cancelled() => {}
                                    _ = serve_conn(stream, ctl) => {}
                                }
                            });
                        }
                    }
                }
            }
        })
    };

    let telemetry_state = TelemetrySharedState::start_new();
    let reader = EventReader::new(
        dir.clone(),
        false,
        cancel.clone(),
        KeyKeeperSharedState::start_new(),
        telemetry_state.clone(),
        AgentStatusSharedState::start_new(),
    );
    let mut reader_task = tokio::spawn(async move {
        reader.start(Some(Duration::from_secs(3600)), Some("127.0.0.1"), Some(port)).await;
    });
    let list_dir = |dir: &PathBuf| {
        let mut listing: Vec<String> = match std::fs::read_dir(dir) {
            Ok(rd) => rd.filter_map(|e| e.ok()).map(|e| e.file_name().to_string_lossy().to_string()).collect(),
            Err(_) => vec![],
        };
        listing.sort();
        listing
    };
    // either the reader begins its second pass (no cancellation point was reached), or the
    // scenario's cancellation point fired and start() has returned
    let mut ended_by_cancel_point = false;
    let mut reader_died: Option<String> = None;
    tokio::select! {
        _ = ctl.second_iteration.notified() => {}
        r = &mut reader_task => {
            ended_by_cancel_point = true;
            match r {
                Err(e) if e.is_panic() => {
                    let p = e.into_panic();
                    reader_died = Some(p.downcast_ref::<String>().cloned()
                        .or_else(|| p.downcast_ref::<&str>().map(|s| s.to_string()))
                        .unwrap_or_else(|| "panic".to_string()));
                }
                Err(e) => reader_died = Some(format!("reader task failed: {}", e)),
                Ok(()) => {
                    if !cancel.is_cancelled() {
                        reader_died = Some("EventReader::start returned although it was not cancelled".to_string());
                    }
                }
            }
        }
    }
    if let Some(why) = reader_died {
        stop.cancel();
        let _ = server.await;
        let g = st.lock().unwrap();
        return json!({"ok": false, "panic": why, "posts": g.posts, "dir_at_end": list_dir(&dir)});
    }
    let listing;
    let vm;
    if ended_by_cancel_point {
        // everything the host receives until the task has ended and the dust has settled
        tokio::time::sleep(Duration::from_secs(120)).await;
        listing = list_dir(&dir);
        vm = telemetry_state.get_vm_meta_data().await.ok().flatten();
        ctl.released.cancel();
    } else {
        // snapshot BEFORE the reader is released: nothing of a second pass is included
        listing = list_dir(&dir);
        vm = telemetry_state.get_vm_meta_data().await.ok().flatten();
        cancel.cancel();
        ctl.released.cancel();
        let _ = (&mut reader_task).await;
        tokio::time::sleep(Duration::from_secs(120)).await;
    }
    stop.cancel();
    let _ = server.await;
    let g = st.lock().unwrap();
    json!({"ok": true, "posts": g.posts, "dir_after": listing, "vm": vm.as_ref().map(vm_json),
           "goalstate_requests": g.goalstate_requests, "other_requests": g.other_requests,
           "cancel_mode": cancel_mode, "ended_by_cancel_point": ended_by_cancel_point,
           "cancel_fired_at_post": g.cancel_fired_at_post, "dir_at_end": list_dir(&dir)})
}

pub fn main() {
    // results go to the original stdout; the agent's own println! output is discarded
    let mut out = unsafe {
        let keep = libc::dup(1);
        let null = std::fs::OpenOptions::new().write(true).open("/dev/null").expect("/dev/null");
        libc::dup2(std::os::unix::io::AsRawFd::as_raw_fd(&null), 1);
        std::fs::File::from_raw_fd(keep)
    };
    let exe_dir = std::env::current_exe().unwrap().parent().unwrap().to_path_buf();
    let cfg = json!({
        "logFolder": exe_dir.join("logs"), "eventFolder": exe_dir.join("events"), "latchKeyFolder": exe_dir.join("keys"),
        "monitorIntervalInSeconds": 60, "pollKeyStatusIntervalInSeconds": 15, "hostGAPluginSupport": 1,
        "ebpfProgramName": "ebpf_cgroup.o", "cgroupRoot": "/sys/fs/cgroup", "fileLogLevel": "Info"
    });
    let _ = std::fs::write(exe_dir.join("proxy-agent.json"), serde_json::to_vec_pretty(&cfg).unwrap());

    // watchdog: a scenario that makes no progress (a busy loop without an await point blocks the
    // whole current_thread runtime) is reported as a hang and the process exits
    let hang_secs: u64 = std::env::var("C18_HANG_SECS").ok().and_then(|s| s.parse().ok()).unwrap_or(90);
    let busy = Arc::new(std::sync::atomic::AtomicBool::new(false));
    {
        let busy = busy.clone();
        let mut wd_out = out.try_clone().expect("clone stdout");
        std::thread::spawn(move || {
            let mut last = PROGRESS.load(Ordering::Relaxed);
            let mut since = std::time::Instant::now();
            loop {
                std::thread::sleep(Duration::from_millis(250));
                let now = PROGRESS.load(Ordering::Relaxed);
                if now != last || !busy.load(Ordering::Relaxed) {
                    last = now;
                    since = std::time::Instant::now();
                } else if since.elapsed().as_secs() >= hang_secs {
                    let _ = writeln!(wd_out, "{}", json!({"ok": false, "hang": true, "hang_secs": hang_secs}));
                    let _ = wd_out.flush();
                    std::process::exit(3);
                }
            }
        });
    }

    let stdin = std::io::stdin();
    let mut line = String::new();
    loop {
        line.clear();
        match stdin.read_line(&mut line) {
            Ok(0) | Err(_) => break,
            Ok(_) => {}
        }
        if line.trim().is_empty() {
            continue;
        }
        PROGRESS.fetch_add(1, Ordering::Relaxed);
        busy.store(true, Ordering::Relaxed);
        let result = match serde_json::from_str::<Value>(&line) {
            Err(e) => json!({"ok": false, "error": format!("command is not JSON: {}", e)}),
            Ok(sc) => {
                let r = std::panic::catch_unwind(std::panic::AssertUnwindSafe(|| match sc["op"].as_str() {
                    Some("env") => op_env(),
                    Some("escape") => {
                        json!({"ok": true, "out_hex": hexs(helpers::xml_escape(text(&sc["s"])).as_bytes())})
                    }
                    Some("pure") => op_pure(&sc),
                    Some("run") => {
                        // a fresh runtime per scenario, clock paused from the start
                        let rt = tokio::runtime::Builder::new_current_thread()
                            .enable_all()
                            .start_paused(true)
                            .build()
                            .unwrap();
                        let r = rt.block_on(op_run(&sc));
                        rt.shutdown_background();
                        r
                    }
                    _ => json!({"ok": false, "error": "unknown op"}),
                }));
                match r {
                    Ok(v) => v,
                    Err(p) => {
                        let msg = p
                            .downcast_ref::<String>()
                            .cloned()
                            .or_else(|| p.downcast_ref::<&str>().map(|s| s.to_string()))
                            .unwrap_or_default();
                        json!({"ok": false, "panic": msg})
                    }
                }
            }
        };
        busy.store(false, Ordering::Relaxed);
        let _ = writeln!(out, "{}", result);
        let _ = out.flush();
    }
}
