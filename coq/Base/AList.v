(* Association lists standing for Rust's HashMap / HashSet: construction by [collect()] from a
   vector is a left fold of [insert] (last binding of a key wins). *)
From GPA Require Export Bytes.

Section AList.
Context {K V : Type} (keq : K -> K -> bool).

Fixpoint alookup (k : K) (m : list (K * V)) : option V :=
  match m with
  | [] => None
  | (k', v) :: t => if keq k k' then Some v else alookup k t
  end.

Definition aremove (k : K) (m : list (K * V)) : list (K * V) :=
  filter (fun kv => negb (keq k (fst kv))) m.

(* HashMap::insert: replaces the value of an existing key *)
Definition ainsert (k : K) (v : V) (m : list (K * V)) : list (K * V) :=
  (k, v) :: aremove k m.

Definition of_pairs (l : list (K * V)) : list (K * V) :=
  fold_left (fun m kv => ainsert (fst kv) (snd kv) m) l [].

Definition akeys (m : list (K * V)) : list K := map fst m.
Definition amem (k : K) (m : list (K * V)) : bool :=
  match alookup k m with Some _ => true | None => false end.
End AList.
