(* Byte strings as [list N] and the handful of Rust string operations the models use.
   Definitions only use structural recursion; every byte is meant to be < 256 ([wf_bytes]).
   Rust [String]s are byte strings that are valid UTF-8; non-ASCII case folding is outside
   the model (see DESIGN.md 2.1). *)
From Coq Require Export List NArith ZArith Bool Lia.
From Coq Require Import Ascii String.
Export ListNotations.
Open Scope N_scope.

Definition byte := N.
Definition bytes := list N.

Definition wf_bytes (s : bytes) : bool := forallb (fun b => b <? 256) s.

Fixpoint beq (a b : bytes) : bool :=
  match a, b with
  | [], [] => true
  | x :: a', y :: b' => (x =? y) && beq a' b'
  | _, _ => false
  end.

Definition is_upper (b : N) : bool := (65 <=? b) && (b <=? 90).
Definition is_lower (b : N) : bool := (97 <=? b) && (b <=? 122).
Definition lower_byte (b : N) : N := if is_upper b then b + 32 else b.
Definition upper_byte (b : N) : N := if is_lower b then b - 32 else b.
Definition lower (s : bytes) : bytes := map lower_byte s.
Definition upper (s : bytes) : bytes := map upper_byte s.

(* [starts_with s p]: p is a prefix of s  (Rust: s.starts_with(p)) *)
Fixpoint starts_with (s p : bytes) : bool :=
  match p, s with
  | [], _ => true
  | y :: p', x :: s' => (x =? y) && starts_with s' p'
  | _ :: _, [] => false
  end.

(* [contains s p]: p occurs in s as a contiguous substring (Rust: s.contains(p)) *)
Fixpoint contains (s p : bytes) : bool :=
  starts_with s p || match s with [] => false | _ :: t => contains t p end.

(* Rust [s.split(c)] for a one-byte separator: always at least one piece *)
Fixpoint split_on (c : N) (s : bytes) : list bytes :=
  match s with
  | [] => [[]]
  | x :: t =>
      if x =? c then [] :: split_on c t
      else match split_on c t with
           | [] => [[x]]           (* unreachable: split_on never returns [] *)
           | h :: r => (x :: h) :: r
           end
  end.

(* Rust [s.splitn(2, c)]: the part before the first c, and the rest if there was a c *)
Fixpoint split_once (c : N) (s : bytes) : bytes * option bytes :=
  match s with
  | [] => ([], None)
  | x :: t =>
      if x =? c then ([], Some t)
      else let '(a, b) := split_once c t in (x :: a, b)
  end.

(* ASCII white space as trimmed by Rust's str::trim on ASCII text *)
Definition is_space (b : N) : bool :=
  (b =? 32) || ((9 <=? b) && (b <=? 13)).
Fixpoint trim_start (s : bytes) : bytes :=
  match s with
  | x :: t => if is_space x then trim_start t else s
  | [] => []
  end.
Definition trim_end (s : bytes) : bytes := rev (trim_start (rev s)).
Definition trim (s : bytes) : bytes := trim_end (trim_start s).

(* join pieces with a separator *)
Fixpoint join (sep : bytes) (l : list bytes) : bytes :=
  match l with
  | [] => []
  | [x] => x
  | x :: t => x ++ sep ++ join sep t
  end.

(* lexicographic byte order (Rust's Ord for str / String) *)
Fixpoint bytes_ltb (a b : bytes) : bool :=
  match a, b with
  | [], [] => false
  | [], _ :: _ => true
  | _ :: _, [] => false
  | x :: a', y :: b' => (x <? y) || ((x =? y) && bytes_ltb a' b')
  end.
Definition bytes_leb (a b : bytes) : bool := negb (bytes_ltb b a).

(* decimal printing of a number (Rust's to_string on unsigned integers) *)
Fixpoint dec_fuel (fuel : nat) (n : N) (acc : bytes) : bytes :=
  match fuel with
  | O => acc
  | S f =>
      let d := 48 + n mod 10 in
      if n <? 10 then d :: acc else dec_fuel f (n / 10) (d :: acc)
  end.
Definition dec (n : N) : bytes := dec_fuel (S (N.size_nat n)) n [].

(* decimal parsing (digits only, at least one); None otherwise *)
Definition is_digit (b : N) : bool := (48 <=? b) && (b <=? 57).
Fixpoint undec_acc (s : bytes) (acc : N) : option N :=
  match s with
  | [] => Some acc
  | x :: t => if is_digit x then undec_acc t (acc * 10 + (x - 48)) else None
  end.
Definition undec (s : bytes) : option N :=
  match s with [] => None | _ => undec_acc s 0 end.

(* literals *)
Definition byte_of_ascii (a : ascii) : N := N_of_ascii a.
Fixpoint of_string (s : string) : bytes :=
  match s with
  | EmptyString => []
  | String a r => byte_of_ascii a :: of_string r
  end.
Notation "'B' s" := (of_string s%string) (at level 9, s at level 0, only parsing).

Fixpoint insert_sorted {A} (ltb : A -> A -> bool) (x : A) (l : list A) : list A :=
  match l with
  | [] => [x]
  | y :: t => if ltb x y then x :: l else y :: insert_sorted ltb x t
  end.
Definition isort {A} (ltb : A -> A -> bool) (l : list A) : list A :=
  fold_right (insert_sorted ltb) [] l.
