(* C07 -- model of how a TCP connection accepted by the proxy listener gets its identity.
   Mirrors
     proxy_agent/src/proxy/proxy_connection.rs  TcpConnectionContext::get_audit_entry
         (redirector::lookup_audit(source_port) and THEN, as a second, separately scheduled step,
          redirector::remove_audit(source_port); a failing remove is only logged) and
         TcpConnectionContext::new (the context is derived from the looked-up entry, or is
         "claims None / destination None" when the lookup fails);
     proxy_agent/src/redirector.rs  lookup_audit / remove_audit (a map keyed by the SOURCE PORT
         alone; under the verification cfg the stand-in map verif_hooks::AUDIT);
     proxy_agent/src/proxy/proxy_server.rs  handle_new_tcp_connection (the context is built once
         per accepted connection inside the spawned task and a clone of it is handed to every
         request's handler: service_fn closure).
   Definitions only; proofs are in Proofs/AcceptProofs.v, the property theorems in Props/C07.v.

   The model is generic in the record type [R] (the kernel's audit entry: the model never looks
   inside it) and the request type [Q].  A connection's context is [option R]: [Some e] = "built
   from entry e" (claims and destination are functions of e and of the OS tables, see
   Claims::from_audit_entry), [None] = unattributed (claims None, destination None -> 421, C01).

   The accept of a connection is TWO steps, [Lookup] and [Remove], because they are two separate
   calls with an await point between them (and run on a multi-threaded runtime): steps of other
   connections and kernel writes may be scheduled in between.  A history is any list of [op]s. *)
From GPA Require Export AList.

Section Accept.
Context {R Q : Type}.

Record cstate := {
  cs_port : N;            (* client_addr.port() *)
  cs_ctx : option R;      (* what TcpConnectionContext::new derived the context from *)
  cs_pending : bool;      (* lookup succeeded, remove_audit not yet executed *)
}.

Record state := {
  audit : list (N * R);          (* the audit map: source port -> entry *)
  conns : list (N * cstate);     (* tcp_connection_id -> context (written once) *)
}.

Inductive op :=
| KRecord (c : N) (p : N) (e : R)   (* the kernel's connect hook writes entry e under source port p;
                                       [c] is a GHOST tag: the connection this write was made for
                                       (never read by [step]) *)
| Lookup (c : N) (p : N)            (* connection c accepted from source port p: lookup_audit(p) *)
| Remove (c : N) (ok : bool)        (* c's remove_audit(p); executed only when the lookup found an
                                       entry; ok = false: the map delete fails (only logged) *)
| Request (c : N) (r : Q)           (* one HTTP request on connection c (keep-alive: any number) *)
| Close (c : N).                    (* the connection task ends (no effect on attribution) *)

Inductive out :=
| Decided (c : N) (r : Q) (x : option R).   (* request r on c was handled with context x *)

Definition init : state := {| audit := []; conns := [] |}.

Definition conn_of (s : state) (c : N) : option cstate := alookup N.eqb c (conns s).

Definition is_some {A} (o : option A) : bool := match o with Some _ => true | None => false end.

Definition set_pending (cs : cstate) (b : bool) : cstate :=
  {| cs_port := cs_port cs; cs_ctx := cs_ctx cs; cs_pending := b |}.

Definition step (s : state) (o : op) : state * list out :=
  match o with
  | KRecord _ p e =>
      ({| audit := ainsert N.eqb p e (audit s); conns := conns s |}, [])
  | Lookup c p =>
      match conn_of s c with
      | Some _ => (s, [])                   (* connection ids are a counter: never accepted twice *)
      | None =>
          let x := alookup N.eqb p (audit s) in
          ({| audit := audit s;
              conns := ainsert N.eqb c {| cs_port := p; cs_ctx := x; cs_pending := is_some x |}
                               (conns s) |}, [])
      end
  | Remove c ok =>
      match conn_of s c with
      | Some cs =>
          if cs_pending cs then
            ({| audit := if ok then aremove N.eqb (cs_port cs) (audit s) else audit s;
                conns := ainsert N.eqb c (set_pending cs false) (conns s) |}, [])
          else (s, [])
      | None => (s, [])
      end
  | Request c r =>
      (* handle_new_http_request(req, cloned_tcp_connection_context.clone()) *)
      match conn_of s c with
      | Some cs => (s, [Decided c r (cs_ctx cs)])
      | None => (s, [])                     (* no such connection: nothing is served *)
      end
  | Close c => (s, [])                      (* the context is dropped with the task; ids are never
                                               reused, so the table entry is simply left behind *)
  end.

Fixpoint run (s : state) (h : list op) : state * list out :=
  match h with
  | [] => (s, [])
  | o :: t => let '(s1, o1) := step s o in let '(s2, o2) := run s1 t in (s2, o1 ++ o2)
  end.

Definition final (s : state) (h : list op) : state := fst (run s h).
Definition outs (s : state) (h : list op) : list out := snd (run s h).

(* the context of connection c in a state: None = c was never accepted *)
Definition ctx_in (s : state) (c : N) : option (option R) :=
  match conn_of s c with Some cs => Some (cs_ctx cs) | None => None end.

(* ---------------------------------------------------------------------------------------------
   The ATOMIC specification: accept = look the entry up and consume it in one indivisible step.
   [spec_run] maps an implementation history to what the atomic machine does with it (a Lookup is
   the atomic accept, a Remove is nothing). *)
Definition spec_step (s : state) (o : op) : state * list out :=
  match o with
  | Lookup c p =>
      match conn_of s c with
      | Some _ => (s, [])
      | None =>
          let x := alookup N.eqb p (audit s) in
          ({| audit := aremove N.eqb p (audit s);
              conns := ainsert N.eqb c {| cs_port := p; cs_ctx := x; cs_pending := false |}
                               (conns s) |}, [])
      end
  | Remove _ _ => (s, [])
  | _ => step s o
  end.

Fixpoint spec_run (s : state) (h : list op) : state * list out :=
  match h with
  | [] => (s, [])
  | o :: t => let '(s1, o1) := spec_step s o in let '(s2, o2) := spec_run s1 t in (s2, o1 ++ o2)
  end.

(* ---------------------------------------------------------------------------------------------
   The environment assumption, as a monitor over histories (ghost; never consulted by [step]).

   SOURCE-PORT EXCLUSIVITY.  The audit map is keyed by the source port alone, so the code relies
   on: from the kernel's write for connection c under port p until c's own remove step,
   nothing else happens on port p -- no second kernel write to p, no other connection accepted
   from p.  (TCP guarantees that two live connections to the listener never share the 4-tuple;
   with a single local address that is "never share the source port".  It does NOT follow from
   TCP when the VM has several local addresses, nor does TCP order one connection's accept
   processing before the next connection's connect; see notes/C07.md.)
   Per port the monitor tracks:
     Idle            no record owed to anybody
     Written c e     the kernel wrote e for connection c, c not yet looked up
     Looked c        c looked its record up, its remove step is still to come
   and it goes [bad] exactly when a step on port p falls inside another connection's window, or
   a connection id / ghost tag is reused.  Steps on different ports, requests and closes are
   unconstrained: every interleaving of those is an exclusive history. *)
Inductive phase := Idle | Written (c : N) (e : R) | Looked (c : N).

Record mon := {
  ph : list (N * phase);
  seen : list (N * N);        (* accepted connection -> its source port *)
  bad : bool;
}.

Definition mon0 : mon := {| ph := []; seen := []; bad := false |}.

Definition phase_of (m : mon) (p : N) : phase :=
  match alookup N.eqb p (ph m) with Some x => x | None => Idle end.

Definition mfail (m : mon) : mon := {| ph := ph m; seen := seen m; bad := true |}.
Definition mset (m : mon) (p : N) (x : phase) : mon :=
  {| ph := ainsert N.eqb p x (ph m); seen := seen m; bad := bad m |}.
Definition msee (m : mon) (c p : N) : mon :=
  {| ph := ph m; seen := ainsert N.eqb c p (seen m); bad := bad m |}.

Definition mstep (m : mon) (o : op) : mon :=
  match o with
  | KRecord c p e =>
      match phase_of m p, alookup N.eqb c (seen m) with
      | Idle, None => mset m p (Written c e)
      | _, _ => mfail m
      end
  | Lookup c p =>
      match alookup N.eqb c (seen m) with
      | Some _ => mfail m
      | None =>
          match phase_of m p with
          | Idle => msee m c p
          | Written c' _ => if c' =? c then msee (mset m p (Looked c)) c p else mfail m
          | Looked _ => mfail m
          end
      end
  | Remove c _ =>
      match alookup N.eqb c (seen m) with
      | Some p =>
          match phase_of m p with
          | Looked c' => if c' =? c then mset m p Idle else m
          | _ => m
          end
      | None => m
      end
  | Request _ _ | Close _ => m
  end.

Definition mrun (m : mon) (h : list op) : mon := fold_left mstep h m.

Definition exclusive (h : list op) : bool := negb (bad (mrun mon0 h)).

(* every map delete succeeds (the hypothesis under which the record is consumed) *)
Definition removes_ok (h : list op) : bool :=
  forallb (fun o => match o with Remove _ ok => ok | _ => true end) h.

Definition no_krecord_on (p : N) (h : list op) : bool :=
  forallb (fun o => match o with KRecord _ p' _ => negb (p' =? p) | _ => true end) h.

Definition no_lookup_of (c : N) (h : list op) : bool :=
  forallb (fun o => match o with Lookup c' _ => negb (c' =? c) | _ => true end) h.

End Accept.

Arguments cstate : clear implicits.
Arguments state : clear implicits.
Arguments op : clear implicits.
Arguments out : clear implicits.
Arguments phase : clear implicits.
Arguments mon : clear implicits.
