(* C06 -- refinement of Model/Ebpf.v to per-helper-call granularity with a failure oracle.
   The map helper calls of one hook run are numbered 1, 2, 3, ... in execution order (lookups
   included).  [fails n = true] means: the n-th call, if it is a bpf_map_update_elem or a
   bpf_map_delete_elem, returns an error (-EBUSY / -ENOMEM / -E2BIG ...) and has NO effect.
   bpf_map_lookup_elem cannot fail in the kernel (it returns NULL only when the key is absent), so
   lookups ignore the oracle.  Return codes are checked or ignored exactly as ebpf_cgroup.c does:
   every update / delete result is only passed to bpf_printk.
   Definitions only; proofs are in Proofs/EbpfFaultsProofs.v. *)
From GPA Require Export Ebpf.

Definition oracle := nat -> bool.
Definition no_fail : oracle := fun _ => false.
Definition fail_at (k : nat) : oracle := fun n => Nat.eqb n k.

(* an update / delete helper call under the oracle: (map afterwards, return code) *)
Definition EFAULT_RET : N := 16.   (* any non-zero value: the programs only compare with 0 *)
Definition lru_update_f (fail : bool) (cap : N) (k v : words) (m : wmap) : wmap * N :=
  if fail then (m, EFAULT_RET) else lru_update cap k v m.
Definition map_delete_f (fail : bool) (k : words) (m : wmap) : wmap * N :=
  if fail then (m, EFAULT_RET) else map_delete k m.

(* update_local_map_entry: helper call [c] = skip_process_map lookup, [c+1] = local_map update *)
Definition update_local_map_entry_f (f : oracle) (c : nat) (sh : shifts) (s : kstate) (t : task) (ctx : sockaddr)
  : kstate * N :=
  let pid_tip := get_current_pid_tgid t in
  let pid := pid_of t in
  if check_skip_process_map_entry s pid =? 1 then (s, 1)            (* call c: lookup *)
  else
    let entry := local_entry_of sh t ctx in
    let '(m, _ret) := lru_update_f (f (S c)) local_cap (key64 pid_tip) entry (local s) in   (* call c+1 *)
    (* if (ret != 0) bpf_printk(...) else bpf_printk(...);  -- the result is only logged *)
    (set_local s m, 0).

(* authorize_v4: call 1 = policy_map lookup, then update_local_map_entry from call 2 *)
Definition authorize_v4_f (f : oracle) (sh : shifts) (s : kstate) (t : task) (ctx : sockaddr)
  : kstate * sockaddr * N :=
  let entry := c_destination_entry (sa_ip ctx) (sa_port ctx) (sa_proto ctx) in
  match wlookup entry (policy s) with                                (* call 1: lookup *)
  | Some pol =>
      let '(s1, r) := update_local_map_entry_f f 2%nat sh s t ctx in
      if r =? 1 then (s1, ctx, PROCEED)
      else (s1, {| sa_ip := de_ipv4 pol; sa_port := de_port pol; sa_proto := sa_proto ctx |}, PROCEED)
  | None => (s, ctx, PROCEED)
  end.
Definition connect4_f := authorize_v4_f.

(* update_audit_map_entry_sk: helper call [c] = audit_map update, result only logged *)
Definition update_audit_map_entry_sk_f (f : oracle) (c : nat) (s : kstate) (local_port : N) (local_entry : words) : kstate :=
  let key := c_audit_key (le_proto local_entry) local_port in
  let entry := c_audit_entry (le_logon local_entry) (le_pid local_entry) (le_is_root local_entry)
                             (le_ip local_entry) (le_port local_entry) in
  let '(m, _ret) := lru_update_f (f c) audit_cap key entry (audit s) in
  set_audit s m.

(* trace_v4: call 1 = skip lookup, call 2 = local_map lookup; then either
   call 3 = audit_map update, call 4 = local_map delete, or
   call 3 = policy_map lookup, call 4 = audit_map update *)
Definition trace_v4_f (f : oracle) (sh : shifts) (s : kstate) (t : task) (skc : sock) : kstate * N :=
  if negb (skc_family skc =? AF_INET) then (s, 0)
  else
    let pid_tgid := get_current_pid_tgid t in
    let pid := pid_of t in
    if check_skip_process_map_entry s pid =? 1 then (s, 0)          (* call 1 *)
    else
      match wlookup (key64 pid_tgid) (local s) with                  (* call 2 *)
      | Some local_entry =>
          let s0 := set_local s (lru_touch (key64 pid_tgid) (local s)) in
          let s1 := update_audit_map_entry_sk_f f 3%nat s0 (skc_num skc) local_entry in   (* call 3 *)
          let '(m, _ret) := map_delete_f (f 4%nat) (key64 pid_tgid) (local s1) in          (* call 4, result only logged *)
          (set_local s1 m, 0)
      | None =>
          let entry := c_destination_entry (skc_daddr skc) (skc_dport skc) IPPROTO_TCP in
          match wlookup entry (policy s) with                        (* call 3 *)
          | Some _ =>
              let uid := uid_at (sh_tcp_connect sh) t in
              let key := c_audit_key IPPROTO_TCP (skc_num skc) in
              let entry := c_audit_entry uid pid (if uid =? 0 then 1 else 0) (skc_daddr skc) (skc_dport skc) in
              let '(m, _ret) := lru_update_f (f 4%nat) audit_cap key entry (audit s) in     (* call 4 *)
              (set_audit s m, 0)
          | None => (s, 0)
          end
      end.
Definition tcp_v4_connect_f := trace_v4_f.

(* events and script lines under an oracle *)
Definition kstep_f (f : oracle) (sh : shifts) (s : kstate) (ev : event) : kstate * list N :=
  match ev with
  | EConnect4 t sa =>
      let '(s', sa', r) := connect4_f f sh s t sa in (s', [r; sa_ip sa'; sa_port sa'])
  | ETcpConnect t family num daddr dport =>
      let '(s', r) := tcp_v4_connect_f f sh s t (mk_sock family num daddr dport) in (s', [r])
  | _ => kstep sh s ev
  end.

Definition lstep_f (f : oracle) (sh : shifts) (w : kstate * inflight) (l : line) : (kstate * inflight) * list N :=
  let '(s, fl) := w in
  match l with
  | LEvent (EConnect4 t sa as ev) =>
      let '(s', o) := kstep_f f sh s ev in
      let k := get_current_pid_tgid t in
      ((s', (k, (nth 1 o 0, nth 2 o 0)) :: iremove k fl), o)
  | LEvent ev => let '(s', o) := kstep_f f sh s ev in ((s', fl), o)
  | LTcpInflight t sport =>
      let k := get_current_pid_tgid t in
      match ilookup k fl with
      | Some (ip, port) =>
          let '(s', o) := kstep_f f sh s (ETcpConnect t KERNEL_AF_INET sport ip port) in ((s', iremove k fl), o)
      | None => ((s, fl), [ENOINFLIGHT])
      end
  end.

(* scripts with fault lines: [FFail k] arms "the k-th map helper call of the NEXT hook run fails";
   it is disarmed at the end of that run (driver line `FAILN k errno`) *)
Inductive fline :=
| FLine (l : line)
| FFail (k : nat).

Definition is_hook_line (l : line) : bool :=
  match l with
  | LEvent (EConnect4 _ _) | LEvent (ETcpConnect _ _ _ _ _) => true
  | LTcpInflight _ _ => true
  | _ => false
  end.

Fixpoint run_script_f_last (sh : shifts) (w : kstate * inflight) (armed : option nat) (ls : list fline) (h : Uint63.int)
  : Uint63.int :=
  match ls with
  | [] => h
  | FFail k :: rest => run_script_f_last sh w (Some k) rest (hline h [] (fst w))
  | FLine l :: rest =>
      let f := match armed with Some k => fail_at k | None => no_fail end in
      let '(w', o) := lstep_f f sh w l in
      run_script_f_last sh w' (if is_hook_line l then None else armed) rest (hline h o (fst w'))
  end.
Definition run_script_fd (ls : list fline) : N :=
  N_of_int (run_script_f_last cur_sh (kinit, []) None ls (Uint63.of_Z 7)).

(* the scenario of the loss witnesses: the agent protects WireServer, task (uid 1000) connects from source
   port 40000, connect4 under oracle f1, the kprobe under f2: (ctx after connect4, what lookup_audit reads,
   the thread's hand-over entry afterwards) *)
Definition loss_witness (f1 f2 : oracle) : sockaddr * option audit_entry * option words :=
  let ip := Consts.wire_server_ip_network_byte_order in
  let port := Consts.wire_server_port in
  let t := {| tgid := 100; tid := 101; uid := 1000; gid := 1000 |} in
  let s0 := krun cur_sh kinit [agent_policy_add ip port Consts.proxy_agent_port] in
  let '(s1, ctx', _) := connect4_f f1 cur_sh s0 t (connect_ctx ip port IPPROTO_TCP) in
  let s3 := fst (kstep_f f2 cur_sh s1 (ETcpConnect t KERNEL_AF_INET 40000 (sa_ip ctx') (sa_port ctx'))) in
  (ctx', lookup_audit s3 40000, wlookup (thread_key t) (local s3)).
