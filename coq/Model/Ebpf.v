(* C06 -- model of the kernel redirect hook and of the agent's view of its maps.
   Mirrors, statement by statement:
     linux-ebpf/ebpf_cgroup.c      check_skip_process_map_entry, update_local_map_entry,
                                   authorize_v4 / connect4, update_audit_map_entry_sk, trace_v4 /
                                   BPF_KPROBE(tcp_v4_connect)
     linux-ebpf/socket.h           the key / value structs (every field is a __u32, so a struct is the
                                   list of its fields in declaration order = its little-endian u32 image)
     proxy_agent/src/redirector/linux/ebpf_obj.rs   destination_entry::from_ipv4/to_array,
                                   sock_addr_skip_process_entry::from_pid, sock_addr_audit_key::
                                   from_source_port, sock_addr_audit_entry::from_array
     proxy_agent/src/redirector/linux.rs            update_skip_process_map, update_policy_elem_bpf_map,
                                   update_redirect_policy, lookup_audit, remove_audit_map_entry
     proxy_agent/src/redirector.rs AuditEntry::destination_port_in_host_byte_order /
                                   destination_ipv4_addr, ip_to_string, string_to_ip
   The kernel side (maps, helpers) follows the UAPI documentation in linux/bpf.h exactly as
   ebpf_user/maps.c implements it.  All integers are N with the C widths written out.
   Definitions only; proofs are in Proofs/EbpfProofs.v. *)
From GPA Require Export Bytes Consts.
From Coq Require Uint63.

Definition words := list N.

(* ---------------------------------------------------------------------------------------- *)
(* fixed-width arithmetic                                                                     *)
(* ---------------------------------------------------------------------------------------- *)
Definition two16 : N := 65536.
Definition two32 : N := 4294967296.
Definition u16 (x : N) : N := x mod two16.
Definition u32 (x : N) : N := x mod two32.
(* byte swap of a 16-bit value: what htons / u16::to_be / u16::from_be do on little-endian x86-64 *)
Definition bswap16 (x : N) : N := (x mod 256) * 256 + (x / 256) mod 256.
Definition bswap32 (x : N) : N :=
  (x mod 256) * 16777216 + ((x / 256) mod 256) * 65536 + ((x / 65536) mod 256) * 256 + (x / 16777216) mod 256.

(* ---------------------------------------------------------------------------------------- *)
(* maps: lists of (key words, value words).  HASH: insertion order.  LRU_HASH: most recently *)
(* used first.  (ebpf_user/maps.c lookup / update / delete)                                  *)
(* ---------------------------------------------------------------------------------------- *)
Definition wmap := list (words * words).

Fixpoint wlookup (k : words) (m : wmap) : option words :=
  match m with
  | [] => None
  | (k', v) :: t => if beq k k' then Some v else wlookup k t
  end.
Definition wmem (k : words) (m : wmap) : bool :=
  match wlookup k m with Some _ => true | None => false end.
Definition wremove (k : words) (m : wmap) : wmap :=
  filter (fun kv => negb (beq k (fst kv))) m.
Fixpoint wreplace (k v : words) (m : wmap) : wmap :=
  match m with
  | [] => []
  | (k', v') :: t => if beq k k' then (k', v) :: t else (k', v') :: wreplace k v t
  end.
Definition wlen (m : wmap) : N := N.of_nat (length m).

Definition E2BIG : N := 7.
Definition ENOENT : N := 2.
Definition EBADSIZE : N := 1000.   (* the driver's code for "aya would refuse this key/value size" *)
Definition ENOINFLIGHT : N := 1001. (* the driver's code for a TC line without a preceding C4 *)

(* BPF_MAP_TYPE_HASH, flags = BPF_ANY *)
Definition hash_update (cap : N) (k v : words) (m : wmap) : wmap * N :=
  if wmem k m then (wreplace k v m, 0)
  else if cap <=? wlen m then (m, E2BIG)
  else (m ++ [(k, v)], 0).
Definition map_delete (k : words) (m : wmap) : wmap * N :=
  if wmem k m then (wremove k m, 0) else (m, ENOENT).

(* BPF_MAP_TYPE_LRU_HASH, flags = BPF_ANY: a new key in a full map evicts the least recently used *)
Definition lru_update (cap : N) (k v : words) (m : wmap) : wmap * N :=
  if wmem k m then ((k, v) :: wremove k m, 0)
  else if cap <=? wlen m then ((k, v) :: removelast m, 0)
  else ((k, v) :: m, 0).
(* a lookup by a BPF program marks the entry as recently used; a bpf(2) lookup does not *)
Definition lru_touch (k : words) (m : wmap) : wmap :=
  match wlookup k m with Some v => (k, v) :: wremove k m | None => m end.

Record kstate := {
  policy : wmap;   (* policy_map        HASH      destination_entry -> destination_entry *)
  skip   : wmap;   (* skip_process_map  HASH      sock_addr_skip_process_entry -> same *)
  audit  : wmap;   (* audit_map         LRU_HASH  sock_addr_audit_key -> sock_addr_audit_entry *)
  local  : wmap;   (* local_map         LRU_HASH  __u64 pid_tgid -> sock_addr_local_entry *)
}.
Definition kinit : kstate := {| policy := []; skip := []; audit := []; local := [] |}.
Definition set_policy (s : kstate) (m : wmap) := {| policy := m; skip := skip s; audit := audit s; local := local s |}.
Definition set_skip (s : kstate) (m : wmap) := {| policy := policy s; skip := m; audit := audit s; local := local s |}.
Definition set_audit (s : kstate) (m : wmap) := {| policy := policy s; skip := skip s; audit := m; local := local s |}.
Definition set_local (s : kstate) (m : wmap) := {| policy := policy s; skip := skip s; audit := audit s; local := m |}.

Definition policy_cap : N := Consts.ebpf_policy_map_max_entries.
Definition skip_cap : N := Consts.ebpf_skip_process_map_max_entries.
Definition audit_cap : N := Consts.ebpf_audit_map_max_entries.
Definition local_cap : N := Consts.ebpf_local_map_max_entries.

(* ---------------------------------------------------------------------------------------- *)
(* the current task and the two helpers (linux/bpf.h)                                        *)
(* ---------------------------------------------------------------------------------------- *)
Record task := { tgid : N; tid : N; uid : N; gid : N }.
Definition wf_task (t : task) : bool :=
  (tgid t <? two32) && (tid t <? two32) && (uid t <? two32) && (gid t <? two32).
(* u64 bpf_get_current_pid_tgid(void): current_task->tgid << 32 | current_task->pid *)
Definition get_current_pid_tgid (t : task) : N := u32 (tgid t) * two32 + u32 (tid t).
(* u64 bpf_get_current_uid_gid(void): current_gid << 32 | current_uid *)
Definition get_current_uid_gid (t : task) : N := u32 (gid t) * two32 + u32 (uid t).
(* image of a __u64 key *)
Definition key64 (x : N) : words := [x mod two32; (x / two32) mod two32].

(* which bits of bpf_get_current_uid_gid() the program records as the user id at its two sites:
   (__u32)(x >> shift).  The program as pinned takes 32 at both; tools/gen_consts.py re-reads the
   two expressions from ebpf_cgroup.c on every run. *)
Record shifts := { sh_connect4 : N; sh_tcp_connect : N }.
Definition cur_sh : shifts :=
  {| sh_connect4 := Consts.ebpf_uid_shift_connect4; sh_tcp_connect := Consts.ebpf_uid_shift_tcp_connect |}.
Definition sh_pinned : shifts := {| sh_connect4 := 32; sh_tcp_connect := 32 |}.
Definition sh_repaired : shifts := {| sh_connect4 := 0; sh_tcp_connect := 0 |}.

(* ---------------------------------------------------------------------------------------- *)
(* socket.h structs as word images                                                           *)
(* ---------------------------------------------------------------------------------------- *)
Definition IPPROTO_TCP : N := Consts.ebpf_ipproto_tcp.
Definition AF_INET : N := Consts.ebpf_af_inet.
Definition PROCEED : N := Consts.ebpf_bpf_sock_addr_verdict_proceed.

(* destination_entry { ip_address destination_ip (union, 4 words); __u32 destination_port; __u32 protocol } *)
Definition c_destination_entry (ipv4 port proto : N) : words := [ipv4; 0; 0; 0; port; proto].
Definition de_ipv4 (e : words) : N := nth 0 e 0.
Definition de_port (e : words) : N := nth 4 e 0.
(* sock_addr_skip_process_entry { __u32 pid } *)
Definition c_skip_entry (pid : N) : words := [pid].
(* sock_addr_audit_key { __u32 protocol; __u32 source_port } *)
Definition c_audit_key (proto sport : N) : words := [proto; sport].
(* sock_addr_audit_entry { logon_id; process_id; is_root; destination_ipv4; destination_port } *)
Definition c_audit_entry (logon pid is_root ip port : N) : words := [logon; pid; is_root; ip; port].
(* sock_addr_local_entry { logon_id; process_id; is_root; destination_ipv4; destination_port; protocol } *)
Definition c_local_entry (logon pid is_root ip port proto : N) : words := [logon; pid; is_root; ip; port; proto].
Definition le_logon (e : words) := nth 0 e 0.
Definition le_pid (e : words) := nth 1 e 0.
Definition le_is_root (e : words) := nth 2 e 0.
Definition le_ip (e : words) := nth 3 e 0.
Definition le_port (e : words) := nth 4 e 0.
Definition le_proto (e : words) := nth 5 e 0.

(* the fields of struct bpf_sock_addr the program reads and writes, as the kernel presents them:
   user_ip4 and user_port in network byte order (user_port = the 16-bit sin_port zero-extended) *)
Record sockaddr := { sa_ip : N; sa_port : N; sa_proto : N }.
(* the ctx of connect(2) to ip:port (ip as the u32 read from sin_addr, e.g. 0x10813FA8 for
   168.63.129.16 on little-endian; port in host order) on a socket of the given protocol *)
Definition connect_ctx (ip port proto : N) : sockaddr :=
  {| sa_ip := u32 ip; sa_port := bswap16 (u16 port); sa_proto := u32 proto |}.

(* the fields of struct sock_common the kprobe reads *)
Record sock := { skc_family : N; skc_num : N; skc_daddr : N; skc_dport : N }.
(* field widths: unsigned short skc_family; __u16 skc_num; __be32 skc_daddr; __be16 skc_dport *)
Definition mk_sock (family num daddr dport : N) : sock :=
  {| skc_family := u16 family; skc_num := u16 num; skc_daddr := u32 daddr; skc_dport := u16 dport |}.

(* ---------------------------------------------------------------------------------------- *)
(* ebpf_cgroup.c                                                                             *)
(* ---------------------------------------------------------------------------------------- *)
Definition check_skip_process_map_entry (s : kstate) (pid : N) : N :=
  match wlookup (c_skip_entry pid) (skip s) with Some _ => 1 | None => 0 end.

Definition uid_at (shift : N) (t : task) : N := u32 (N.shiftr (get_current_uid_gid t) shift).
Definition pid_of (t : task) : N := u32 (N.shiftr (get_current_pid_tgid t) 32).

Definition local_entry_of (sh : shifts) (t : task) (ctx : sockaddr) : words :=
  let uid := uid_at (sh_connect4 sh) t in
  c_local_entry uid (pid_of t) (if uid =? 0 then 1 else 0) (sa_ip ctx) (sa_port ctx) (sa_proto ctx).

Definition update_local_map_entry (sh : shifts) (s : kstate) (t : task) (ctx : sockaddr) : kstate * N :=
  let pid_tip := get_current_pid_tgid t in
  let pid := pid_of t in
  if check_skip_process_map_entry s pid =? 1 then (s, 1)
  else
    let entry := local_entry_of sh t ctx in
    let '(m, _ret) := lru_update local_cap (key64 pid_tip) entry (local s) in
    (set_local s m, 0).

Definition authorize_v4 (sh : shifts) (s : kstate) (t : task) (ctx : sockaddr) : kstate * sockaddr * N :=
  let entry := c_destination_entry (sa_ip ctx) (sa_port ctx) (sa_proto ctx) in
  match wlookup entry (policy s) with
  | Some pol =>
      let '(s1, r) := update_local_map_entry sh s t ctx in
      if r =? 1 then (s1, ctx, PROCEED)
      else (s1, {| sa_ip := de_ipv4 pol; sa_port := de_port pol; sa_proto := sa_proto ctx |}, PROCEED)
  | None => (s, ctx, PROCEED)
  end.

(* SEC("cgroup/connect4") *)
Definition connect4 := authorize_v4.

Definition update_audit_map_entry_sk (s : kstate) (local_port : N) (local_entry : words) : kstate :=
  let key := c_audit_key (le_proto local_entry) local_port in
  let entry := c_audit_entry (le_logon local_entry) (le_pid local_entry) (le_is_root local_entry)
                             (le_ip local_entry) (le_port local_entry) in
  let '(m, _ret) := lru_update audit_cap key entry (audit s) in
  set_audit s m.

Definition trace_v4 (sh : shifts) (s : kstate) (t : task) (skc : sock) : kstate * N :=
  if negb (skc_family skc =? AF_INET) then (s, 0)
  else
    let pid_tgid := get_current_pid_tgid t in
    let pid := pid_of t in
    if check_skip_process_map_entry s pid =? 1 then (s, 0)
    else
      match wlookup (key64 pid_tgid) (local s) with
      | Some local_entry =>
          let s0 := set_local s (lru_touch (key64 pid_tgid) (local s)) in
          let s1 := update_audit_map_entry_sk s0 (skc_num skc) local_entry in
          let '(m, _ret) := map_delete (key64 pid_tgid) (local s1) in
          (set_local s1 m, 0)
      | None =>
          let entry := c_destination_entry (skc_daddr skc) (skc_dport skc) IPPROTO_TCP in
          match wlookup entry (policy s) with
          | Some _ =>
              let uid := uid_at (sh_tcp_connect sh) t in
              let key := c_audit_key IPPROTO_TCP (skc_num skc) in
              let entry := c_audit_entry uid pid (if uid =? 0 then 1 else 0) (skc_daddr skc) (skc_dport skc) in
              let '(m, _ret) := lru_update audit_cap key entry (audit s) in
              (set_audit s m, 0)
          | None => (s, 0)
          end
      end.

(* SEC("kprobe/tcp_v4_connect"), attached to tcp_connect *)
Definition tcp_v4_connect := trace_v4.

(* ---------------------------------------------------------------------------------------- *)
(* the agent's encoders / decoders (ebpf_obj.rs, linux.rs, redirector.rs)                    *)
(* ---------------------------------------------------------------------------------------- *)
Definition RUST_IPPROTO_TCP : N := Consts.rust_ipproto_tcp.
(* u16::to_be / u16::from_be on little-endian *)
Definition to_be16 (p : N) : N := bswap16 (u16 p).
(* destination_entry::from_ipv4(ipv4, port).to_array() *)
Definition destination_entry_from_ipv4 (ipv4 port : N) : words :=
  [u32 ipv4; 0; 0; 0; to_be16 port; RUST_IPPROTO_TCP].
(* sock_addr_skip_process_entry::from_pid(pid).to_array() *)
Definition skip_entry_from_pid (pid : N) : words := [u32 pid].
(* sock_addr_audit_key::from_source_port(port).to_array() *)
Definition audit_key_from_source_port (port : N) : words := [RUST_IPPROTO_TCP; u16 port].

(* ip_to_string *)
Definition dot : N := 46.
Definition ip_to_string (ip : N) : bytes :=
  dec (ip mod 256) ++ [dot] ++ dec ((ip / 256) mod 256) ++ [dot] ++
  dec ((ip / 256 / 256) mod 256) ++ [dot] ++ dec ((ip / 256 / 256 / 256) mod 256).

(* str::parse::<u8>(): an optional '+', then at least one digit, value <= 255 *)
Definition parse_u8 (s : bytes) : option N :=
  let digits := match s with
                | 43 :: (_ :: _) as rest => rest
                | _ => s
                end in
  match undec digits with
  | Some n => if n <=? 255 then Some n else None
  | None => None
  end.

Fixpoint string_to_ip_loop (segs : list bytes) (ip seg : N) : N :=
  match segs with
  | [] => ip
  | s :: rest =>
      match parse_u8 s with
      | Some n =>
          let ip' := u32 (ip + n * seg) in
          string_to_ip_loop rest ip' (if seg <? 16777216 then seg * 256 else seg)
      | None => 0
      end
  end.
Definition string_to_ip (s : bytes) : N :=
  let segs := split_on dot s in
  if negb (length segs =? 4)%nat then 0 else string_to_ip_loop segs 0 1.

(* AuditEntry as lookup_audit builds it from sock_addr_audit_entry::from_array(value) *)
Record audit_entry := {
  ae_logon_id : N;           (* u64 *)
  ae_process_id : N;         (* u32 *)
  ae_is_admin : Z;           (* i32 *)
  ae_destination_ipv4 : N;   (* u32, network byte order *)
  ae_destination_port : N;   (* u16, network byte order *)
}.
Definition as_i32 (x : N) : Z := if x <? 2147483648 then Z.of_N x else (Z.of_N x - 4294967296)%Z.
(* sock_addr_audit_entry::from_array: logon_id, process_id, is_root, destination_ipv4, destination_port;
   lookup_audit: logon_id as u64, process_id, is_root as i32, destination_ipv4, destination_port as u16 *)
Definition audit_entry_of_array (a : words) : audit_entry :=
  {| ae_logon_id := nth 0 a 0;
     ae_process_id := nth 1 a 0;
     ae_is_admin := as_i32 (nth 2 a 0);
     ae_destination_ipv4 := nth 3 a 0;
     ae_destination_port := u16 (nth 4 a 0) |}.
(* AuditEntry::destination_port_in_host_byte_order: u16::from_be *)
Definition destination_port_in_host_byte_order (e : audit_entry) : N := bswap16 (ae_destination_port e).
(* AuditEntry::destination_ipv4_addr: Ipv4Addr::from_bits(ip.to_be()), as its four octets *)
Definition ipv4_octets_of_bits (x : N) : list N :=
  [(x / 16777216) mod 256; (x / 65536) mod 256; (x / 256) mod 256; x mod 256].
Definition destination_ipv4_addr (e : audit_entry) : list N :=
  ipv4_octets_of_bits (bswap32 (ae_destination_ipv4 e)).

(* BpfObject::lookup_audit(source_port): bpf(2) lookup, no LRU refresh *)
Definition lookup_audit (s : kstate) (source_port : N) : option audit_entry :=
  match wlookup (audit_key_from_source_port source_port) (audit s) with
  | Some v => Some (audit_entry_of_array v)
  | None => None
  end.

(* ---------------------------------------------------------------------------------------- *)
(* events: the script language shared with ebpf_user/driver.c                                *)
(* ---------------------------------------------------------------------------------------- *)
Inductive event :=
| EPolicyUpdate (k v : words)                       (* P+  bpf(2) update of policy_map *)
| EPolicyDelete (k : words)                         (* P-  bpf(2) delete in policy_map *)
| ESkipUpdate (k v : words)                         (* S   bpf(2) update of skip_process_map *)
| EAuditDelete (k : words)                          (* A-  bpf(2) delete in audit_map *)
| EAuditLookup (k : words)                          (* A?  bpf(2) lookup in audit_map *)
| EConnect4 (t : task) (sa : sockaddr)              (* C4  the cgroup/connect4 program *)
| ETcpConnect (t : task) (family num daddr dport : N). (* TCX the kprobe on an arbitrary socket *)

Definition POLICY_WORDS : N := 6.
Definition SKIP_WORDS : N := 1.
Definition AUDIT_KEY_WORDS : N := 2.
Definition sized (n : N) (w : words) : bool := N.of_nat (length w) =? n.

Definition kstep (sh : shifts) (s : kstate) (ev : event) : kstate * list N :=
  match ev with
  | EPolicyUpdate k v =>
      if sized POLICY_WORDS k && sized POLICY_WORDS v then
        let '(m, r) := hash_update policy_cap k v (policy s) in (set_policy s m, [r])
      else (s, [EBADSIZE])
  | EPolicyDelete k =>
      if sized POLICY_WORDS k then
        let '(m, r) := map_delete k (policy s) in (set_policy s m, [r])
      else (s, [EBADSIZE])
  | ESkipUpdate k v =>
      if sized SKIP_WORDS k && sized SKIP_WORDS v then
        let '(m, r) := hash_update skip_cap k v (skip s) in (set_skip s m, [r])
      else (s, [EBADSIZE])
  | EAuditDelete k =>
      if sized AUDIT_KEY_WORDS k then
        let '(m, r) := map_delete k (audit s) in (set_audit s m, [r])
      else (s, [EBADSIZE])
  | EAuditLookup k =>
      if sized AUDIT_KEY_WORDS k then
        match wlookup k (audit s) with
        | Some v => (s, 0 :: v)
        | None => (s, [ENOENT])
        end
      else (s, [EBADSIZE])
  | EConnect4 t sa =>
      let '(s', sa', r) := connect4 sh s t sa in (s', [r; sa_ip sa'; sa_port sa'])
  | ETcpConnect t family num daddr dport =>
      let '(s', r) := tcp_v4_connect sh s t (mk_sock family num daddr dport) in (s', [r])
  end.

Fixpoint krun (sh : shifts) (s : kstate) (evs : list event) : kstate :=
  match evs with
  | [] => s
  | ev :: rest => krun sh (fst (kstep sh s ev)) rest
  end.

(* the agent's operations as events *)
Definition PROXY_AGENT_IP : bytes := Consts.proxy_agent_ip.
(* update_policy_elem_bpf_map(_, local_port, dest_ipv4, dest_port) and update_redirect_policy(.., true) *)
Definition agent_policy_add (dest_ipv4 dest_port local_port : N) : event :=
  EPolicyUpdate (destination_entry_from_ipv4 dest_ipv4 dest_port)
                (destination_entry_from_ipv4 (string_to_ip PROXY_AGENT_IP) local_port).
(* update_redirect_policy(dest_ipv4, dest_port, _, false) *)
Definition agent_policy_remove (dest_ipv4 dest_port : N) : event :=
  EPolicyDelete (destination_entry_from_ipv4 dest_ipv4 dest_port).
(* update_skip_process_map(pid) *)
Definition agent_skip (pid : N) : event := ESkipUpdate (skip_entry_from_pid pid) (skip_entry_from_pid pid).
(* remove_audit_map_entry(source_port) *)
Definition agent_remove_audit (source_port : N) : event := EAuditDelete (audit_key_from_source_port source_port).

(* ---------------------------------------------------------------------------------------- *)
(* scripts: events plus the kernel glue between the two hooks of one connect (a TC line runs   *)
(* the kprobe on the socket whose destination is what the thread's last C4 left in the ctx)    *)
(* ---------------------------------------------------------------------------------------- *)
Inductive line :=
| LEvent (ev : event)
| LTcpInflight (t : task) (sport : N).

Definition inflight := list (N * (N * N)).   (* pid_tgid -> (user_ip4, user_port) after the hook *)
Fixpoint ilookup (k : N) (m : inflight) : option (N * N) :=
  match m with
  | [] => None
  | (k', v) :: r => if k =? k' then Some v else ilookup k r
  end.
Definition iremove (k : N) (m : inflight) : inflight := filter (fun kv => negb (k =? fst kv)) m.

Definition KERNEL_AF_INET : N := 2.   (* the kernel's AF_INET, whatever socket.h calls it *)

Definition dump (s : kstate) : list wmap := [policy s; skip s; audit s; local s].

Definition lstep (sh : shifts) (w : kstate * inflight) (l : line) : (kstate * inflight) * list N :=
  let '(s, fl) := w in
  match l with
  | LEvent (EConnect4 t sa as ev) =>
      let '(s', o) := kstep sh s ev in
      let k := get_current_pid_tgid t in
      ((s', (k, (nth 1 o 0, nth 2 o 0)) :: iremove k fl), o)
  | LEvent ev => let '(s', o) := kstep sh s ev in ((s', fl), o)
  | LTcpInflight t sport =>
      let k := get_current_pid_tgid t in
      match ilookup k fl with
      | Some (ip, port) =>
          let '(s', o) := kstep sh s (ETcpConnect t KERNEL_AF_INET sport ip port) in ((s', iremove k fl), o)
      | None => ((s, fl), [ENOINFLIGHT])
      end
  end.

(* outputs and map dumps after every line *)
Fixpoint run_script (sh : shifts) (w : kstate * inflight) (ls : list line) : list (list N * list wmap) :=
  match ls with
  | [] => []
  | l :: rest => let '(w', o) := lstep sh w l in (o, dump (fst w')) :: run_script sh w' rest
  end.
Definition run_script0 (ls : list line) := run_script cur_sh (kinit, []) ls.

(* ---------------------------------------------------------------------------------------- *)
(* vocabulary of the theorems (Props/C06.v)                                                  *)
(* ---------------------------------------------------------------------------------------- *)
(* the local_map key of the thread that runs a hook *)
Definition thread_key (t : task) : words := key64 (get_current_pid_tgid t).
Definition ev_thread (ev : event) : option words :=
  match ev with
  | EConnect4 t _ => Some (thread_key t)
  | ETcpConnect t _ _ _ _ => Some (thread_key t)
  | _ => None
  end.
(* the event is not a hook run by the thread with local_map key K *)
Definition other_thread (K : words) (ev : event) : bool :=
  match ev_thread ev with Some k => negb (beq K k) | None => true end.
Definition is_connect4 (ev : event) : bool := match ev with EConnect4 _ _ => true | _ => false end.
Definition is_tcp_connect (ev : event) : bool := match ev with ETcpConnect _ _ _ _ _ => true | _ => false end.
Definition count_connect4 (evs : list event) : N := N.of_nat (length (filter is_connect4 evs)).
Definition count_tcp_connect (evs : list event) : N := N.of_nat (length (filter is_tcp_connect evs)).
(* the event puts key P into skip_process_map *)
Definition adds_skip (P : words) (ev : event) : bool :=
  match ev with ESkipUpdate k _ => beq P k | _ => false end.
(* the event may write or delete the audit_map entry of source port p *)
Definition touches_port (p : N) (ev : event) : bool :=
  match ev with
  | ETcpConnect _ _ num _ _ => u16 num =? p
  | EAuditDelete k => nth 1 k 0 =? p
  | _ => false
  end.
(* the process is listed in skip_process_map under the key the agent inserts *)
Definition skipped (s : kstate) (t : task) : bool := wmem (skip_entry_from_pid (tgid t)) (skip s).
(* every key of policy_map carries the agent's protocol constant (true of all the agent inserts) *)
Definition policy_keys_tcp (s : kstate) : Prop :=
  forall k v, In (k, v) (policy s) -> nth 5 k 0 = RUST_IPPROTO_TCP.
Definition policy_update_tcp (ev : event) : bool :=
  match ev with EPolicyUpdate k _ => nth 5 k 0 =? RUST_IPPROTO_TCP | _ => true end.

(* F4 (DESIGN.md 6): the inputs on which the program as it stands records a wrong user id.
   Empty once both sites take the low half of bpf_get_current_uid_gid(). *)
Definition KnownClass_F4_connect4 (t : task) : bool :=
  negb (sh_connect4 cur_sh =? 0) && negb (uid t =? gid t).
Definition KnownClass_F4_tcp_connect (t : task) : bool :=
  negb (sh_tcp_connect cur_sh =? 0) && negb (uid t =? gid t).

(* what the agent must read back for a redirected connect of task t to ip:port *)
Definition expected_audit (t : task) (ip port : N) : audit_entry :=
  {| ae_logon_id := uid t; ae_process_id := tgid t;
     ae_is_admin := if uid t =? 0 then 1%Z else 0%Z;
     ae_destination_ipv4 := u32 ip; ae_destination_port := to_be16 port |}.
Definition octets_of_ip (ip : N) : list N :=
  [ip mod 256; (ip / 256) mod 256; (ip / 65536) mod 256; (ip / 16777216) mod 256].

(* the scenario of the F4 witnesses: the agent protects WireServer, task t connects to it from
   source port 40000; what the agent then reads back *)
Definition witness_run (sh : shifts) (t : task) : option audit_entry :=
  let ip := Consts.wire_server_ip_network_byte_order in
  let port := Consts.wire_server_port in
  let s0 := krun sh kinit [agent_policy_add ip port Consts.proxy_agent_port] in
  let '(s1, ctx', _) := connect4 sh s0 t (connect_ctx ip port IPPROTO_TCP) in
  let s3 := fst (kstep sh s1 (ETcpConnect t KERNEL_AF_INET 40000 (sa_ip ctx') (sa_port ctx'))) in
  lookup_audit s3 40000.

(* ---------------------------------------------------------------------------------------- *)
(* digests: the correspondence check compares, per script, a rolling digest that absorbs,     *)
(* after EVERY line, the line's outputs and the dump of all four maps (the same function is   *)
(* computed by tools/checks/c06.py over the C side's outputs and dumps).  On a mismatch the   *)
(* per-line digests and then the full dumps are compared to name the first differing line.    *)
(* 63-bit machine integers (Coq's primitive Uint63, evaluated natively by vm_compute): the    *)
(* digest is only a transport encoding for the comparison, no theorem mentions it.            *)
(* ---------------------------------------------------------------------------------------- *)
Definition int_of_N (n : N) : Uint63.int :=
  match n with N0 => Uint63.of_Z 0 | Npos p => Uint63.of_pos p end.
Definition hmix (h x : Uint63.int) : Uint63.int :=
  Uint63.add (Uint63.add (Uint63.mul h (Uint63.of_Z 1000003)) x) (Uint63.of_Z 1).
Definition hword (h : Uint63.int) (w : N) : Uint63.int := hmix h (int_of_N w).
Definition hwords (h : Uint63.int) (ws : words) : Uint63.int := fold_left hword ws h.
Definition hentry (h : Uint63.int) (kv : words * words) : Uint63.int :=
  hwords (hwords (hword h (N.of_nat (length (fst kv)))) (fst kv)) (snd kv).
Definition hmap (m : wmap) : Uint63.int := fold_left hentry m (hword (Uint63.of_Z 7) (wlen m)).
Definition hstate (h : Uint63.int) (s : kstate) : Uint63.int :=
  fold_left (fun h m => hmix h (hmap m)) (dump s) h.
Definition hline (h : Uint63.int) (o : list N) (s : kstate) : Uint63.int :=
  hstate (hwords (hword h (N.of_nat (length o))) o) s.
Definition N_of_int (h : Uint63.int) : N := Z.to_N (Uint63.to_Z h).

(* digest after every line *)
Fixpoint run_script_chain (sh : shifts) (w : kstate * inflight) (ls : list line) (h : Uint63.int) : list Uint63.int :=
  match ls with
  | [] => []
  | l :: rest =>
      let '(w', o) := lstep sh w l in
      let h' := hline h o (fst w') in
      h' :: run_script_chain sh w' rest h'
  end.
(* ... and only the last one *)
Fixpoint run_script_last (sh : shifts) (w : kstate * inflight) (ls : list line) (h : Uint63.int) : Uint63.int :=
  match ls with
  | [] => h
  | l :: rest =>
      let '(w', o) := lstep sh w l in
      run_script_last sh w' rest (hline h o (fst w'))
  end.
Definition run_script_d (ls : list line) : N := N_of_int (run_script_last cur_sh (kinit, []) ls (Uint63.of_Z 7)).
(* per-line digests, 20 low bits each (cheap to print): used to locate the first differing line *)
Definition run_script_t (ls : list line) : list N :=
  map (fun h => N_of_int (Uint63.land h (Uint63.of_Z 1048575))) (run_script_chain cur_sh (kinit, []) ls (Uint63.of_Z 7)).
