(* C19 -- model of what the agent keeps on disk:
     proxy_agent_shared/src/logger/rolling_logger.rs   RollingLogger::{open_file, write, write_many,
                                                       write_line, roll_if_needed, archive_file,
                                                       get_log_files, get_current_file_full_path}
     proxy_agent_shared/src/telemetry/event_logger.rs  start (loop body), write_event (queue push)
     proxy_agent/src/proxy/authorization_rules.rs      AuthorizationRulesForLogging::write_all
     proxy_agent_shared/src/misc_helpers.rs            get_files, search_files, json_write_to_file
   Definitions only; proofs are in Proofs/DiskProofs.v.

   A directory is a list of entries (name, size, last) with pairwise different names ([wf_dir] in
   the proofs); [last] is a ghost field: the number of bytes appended by the last write to the file
   (0 for a freshly created file) -- it exists only to state "no file exceeds the size limit by more
   than one write".  Only regular files are modelled (no sub-directories, no I/O errors).
   File names are byte strings; time stamps are byte strings supplied by the environment (the code
   formats the wall clock; no theorem depends on their values except where it says so). *)
From GPA Require Export Bytes AList Consts.

Definition ent := (bytes * N * N)%type.
Definition ename (e : ent) : bytes := fst (fst e).
Definition esize (e : ent) : N := snd (fst e).
Definition elast (e : ent) : N := snd e.
Definition dir := list ent.

Definition names (d : dir) : list bytes := map ename d.
Definition dfind (n : bytes) (d : dir) : option ent := find (fun e => beq (ename e) n) d.
Definition dhas (n : bytes) (d : dir) : bool :=
  match dfind n d with Some _ => true | None => false end.
(* fs::remove_file *)
Definition dremove (n : bytes) (d : dir) : dir := filter (fun e => negb (beq (ename e) n)) d.
(* File::create / the target of a rename: an existing file of that name is replaced *)
Definition dput (n : bytes) (sz last : N) (d : dir) : dir := (n, sz, last) :: dremove n d.
(* fs::rename(a, b): atomic, replaces b *)
Definition drename (a b : bytes) (d : dir) : dir :=
  match dfind a d with
  | Some e => dput b (esize e) (elast e) (dremove a d)
  | None => d
  end.
(* append w bytes to an existing file *)
Definition dappend (n : bytes) (w : N) (d : dir) : dir :=
  match dfind n d with
  | Some e => dput n (esize e + w) w d
  | None => d
  end.

(* Vec<PathBuf>::sort() inside one directory = byte-wise lexicographic order of the file names *)
Definition sort_names (l : list bytes) : list bytes := isort bytes_ltb l.

(* what a check compares with the real directory: (name, size) sorted by name *)
Definition listing (d : dir) : list (bytes * N) :=
  isort (fun a b => bytes_ltb (fst a) (fst b)) (map (fun e => (ename e, esize e)) d).

(* ---------------------------------------------------------------------------------------- *)
(* std::path::PathBuf::set_extension on a bare file name                                     *)
(* ---------------------------------------------------------------------------------------- *)
Definition dot : N := 46.

(* Path::file_stem: the name up to its LAST '.', the whole name if there is no '.' or the only
   '.' is the first byte  (names "", ".", ".." and names containing '/' are outside the model) *)
Definition file_stem (n : bytes) : bytes :=
  match split_once dot (rev n) with
  | (_, None) => n
  | (_, Some rbefore) => match rbefore with [] => n | _ => rev rbefore end
  end.

Definition set_extension (ext n : bytes) : bytes := file_stem n ++ dot :: ext.

(* time.replace(':', ".") *)
Definition colon_to_dot (s : bytes) : bytes := map (fun b => if b =? 58 then dot else b) s.

(* ---------------------------------------------------------------------------------------- *)
(* RollingLogger                                                                             *)
(* ---------------------------------------------------------------------------------------- *)
Record logcfg := { lname : bytes; lmax_size : N; lmax_count : N }.

Definition log_ext : bytes := Consts.rolling_log_extension.          (* "log" *)
Definition arch_suffix : bytes := Consts.rolling_log_archive_suffix. (* ".log" *)

(* get_current_file_full_path(None) / (Some(timestamp)) *)
Definition cur_name (c : logcfg) : bytes := set_extension log_ext (lname c).
Definition arch_name (c : logcfg) (ts : bytes) : bytes :=
  set_extension log_ext (lname c ++ dot :: colon_to_dot ts ++ arch_suffix).

(* get_log_files: every entry whose name starts_with(log_file_name), sorted.
   (The `!is_file && ends_with(extension)` test only skips a sub-directory called exactly "log".) *)
Definition lmatch (c : logcfg) (n : bytes) : bool := starts_with n (lname c).
Definition get_log_files (c : logcfg) (d : dir) : list bytes :=
  sort_names (filter (lmatch c) (names d)).

(* open_file: append to the current file, or File::create it (size 0) when it does not exist *)
Definition open_file (c : logcfg) (d : dir) : dir :=
  if dhas (cur_name c) d then d else dput (cur_name c) 0 0 d.

(* the deletion loop shared by archive_file and write_all:
     let mut count = max; for f in files { remove(f); count += 1; if count > files.len() { break } } *)
Fixpoint del_loop (files : list bytes) (count fc : N) (d : dir) : dir :=
  match files with
  | [] => d
  | f :: t =>
      let d' := dremove f d in
      let count' := count + 1 in
      if fc <? count' then d' else del_loop t count' fc d'
  end.

(* archive_file: rename first, THEN list, then trim when file_count >= max_count *)
Definition archive_file (c : logcfg) (ts : bytes) (d : dir) : dir :=
  let d1 := drename (cur_name c) (arch_name c ts) d in
  let files := get_log_files c d1 in
  let fc := N.of_nat (length files) in
  if lmax_count c <=? fc then del_loop files (lmax_count c) fc d1 else d1.

Definition cur_size (c : logcfg) (d : dir) : N :=
  match dfind (cur_name c) d with Some e => esize e | None => 0 end.

(* roll_if_needed: open (create) the file, roll when its length >= max size, BEFORE the write *)
Definition roll_if_needed (c : logcfg) (ts : bytes) (d : dir) : dir :=
  let d0 := open_file c d in
  if lmax_size c <=? cur_size c d0 then open_file c (archive_file c ts d0) else d0.

(* each message is written followed by "\n" *)
Definition total_bytes (lens : list N) : N := fold_right (fun l acc => l + 1 + acc) 0 lens.

(* write_many(messages) (write_line is the one-message case; [lens] = message lengths) *)
Definition write_many (c : logcfg) (ts : bytes) (lens : list N) (d : dir) : dir :=
  let d1 := open_file c (roll_if_needed c ts d) in
  dappend (cur_name c) (total_bytes lens) d1.

(* the same call when archiving FAILS (fs::rename returns an error: archive name longer than
   NAME_MAX, directory not writable, file locked): roll_if_needed()? returns the error after
   open_file, nothing is appended; while the file is below the limit no rename is attempted *)
Definition write_many_rf (c : logcfg) (lens : list N) (d : dir) : dir :=
  let d0 := open_file c d in
  if lmax_size c <=? cur_size c d0 then d0
  else dappend (cur_name c) (total_bytes lens) (open_file c d0).

(* the same call in a directory that holds an entry whose metadata() FAILS (dangling symbolic link,
   link loop, entry deleted between read_dir and stat), or a sub-directory: since /repo 9e49374
   get_log_files skips every entry that is not a regular file it can stat, so such entries are inert
   and the call is the ordinary one *)
Definition write_many_lf (c : logcfg) (ts : bytes) (lens : list N) (d : dir) : dir :=
  write_many c ts lens d.

(* BEFORE 9e49374 (finding F-C19a, kept for the documented refutation): get_log_files returned the
   error AFTER the rename: current file archived, nothing trimmed, no new current file, nothing appended *)
Definition write_many_lf_before_fix (c : logcfg) (ts : bytes) (lens : list N) (d : dir) : dir :=
  let d0 := open_file c d in
  if lmax_size c <=? cur_size c d0 then drename (cur_name c) (arch_name c ts) d0
  else dappend (cur_name c) (total_bytes lens) (open_file c d0).

(* a RESTART of the agent: service::setup_loggers builds the two loggers with RollingLogger::create_new
   (which only stores dir, name, extension, max size, max count -- no file-system access, no size or
   count cached: every later call re-reads the directory) and registers them with
   logger_manager::set_loggers.  Nothing is opened, archived or trimmed at start-up. *)
Definition restart_logger (c : logcfg) (d : dir) : dir := d.

(* write(level, message): the line is the 34-byte header followed by the message *)
Definition write_msg (c : logcfg) (ts : bytes) (len : N) (d : dir) : dir :=
  write_many c ts [Consts.log_header_len + len] d.

(* ---------------------------------------------------------------------------------------- *)
(* AuthorizationRulesForLogging::write_all                                                   *)
(* ---------------------------------------------------------------------------------------- *)
Definition ends_with (s suf : bytes) : bool := starts_with (rev s) (rev suf).

(* regex ^AuthorizationRules_.*\.json$ on the file name (names containing '\n' are outside the model) *)
Definition is_dump (n : bytes) : bool :=
  starts_with n Consts.rules_dump_search_prefix &&
  ends_with (skipn (length Consts.rules_dump_search_prefix) n) Consts.rules_dump_search_suffix.

Definition dump_files (d : dir) : list bytes := sort_names (filter is_dump (names d)).

Definition dump_name (ts : bytes) : bytes :=
  colon_to_dot (Consts.rules_dump_new_prefix ++ ts ++ Consts.rules_dump_new_suffix).

(* remove the oldest when files.len() >= max, then write the new dump (of [sz] bytes) *)
Definition write_all (maxc : N) (ts : bytes) (sz : N) (d : dir) : dir :=
  let files := dump_files d in
  let fc := N.of_nat (length files) in
  let d1 := if maxc <=? fc then del_loop files maxc fc d else d in
  dput (dump_name ts) sz 0 d1.

(* the same procedure writing an arbitrary new file name (to state what the name scheme must satisfy) *)
Definition write_all_with (name : bytes) (maxc : N) (sz : N) (d : dir) : dir :=
  let files := dump_files d in
  let fc := N.of_nat (length files) in
  let d1 := if maxc <=? fc then del_loop files maxc fc d else d in
  dput name sz 0 d1.

(* a name scheme that puts a tag BEFORE the time stamp (seeded change s1: the modes in force) *)
Definition dump_name_tagged (tag ts : bytes) : bytes :=
  colon_to_dot (Consts.rules_dump_new_prefix ++ tag ++ [95] ++ ts ++ Consts.rules_dump_new_suffix).

(* ---------------------------------------------------------------------------------------- *)
(* histories on one shared log directory                                                     *)
(* ---------------------------------------------------------------------------------------- *)
Inductive op :=
| OWrite (c : logcfg) (ts : bytes) (lens : list N)   (* write_many / write by logger c *)
| OWriteRF (c : logcfg) (lens : list N)              (* the same in an environment where the rename fails *)
| OWriteLF (c : logcfg) (ts : bytes) (lens : list N) (* the same where listing the directory fails *)
| ODump (maxc : N) (ts : bytes) (sz : N)              (* write_all *)
| ODumpLF                                             (* write_all where search_files fails: logged, nothing written *)
| ORestart (c : logcfg).                              (* process restart: the logger object of c is built anew *)
(* RollingLogger and write_all keep no state in memory (every call re-reads the directory), so the
   restart step changes nothing -- it is an explicit operation so that the theorems quantify over it
   and the correspondence runs the real start-up path against it *)

Definition step (d : dir) (o : op) : dir :=
  match o with
  | OWrite c ts lens => write_many c ts lens d
  | OWriteRF c lens => write_many_rf c lens d
  | OWriteLF c ts lens => write_many_lf c ts lens d
  | ODump maxc ts sz => write_all maxc ts sz d
  | ODumpLF => d
  | ORestart c => restart_logger c d
  end.

Definition run (d : dir) (ops : list op) : dir := fold_left step ops d.

(* the directory after every step *)
Fixpoint trace (d : dir) (ops : list op) : list dir :=
  match ops with
  | [] => []
  | o :: t => let d' := step d o in d' :: trace d' t
  end.

(* ---------------------------------------------------------------------------------------- *)
(* event_logger: the bounded queue and one iteration of the loop in start()                  *)
(* ---------------------------------------------------------------------------------------- *)
(* evdir: entries (name, number of events in the file, 0); evq: number of queued events;
   evphase: Running | StopRequested (stop() stored SHUT_DOWN, the loop has not seen it yet) |
   Done (the loop closed the queue and left) *)
Inductive phase := Running | StopRequested | Done.
Record evstate := { evdir : dir; evq : N; evphase : phase }.

Definition ev_ext : bytes := [46; 106; 115; 111; 110].   (* ".json" *)

(* write_event: ConcurrentQueue::bounded(1000).push fails when full or closed, the event is dropped *)
Definition ev_push1 (s : evstate) : evstate :=
  match evphase s with
  | Done => s
  | _ => if evq s <? Consts.event_queue_bound
         then {| evdir := evdir s; evq := evq s + 1; evphase := evphase s |} else s
  end.

(* the flush of one loop iteration: nothing when the queue is empty; otherwise drain the queue, and
   write "<unix nanos>.json" unless get_files(dir).len() >= max_event_file_count *)
Definition ev_flush (cap : N) (ts : bytes) (s : evstate) : evstate :=
  if evq s =? 0 then s
  else if cap <=? N.of_nat (length (evdir s)) then {| evdir := evdir s; evq := 0; evphase := evphase s |}
  else {| evdir := dput (ts ++ ev_ext) (evq s) 0 (evdir s); evq := 0; evphase := evphase s |}.

(* the same flush when get_files(dir) FAILS (an entry that cannot be stat()-ed): since /repo 7e4ec27
   the Err arm fails closed -- the drained events are dropped, nothing is written *)
Definition ev_flush_lf (ts : bytes) (s : evstate) : evstate :=
  if evq s =? 0 then s else {| evdir := evdir s; evq := 0; evphase := evphase s |}.

(* BEFORE 7e4ec27 (finding F-C19b, kept for the documented refutation): the Err arm only logged a
   warning and fell through to the write -- the cap was not consulted *)
Definition ev_flush_lf_before_fix (ts : bytes) (s : evstate) : evstate :=
  if evq s =? 0 then s
  else {| evdir := dput (ts ++ ev_ext) (evq s) 0 (evdir s); evq := 0; evphase := evphase s |}.

(* one loop iteration after the sleep.  When SHUT_DOWN is set the queue is closed first, the
   iteration then runs as usual (same cap check) and the loop leaves at its next is_closed() test *)
Definition ev_tick (cap : N) (ts : bytes) (s : evstate) : evstate :=
  match evphase s with
  | Done => s
  | Running => ev_flush cap ts s
  | StopRequested =>
      let s' := ev_flush cap ts s in {| evdir := evdir s'; evq := evq s'; evphase := Done |}
  end.

Definition ev_tick_lf (ts : bytes) (s : evstate) : evstate :=
  match evphase s with
  | Done => s
  | Running => ev_flush_lf ts s
  | StopRequested =>
      let s' := ev_flush_lf ts s in {| evdir := evdir s'; evq := evq s'; evphase := Done |}
  end.

Definition ev_stop (s : evstate) : evstate :=
  match evphase s with
  | Running => {| evdir := evdir s; evq := evq s; evphase := StopRequested |}
  | _ => s
  end.

Inductive evop :=
| EPush (n : N)          (* n calls of write_event *)
| ETick (ts : bytes)     (* one loop iteration *)
| ETickLF (ts : bytes)   (* one loop iteration in a directory whose listing fails *)
| EStop                  (* event_logger::stop() *)
| ERestart.              (* process restart: the queue is lost, the directory stays *)

Definition ev_step (cap : N) (s : evstate) (o : evop) : evstate :=
  match o with
  | EPush n => N.iter n ev_push1 s
  | ETick ts => ev_tick cap ts s
  | ETickLF ts => ev_tick_lf ts s
  | EStop => ev_stop s
  | ERestart => {| evdir := evdir s; evq := 0; evphase := Running |}
  end.

Fixpoint ev_trace (cap : N) (s : evstate) (ops : list evop) : list evstate :=
  match ops with
  | [] => []
  | o :: t => let s' := ev_step cap s o in s' :: ev_trace cap s' t
  end.

(* Config::get_max_event_file_count: the configured maxEventFileCount, the default when absent;
   provision::start_event_threads passes it to event_logger::start as the cap *)
Definition configured_cap (o : option N) : N :=
  match o with Some n => n | None => Consts.default_max_event_file_count end.

(* ---------------------------------------------------------------------------------------- *)
(* what the checks evaluate                                                                  *)
(* ---------------------------------------------------------------------------------------- *)
Definition run_listings (d : dir) (ops : list op) : list (list (bytes * N)) :=
  map listing (trace d ops).
Definition ev_run_listings (cap : N) (s : evstate) (ops : list evop) : list (list (bytes * N) * N) :=
  map (fun s => (listing (evdir s), evq s)) (ev_trace cap s ops).
