(* SystemSeq -- the end-to-end model lifted from "one request on one connection" (Model/System.v) to
   "a connection is a SEQUENCE of requests, each with head fields, body framing and trailer fields".

     serve_conn_gen authz mac (C : conn_state) (rs : list seq_request) : list seq_outcome

   built from the existing per-request pipeline, nothing re-defined:
     attribution ONCE per connection      [conn_state] = Summary.conn_info (context from Server.accept /
                                          Accept.step, handed to every request: C01, C07)
     per request, in its OWN environment  System.system_step_gen: rules looked up per request, traversal
                                          gate, authorization (Server/Authorizer/Rbac), the body limit of
                                          the request's own class (Limit; LimitSeq.serve_connection is the
                                          view), owned headers replaced (Headers), signature with the key
                                          latched THEN (Canon/SignRace), relay and response leg (Relay),
                                          summaries (Summary); the host may be down for any request
                                          ([se_up], LimitSeq's [cr_up])
     trailer section                      Trailers.collected_trailers: the trailer fields of the client's
                                          chunked body do not survive body.collect() (Trailers.forward_wire
                                          is the view)
   Mirrors proxy_server.rs handle_new_tcp_connection: hyper's http1 server calls the service_fn closure
   once per request of the connection, one after the other, with a clone of the one connection context.

   Definitions only; proofs in Proofs/SystemSeqProofs.v, pinned theorems in Props/System.v (part IV). *)
From GPA.Model Require Export System.
From GPA Require Export Trailers LimitSeq.

(* attribution is per connection *)
Definition conn_state := conn_info.

Record seq_request := {
  rq_env : sys_env;                       (* what is in force WHEN this request is handled: actors' answers
                                             (rules), clock, key slot, upstream usable, host's answer *)
  rq_sys : sys_request;                   (* method, target, head fields, body frames, declared length, broken *)
  rq_trailers : list (bytes * bytes);     (* the trailer section as sent: any names, any case, any number *)
}.

Record seq_outcome := {
  so_result : sys_result;                                   (* System.v's result for this request *)
  so_upstream : list (N * N * upstream_message);            (* what the host receives: head + body + trailer section *)
}.

(* the request as it is on the wire (Trailers.v) *)
Definition wire_request_of (r : seq_request) : wire_request :=
  {| w_req := collected (sq_req (rq_sys r)); w_trailers := rq_trailers r |}.

Definition with_trailers (tr : list (bytes * bytes)) (x : N * N * Canon.request) : N * N * upstream_message :=
  (fst (fst x), snd (fst x), {| u_request := snd x; u_trailers := collected_trailers tr |}).

Section Seq.
Context (authz : bytes -> N -> claims -> url -> option computed -> auth_result).
Context (mac : bytes -> bytes -> bytes).

(* one request of the connection: the per-request pipeline, then the (empty) trailer section *)
Definition serve_request_gen (C : conn_state) (r : seq_request) : seq_outcome :=
  let res := system_step_gen authz mac (rq_env r) C (rq_sys r) in
  {| so_result := res; so_upstream := map (with_trailers (rq_trailers r)) (sy_upstream res) |}.

(* the connection: the service_fn closure once per request, all with the one connection state *)
Definition serve_conn_gen (C : conn_state) (rs : list seq_request) : list seq_outcome :=
  map (serve_request_gen C) rs.

(* LimitSeq.v's view of a request of the sequence *)
Definition conn_request_of (C : conn_state) (r : seq_request) : conn_request :=
  {| cr_pre := pre_of (se_provision (rq_env r)) (fst (handled authz (rq_env r) C (rq_sys r)));
     cr_now := se_now (rq_env r); cr_req := sq_req (rq_sys r); cr_declared := sq_declared (rq_sys r);
     cr_broken := sq_broken (rq_sys r); cr_up := se_up (rq_env r) |}.
End Seq.

Definition serve_request := serve_request_gen authorize_at.
Definition serve_conn := serve_conn_gen authorize_at.

(* accept (attribution, once) followed by the connection's requests *)
Definition serve_accepted (mac : bytes -> bytes -> bytes) (os : os_view) (fail_remove : bool)
           (m : audit_map) (port : N) (client_ip cmd : bytes) (rs : list seq_request) : list seq_outcome :=
  serve_conn mac {| ci_ctx := fst (accept os fail_remove m port); ci_client_ip := client_ip; ci_cmd := cmd |} rs.

(* projection to System.v's keep-alive input *)
Definition step_of (r : seq_request) : sys_env * sys_request := (rq_env r, rq_sys r).

(* one call for the correspondence check: a whole keep-alive connection through [serve_accepted]; per request
   the tuple of System.system_case (SystemSeqProofs.seq_case_is_system_case) and the trailer fields the host
   sees behind the body *)
Definition outcome_code (C : conn_state) (r : seq_request) (o : seq_outcome) :=
  let res := so_result o in
  (client_code (sy_client res),
   map upstream_code (sy_upstream res),
   map effect_code (sy_effects res),
   is_signed (key_value (se_key (rq_env r))) (key_guid (se_key (rq_env r))) (collected (sq_req (rq_sys r))),
   map (fun mg => match mg with
                  | AddFailed s => (1, sm_user s, sm_ip s, sm_port s, sm_status s)
                  | AddOk s => (2, sm_user s, sm_ip s, sm_port s, sm_status s)
                  | _ => (0, [], [], 0, [])
                  end) (sys_msgs C res),
   flat_map (fun x => u_trailers (snd x)) (so_upstream o)).

Definition seq_case (os : os_view) (fail_remove : bool) (m : audit_map) (port : N) (client_ip cmd : bytes)
           (rs : list seq_request) :=
  let C := {| ci_ctx := fst (accept os fail_remove m port); ci_client_ip := client_ip; ci_cmd := cmd |} in
  map (fun ro => outcome_code C (fst ro) (snd ro))
      (combine rs (serve_accepted zero_mac os fail_remove m port client_ip cmd rs)).
