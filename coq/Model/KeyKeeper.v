(* C09 / C08 -- model of one iteration of proxy_agent/src/key_keeper.rs::loop_poll, of
   key_keeper/key.rs::KeyStatus::{validate, get_secure_channel_state, get_*_mode,
   get_*_rules, get_*_rule_id} and of the actor locals in shared_state/key_keeper_wrapper.rs.
   Definitions only; proofs are in Proofs/KeyKeeperProofs.v.

   What is abstract here:
   * an authorization item is (id, mode, body) where [it_body] stands for everything else in the
     item (defaultAccess, rules); what the agent stores is
     ComputedAuthorizationItem::from_authorization_item(item), a function of the item (C02's
     model), so the model stores the item itself;
   * the results of the I/O steps of a poll are an [answers] record (status answer, local key
     lookup, acquire, store, read-back, attest); Model/KeyStore.v supplies them from a modelled
     file system and host. *)
From GPA Require Export Bytes AList Consts.

(* ---------------------------------------------------------------- constants *)
Definition DISABLE_STATE : bytes := Consts.kk_disable_state.          (* key_keeper.rs *)
Definition MUST_SIG_WIRESERVER : bytes := Consts.kk_must_sig_wireserver.
Definition MUST_SIG_WIRESERVER_IMDS : bytes := Consts.kk_must_sig_wireserver_imds.
Definition UNKNOWN_STATE : bytes := Consts.kk_unknown_state.
Definition AUDIT_MODE : bytes := Consts.kk_audit_mode.                (* key.rs *)
Definition ENFORCE_MODE : bytes := Consts.kk_enforce_mode.
Definition V10 : bytes := [49; 46; 48].    (* "1.0", literal in key.rs *)
Definition V20 : bytes := [50; 46; 48].    (* "2.0" *)
Definition DISABLED_LIT : bytes := [100; 105; 115; 97; 98; 108; 101; 100].   (* the literal in get_wire_server_mode / get_imds_mode *)

(* ---------------------------------------------------------------- documents *)
Record item := { it_id : bytes; it_mode : bytes; it_body : N }.

Record rules3 := { r_imds : option item; r_ws : option item; r_ga : option item }.

(* KeyStatus as deserialised (fields that influence nothing are left out: authorizationScheme and
   keyDeliveryMethod only add text to the validation message, keyIncarnationId and
   requiredClaimsHeaderPairs are never read) *)
Record doc := {
  d_version : bytes;
  d_state : option bytes;      (* secureChannelState *)
  d_enabled : option bool;     (* secureChannelEnabled *)
  d_guid : option bytes;       (* keyGuid *)
  d_rules : option rules3;     (* authorizationRules *)
}.

Record key := {
  key_scheme : bytes;          (* authorizationScheme *)
  key_inc : option N;          (* incarnationId *)
  key_guid : bytes;
  key_issued : bytes;
  key_value : bytes;           (* hex text *)
}.

Definition is_none {A} (o : option A) : bool := match o with None => true | Some _ => false end.

(* KeyStatus::validate: only these three conditions clear validate_result *)
Definition valid_state_name (s : bytes) : bool :=
  let l := lower s in
  beq l DISABLE_STATE || beq l MUST_SIG_WIRESERVER || beq l MUST_SIG_WIRESERVER_IMDS.

Definition validate (d : doc) : bool :=
  negb (is_none (d_enabled d) && is_none (d_state d))
  && match d_state d with
     | Some s => valid_state_name s
     | None => negb (beq (d_version d) V10)
     end
  && negb (is_none (d_enabled d) && beq (d_version d) V20).

(* KeyStatus::get_secure_channel_state *)
Definition mode_word (enforce audit other none : bytes) (it : option item) : bytes :=
  match it with
  | Some i =>
      let m := lower (it_mode i) in
      if beq m ENFORCE_MODE then enforce else if beq m AUDIT_MODE then audit else other
  | None => none
  end.

Definition v2_state (d : doc) : bytes :=
  match d_enabled d with
  | Some true =>
      match d_rules d with
      | Some r =>
          mode_word Consts.kk_word_wireserver_enforce Consts.kk_word_wireserver_audit
                    Consts.kk_word_wireserver_other Consts.kk_word_wireserver_none (r_ws r)
          ++ Consts.kk_state_format_sep ++
          mode_word Consts.kk_word_imds_enforce Consts.kk_word_imds_audit
                    Consts.kk_word_imds_other Consts.kk_word_imds_none (r_imds r)
          ++ Consts.kk_state_format_sep ++
          (* short-term: HostGA uses wireserver mode *)
          mode_word Consts.kk_word_hostga_enforce Consts.kk_word_hostga_audit
                    Consts.kk_word_hostga_other Consts.kk_word_hostga_none (r_ws r)
      | None => DISABLE_STATE
      end
  | _ => DISABLE_STATE
  end.

Definition v1_state (d : doc) : bytes :=
  match d_state d with Some s => lower s | None => DISABLE_STATE end.

Definition channel_state (d : doc) : bytes :=
  if beq (d_version d) V20 then v2_state d else v1_state d.

(* get_wire_server_mode / get_imds_mode / get_hostga_mode *)
Definition WIRESERVER_LIT : bytes := [119; 105; 114; 101; 115; 101; 114; 118; 101; 114].          (* "wireserver" *)
Definition WIRESERVERANDIMDS_LIT : bytes := [119; 105; 114; 101; 115; 101; 114; 118; 101; 114; 97; 110; 100; 105; 109; 100; 115].   (* "wireserverandimds" *)
Definition v1_lit_state (d : doc) : bytes :=
  match d_state d with Some s => lower s | None => DISABLED_LIT end.

Definition ws_mode (d : doc) : bytes :=
  if beq (d_version d) V20 then
    match d_rules d with
    | Some r => match r_ws r with Some i => lower (it_mode i) | None => DISABLED_LIT end
    | None => DISABLED_LIT
    end
  else
    let st := v1_lit_state d in
    if beq st WIRESERVER_LIT || beq st WIRESERVERANDIMDS_LIT then ENFORCE_MODE else AUDIT_MODE.

Definition imds_mode (d : doc) : bytes :=
  if beq (d_version d) V20 then
    match d_rules d with
    | Some r => match r_imds r with Some i => lower (it_mode i) | None => DISABLED_LIT end
    | None => DISABLED_LIT
    end
  else
    let st := v1_lit_state d in
    if beq st WIRESERVERANDIMDS_LIT then ENFORCE_MODE else AUDIT_MODE.

Definition ga_mode (d : doc) : bytes := ws_mode d.

(* ---------------------------------------------------------------- endpoints *)
Inductive endpoint := WS | IMDS | GA.

(* get_wireserver_rules / get_imds_rules / get_hostga_rules *)
Definition ep_item (ep : endpoint) (d : doc) : option item :=
  match d_rules d with
  | Some r => match ep with WS => r_ws r | IMDS => r_imds r | GA => r_ga r end
  | None => None
  end.

(* get_*_rule_id *)
Definition ep_id (ep : endpoint) (d : doc) : bytes :=
  match ep_item ep d with Some i => it_id i | None => [] end.

Definition ep_mode (ep : endpoint) (d : doc) : bytes :=
  match ep with WS => ws_mode d | IMDS => imds_mode d | GA => ga_mode d end.

(* the bit handed to redirector::update_*_redirect_policy *)
Definition ep_redirect (ep : endpoint) (d : doc) : bool :=
  negb (beq (ep_mode ep d) DISABLE_STATE).

(* ---------------------------------------------------------------- agent state (actor locals) *)
Record kk := {
  k_key : option key;
  k_state : bytes;
  k_ws_id : bytes; k_imds_id : bytes; k_ga_id : bytes;
  k_ws : option item; k_imds : option item; k_ga : option item;
}.

Definition kk_init : kk :=
  {| k_key := None; k_state := UNKNOWN_STATE;
     k_ws_id := []; k_imds_id := []; k_ga_id := [];
     k_ws := None; k_imds := None; k_ga := None |}.

Definition kid (ep : endpoint) (s : kk) : bytes :=
  match ep with WS => k_ws_id s | IMDS => k_imds_id s | GA => k_ga_id s end.
Definition krules (ep : endpoint) (s : kk) : option item :=
  match ep with WS => k_ws s | IMDS => k_imds s | GA => k_ga s end.

Definition set_key (s : kk) (k : option key) : kk :=
  {| k_key := k; k_state := k_state s;
     k_ws_id := k_ws_id s; k_imds_id := k_imds_id s; k_ga_id := k_ga_id s;
     k_ws := k_ws s; k_imds := k_imds s; k_ga := k_ga s |}.
Definition set_state (s : kk) (st : bytes) : kk :=
  {| k_key := k_key s; k_state := st;
     k_ws_id := k_ws_id s; k_imds_id := k_imds_id s; k_ga_id := k_ga_id s;
     k_ws := k_ws s; k_imds := k_imds s; k_ga := k_ga s |}.

Definition cur_guid (s : kk) : option bytes :=
  match k_key s with Some k => Some (key_guid k) | None => None end.

(* update_*_rule_id followed by set_*_rules when the id differs *)
Definition upd_ep (old_id : bytes) (old : option item) (it : option item)
  : bytes * option item * bool :=
  let id := match it with Some i => it_id i | None => [] end in
  if beq old_id id then (old_id, old, false) else (id, it, true).

Definition install_rules (s : kk) (d : doc) : kk * bool :=
  let '(wid, w, cw) := upd_ep (k_ws_id s) (k_ws s) (ep_item WS d) in
  let '(iid, i, ci) := upd_ep (k_imds_id s) (k_imds s) (ep_item IMDS d) in
  let '(gid, g, cg) := upd_ep (k_ga_id s) (k_ga s) (ep_item GA d) in
  ({| k_key := k_key s; k_state := k_state s;
      k_ws_id := wid; k_imds_id := iid; k_ga_id := gid;
      k_ws := w; k_imds := i; k_ga := g |}, cw || ci || cg).

(* ---------------------------------------------------------------- the environment's answers *)
Inductive status_ans := StatusErr | StatusDoc (d : doc).
(* StatusErr: transport error, non-2xx, body that does not deserialise.  An answer that
   deserialises but fails validate() is a StatusDoc with validate d = false. *)

Record answers := {
  a_status : status_ans;
  a_local : option key;      (* fetch_key(key_dir, keyGuid), consulted only when keyGuid is Some *)
  a_acquire : option key;    (* acquire_key: None = transport error / non-200 / malformed body *)
  a_store : bool;            (* store_key returned Ok *)
  a_readback : option key;   (* what check_local_key's fetch_local_key returns after the store *)
  a_attest : bool;           (* the host answered 200 to the key attestation *)
}.

(* hex::decode succeeds (checked by loop_poll right after acquire_key; compute_signature inside
   attest_key's build_request decodes it again) *)
Definition is_hex_digit (b : N) : bool :=
  ((48 <=? b) && (b <=? 57)) || ((65 <=? b) && (b <=? 70)) || ((97 <=? b) && (b <=? 102)).
Definition hex_ok (s : bytes) : bool :=
  N.even (N.of_nat (length s)) && forallb is_hex_digit s.

Inductive effect :=
| EStatus                       (* GET /secure-channel/status *)
| EDumpRules                    (* AuthorizationRulesForLogging::write_all *)
| ELocalRead (g : bytes)        (* fetch_key(key_dir, g) *)
| EAcquire                      (* POST /secure-channel/key *)
| EStore (k : key)              (* store_key: temp file + rename *)
| EReadBack (k : key)           (* check_key *)
| EAttest (k : key)             (* POST /secure-channel/key/{guid}/key-attestation, signed with k *)
| ESetKey (k : key)             (* update_key *)
| EPolicy (ep : endpoint) (redirect : bool)
| EClearKey.

Inductive key_outcome := KeySet (k : key) | KeyFailed.

(* check_local_key: guid and key value of the file equal those of the acquired key *)
Definition check_ok (k : key) (rb : option key) : bool :=
  match rb with
  | Some k' => beq (key_guid k') (key_guid k) && beq (key_value k') (key_value k)
  | None => false
  end.

(* the block guarded by "state != DISABLE_STATE && (keyGuid.is_none() || keyGuid != current guid)" *)
Definition key_step (d : doc) (a : answers) : key_outcome * list effect :=
  let lr := match d_guid d with Some g => [ELocalRead g] | None => [] end in
  match (match d_guid d with Some _ => a_local a | None => None end) with
  | Some k => (KeySet k, lr ++ [ESetKey k])
  | None =>
      match a_acquire a with
      | None => (KeyFailed, lr ++ [EAcquire])                        (* continue *)
      | Some k =>
          (* "a key that compute_signature would reject must not be stored, attested or loaded" *)
          if negb (hex_ok (key_value k)) then (KeyFailed, lr ++ [EAcquire])    (* continue *)
          else if negb (a_store a) then (KeyFailed, lr ++ [EAcquire; EStore k])    (* continue *)
          else if negb (check_ok k (a_readback a))
          then (KeyFailed, lr ++ [EAcquire; EStore k; EReadBack k])    (* continue *)
          else if negb (a_attest a)
          then (KeyFailed, lr ++ [EAcquire; EStore k; EReadBack k; EAttest k])   (* continue *)
          else (KeySet k, lr ++ [EAcquire; EStore k; EReadBack k; EAttest k; ESetKey k])
      end
  end.

Definition opt_beq (a b : option bytes) : bool :=
  match a, b with
  | Some x, Some y => beq x y
  | None, None => true
  | _, _ => false
  end.

Definition need_key (s : kk) (d : doc) : bool :=
  negb (beq (channel_state d) DISABLE_STATE)
  && (is_none (d_guid d) || negb (opt_beq (d_guid d) (cur_guid s))).

Definition policy_effects (d : doc) : list effect :=
  [EPolicy WS (ep_redirect WS d); EPolicy IMDS (ep_redirect IMDS d); EPolicy GA (ep_redirect GA d)].

(* "update the current secure channel state if different" and what hangs off it *)
Definition finish (s : kk) (d : doc) (e : list effect) : kk * list effect :=
  let st := channel_state d in
  if beq (k_state s) st then (s, e)
  else
    let s' := set_state s st in
    if beq st DISABLE_STATE
    then (set_key s' None, e ++ policy_effects d ++ [EClearKey])
    else (s', e ++ policy_effects d).

(* one iteration of loop_poll, after the sleep *)
Definition poll (s : kk) (a : answers) : kk * list effect :=
  match a_status a with
  | StatusErr => (s, [EStatus])                                  (* continue *)
  | StatusDoc d =>
      if negb (validate d) then (s, [EStatus])                   (* get_status returned Err *)
      else
        let '(s1, changed) := install_rules s d in
        let e1 := EStatus :: (if changed then [EDumpRules] else []) in
        if need_key s1 d then
          match key_step d a with
          | (KeySet k, e) => finish (set_key s1 (Some k)) d (e1 ++ e)
          | (KeyFailed, e) => (s1, e1 ++ e)                      (* every failure `continue`s *)
          end
        else finish s1 d e1
  end.

(* the notify branch of the sleep: state reset when disabled / unknown *)
Definition notify (s : kk) : kk :=
  if beq (k_state s) DISABLE_STATE || beq (k_state s) UNKNOWN_STATE
  then set_state s UNKNOWN_STATE else s.

Inductive event := Poll (a : answers) | Notify.

Definition step (s : kk) (e : event) : kk :=
  match e with Poll a => fst (poll s a) | Notify => notify s end.

Definition run_from (s : kk) (h : list event) : kk := fold_left step h s.
Definition run (h : list event) : kk := run_from kk_init h.

(* ---------------------------------------------------------------- specification *)
Record observable := {
  o_ws : option item; o_imds : option item; o_ga : option item;
  o_key : option key;
  o_state : bytes;
}.

Definition observe (s : kk) : observable :=
  {| o_ws := k_ws s; o_imds := k_imds s; o_ga := k_ga s; o_key := k_key s; o_state := k_state s |}.

Definition disabled (d : doc) : bool := beq (channel_state d) DISABLE_STATE.

(* the key the host names: the latched one as held by the local store, else the one latched by
   this very poll *)
Definition F_key (d : doc) (a : answers) : option key :=
  if disabled d then None
  else match d_guid d, a_local a with
       | Some _, Some k => Some k
       | _, _ => a_acquire a
       end.

Definition F (d : doc) (a : answers) : observable :=
  {| o_ws := ep_item WS d; o_imds := ep_item IMDS d; o_ga := ep_item GA d;
     o_key := F_key d a; o_state := channel_state d |}.

(* a complete error-free poll *)
Definition relatch_ok (a : answers) : bool :=
  match a_acquire a with
  | Some k => a_store a && check_ok k (a_readback a) && hex_ok (key_value k) && a_attest a
  | None => false
  end.

Definition clean (d : doc) (a : answers) : bool :=
  validate d
  && (disabled d
      || match d_guid d, a_local a with
         | Some g, Some k => beq (key_guid k) g
         | _, _ => relatch_ok a
         end).

Definition status_failed (a : answers) : bool :=
  match a_status a with StatusErr => true | StatusDoc d => negb (validate d) end.

(* valid documents / keys that occur in a history *)
Fixpoint docs_of (h : list event) : list doc :=
  match h with
  | [] => []
  | Poll a :: t =>
      match a_status a with
      | StatusDoc d => if validate d then d :: docs_of t else docs_of t
      | StatusErr => docs_of t
      end
  | Notify :: t => docs_of t
  end.

Definition keys_of_ans (a : answers) : list key :=
  (match a_local a with Some k => [k] | None => [] end)
  ++ (match a_acquire a with Some k => [k] | None => [] end).

Fixpoint keys_of (h : list event) : list key :=
  match h with
  | [] => []
  | Poll a :: t => keys_of_ans a ++ keys_of t
  | Notify :: t => keys_of t
  end.

Definition empty_doc : doc :=
  {| d_version := V10; d_state := None; d_enabled := None; d_guid := None; d_rules := None |}.

(* host contract 1: a rule id identifies the item (per endpoint); "no item" has the empty id *)
Definition id_functional (ds : list doc) : Prop :=
  forall ep d1 d2, In d1 ds -> In d2 ds -> ep_id ep d1 = ep_id ep d2 -> ep_item ep d1 = ep_item ep d2.

(* host contract 2: a key guid identifies the key *)
Definition guid_functional (ks : list key) : Prop :=
  forall k1 k2, In k1 ks -> In k2 ks -> key_guid k1 = key_guid k2 -> k1 = k2.

(* local-store contract: when the host names the guid of the key held in memory, the local store
   still returns a key for it (files are never removed; discharged for the modelled file system in
   Proofs/KeyStoreProofs.v) *)
Definition mem_backed (s : kk) (d : doc) (a : answers) : Prop :=
  forall g, d_guid d = Some g -> cur_guid s = Some g -> a_local a <> None.

(* projections of the effect list *)
Definition is_policy (e : effect) : bool := match e with EPolicy _ _ => true | _ => false end.
Definition policies (es : list effect) : list effect := filter is_policy es.

(* ---------------------------------------------------------------- encoding for the correspondence *)
Definition ep_code (ep : endpoint) : N := match ep with WS => 0 | IMDS => 1 | GA => 2 end.

(* tuples instead of records, so that the check can parse vm_compute's output *)
Definition key_out (k : key) : bytes * bytes * option N := (key_guid k, key_value k, key_inc k).

Definition eff_out (e : effect) : N * bytes * bool :=
  match e with
  | EStatus => (0, [], false)
  | EDumpRules => (1, [], false)
  | ELocalRead g => (2, g, false)
  | EAcquire => (3, [], false)
  | EStore k => (4, key_guid k, false)
  | EReadBack k => (5, key_guid k, false)
  | EAttest k => (6, key_guid k, false)
  | ESetKey k => (7, key_guid k, false)
  | EPolicy ep b => (8 + ep_code ep, [], b)
  | EClearKey => (11, [], false)
  end.

Definition kk_out (s : kk) :=
  (k_state s, option_map key_out (k_key s),
   (k_ws_id s, k_imds_id s, k_ga_id s),
   (option_map it_body (k_ws s), option_map it_body (k_imds s), option_map it_body (k_ga s))).

(* what the model says about the answer itself (reported next to the observations) *)
Definition ans_class (a : answers) : bool * bool :=
  match a_status a with
  | StatusErr => (false, false)
  | StatusDoc d => (validate d, clean d a)
  end.

(* a scripted history: each step is a poll, optionally followed by a notify that is consumed in
   the sleep after that poll; the output is the state after the group and the poll's effects *)
Fixpoint run_obs (s : kk) (h : list (answers * bool)) :=
  match h with
  | [] => []
  | (a, n) :: t =>
      let s1 := fst (poll s a) in
      let s2 := if (n : bool) then notify s1 else s1 in
      (kk_out s2, map eff_out (snd (poll s a)), ans_class a) :: run_obs s2 t
  end.
