(* C12 -- symbolic information-flow model of every place the latched key value, or a text that
   embeds it, can flow.  Definitions only; proofs are in Proofs/TaintProofs.v.

   Texts are SYMBOLIC: a [text] is a list of fragments; every [format!] on a path the key or a
   text containing it can take is transcribed as fragment concatenation, every error constructor
   embeds what common/error.rs says it embeds.  Mirrors (file :: function):
     key_keeper.rs :: poll_secure_channel_status, loop_poll, update_status_message, store_key,
                      fetch_key, check_key
     key_keeper/key.rs :: Display for KeyStatus, get_status, acquire_key, attest_key
     common/helpers.rs :: compute_signature (Error::Hex carries the key text), write_startup_event
     common/error.rs :: Display/Debug of Error::Hex, Error::Hyper(Deserialize), Error::Key(..)
     common/hyper_client.rs :: read_response_body (deserialisation errors echo the whole body), build_request
     common/logger.rs :: write / write_information|warning|error (console + file), write_serial_console_log
     proxy_agent_shared logger_manager::log, telemetry/event_logger.rs :: write_event (queue, cut at 4096, + file log)
     shared_state/agent_status_wrapper.rs :: set_module_status_message (event when changed),
                      get_module_status (cut at 1024 + "too long" event)
     provision.rs :: get_provision_failed_state_message, write_provision_state, provision_timeup,
                      key_latched / key_latch_ready_state_reset (KEY_LATCH_READY flag)
     proxy_agent_status.rs :: status.json
     proxy/proxy_server.rs :: handle_request_with_signature ('Added authorization header' prints the MAC;
                      'compute_signature failed' prints the error), handle_provision_state_check_request,
                      log_connection_summary
     proxy/authorization_rules.rs :: AuthorizationRulesForLogging::write_all (rule dumps)
     acl/linux_acl.rs :: acl_directory (chown root, chmod 0700)

   Environment the model fixes (and the driver harness/src/bin/c12.rs realises): the redirector
   never reports ready (so ALL_READY is never reached and write_provision_state runs only from
   provision_timeup), the listener is running, client requests are attributed to a destination
   served by the Default authorizer (always allowed), /provision queries carry a time tick larger
   than any finished tick. *)
From Coq Require Import List NArith Bool String.
From GPA Require Import Consts.
Import ListNotations.
Open Scope string_scope.
Open Scope list_scope.

Definition keyid := N.

(* ---------------------------------------------------------------------------------------- *)
(* symbolic texts                                                                           *)
(* ---------------------------------------------------------------------------------------- *)
Inductive frag :=
| Lit (s : string)          (* literal text of a format string *)
| Secret (k : keyid)        (* the value of key k as the host delivered it *)
| Mac (k : keyid)           (* hex HMAC-SHA256 under key k of a public canonical string *)
| Public (tag : string)     (* a value that does not depend on any key value *)
| Cut1024                   (* byte MAX_STATUS_MESSAGE_LENGTH of the enclosing message falls here *)
| Cut4096.                  (* byte MAX_MESSAGE_LENGTH of the enclosing message falls here *)
(* The two cut markers abstract byte offsets: a host body is laid out as padding + key + rest and
   the history says on which side of each cut the key lies ([layout]); the generator realises the
   layout with paddings that keep the key >= 400 bytes away from either cut, which is more than
   any wrapper text ("keyLatchStatus - ", "Status message is too long ... Message: ") shifts it. *)

Definition text := list frag.

Definition frag_eqb (a b : frag) : bool :=
  match a, b with
  | Lit x, Lit y => String.eqb x y
  | Secret x, Secret y => N.eqb x y
  | Mac x, Mac y => N.eqb x y
  | Public x, Public y => String.eqb x y
  | Cut1024, Cut1024 | Cut4096, Cut4096 => true
  | _, _ => false
  end.

Fixpoint text_eqb (a b : text) : bool :=
  match a, b with
  | [], [] => true
  | x :: a', y :: b' => frag_eqb x y && text_eqb a' b'
  | _, _ => false
  end.

(* the key values occurring in a text; a MAC is NOT an occurrence of the key *)
Definition frag_secrets (f : frag) : list keyid :=
  match f with Secret k => [k] | _ => [] end.
Definition secrets (t : text) : list keyid := flat_map frag_secrets t.
Definition secret_free (t : text) : Prop := secrets t = [].
Definition secret_freeb (t : text) : bool := match secrets t with [] => true | _ => false end.

Definition is_cut1024 (f : frag) := match f with Cut1024 => true | _ => false end.
Definition is_cut4096 (f : frag) := match f with Cut4096 => true | _ => false end.

Fixpoint before (p : frag -> bool) (t : text) : text :=
  match t with
  | [] => []
  | f :: t' => if p f then [] else f :: before p t'
  end.

(* agent_status_wrapper.rs get_module_status: message.len() > MAX_STATUS_MESSAGE_LENGTH *)
Definition is_long (t : text) : bool := existsb is_cut1024 t.
(* ... message = format!("{}...", &message[0..MAX_STATUS_MESSAGE_LENGTH]) *)
Definition trunc1024 (t : text) : text :=
  if is_long t then before is_cut1024 t ++ [Lit "..."] else t.
(* event_logger.rs write_event: message[..MAX_MESSAGE_LENGTH] *)
Definition trunc4096 (t : text) : text :=
  if existsb is_cut4096 t then before is_cut4096 t else t.

(* ---------------------------------------------------------------------------------------- *)
(* sinks and outputs                                                                        *)
(* ---------------------------------------------------------------------------------------- *)
Inductive sink :=
| KeyFile         (* <key dir>/<guid>.key (+ its .tmp) *)
| Log             (* ProxyAgent.log *)
| ConnLog         (* ProxyAgent.Connection.log *)
| Event           (* event queue -> <events dir>/*.json *)
| StatusJson      (* status.json *)
| ProvisionTag    (* status.tag / provisioned.tag *)
| RuleDump        (* AuthorizationRules_*.json *)
| Stdout          (* console log (println!) and stderr *)
| SerialConsole   (* /dev/console *)
| ClientResponse  (* bytes returned to a local client *)
| HostRequest.    (* bytes sent to the host (not a local sink; listed for completeness) *)

Definition sink_eqb (a b : sink) : bool :=
  match a, b with
  | KeyFile, KeyFile | Log, Log | ConnLog, ConnLog | Event, Event | StatusJson, StatusJson
  | ProvisionTag, ProvisionTag | RuleDump, RuleDump | Stdout, Stdout
  | SerialConsole, SerialConsole | ClientResponse, ClientResponse | HostRequest, HostRequest => true
  | _, _ => false
  end.

Definition out := (sink * text)%type.

(* common/logger.rs write: Trace level, file only *)
Definition log_trace (t : text) : list out := [(Log, t)].
(* common/logger.rs write_information / write_warning / write_error: console, then file *)
Definition log_console (t : text) : list out := [(Stdout, t); (Log, t)].
(* event_logger.rs write_event: queue (cut at 4096), then "wrap file log within event log" with the
   FULL message on the logger named by logger_key *)
Definition event (agent_logger : bool) (t : text) : list out :=
  [(Event, trunc4096 t); ((if agent_logger then Log else ConnLog), t)].
(* common/logger.rs write_serial_console_log *)
Definition serial (t : text) : list out := [(SerialConsole, t)].
(* helpers.rs write_startup_event -> span.rs SimpleSpan::write_event: event with the JSON form,
   serial console with the Display form, which is also the returned message *)
Definition startup_event (task : string) : text * list out :=
  let js := [Lit "{""elapsed"":"; Public "elapsed ms"; Lit ", ""message"":"""; Lit task; Lit """}"] in
  let msg := [Lit task; Lit " - "; Public "elapsed ms"] in
  (msg, event true js ++ serial msg).

(* ---------------------------------------------------------------------------------------- *)
(* histories                                                                                *)
(* ---------------------------------------------------------------------------------------- *)
(* answer to GET /secure-channel/status *)
Inductive status_resp :=
| SOk (enabled : bool) (guid : option keyid) (rule : N)  (* valid document; guid = key the host holds latched *)
| SErr                                                   (* error status code *)
| SMalformed                                             (* body does not deserialize *)
| SInvalid.                                              (* deserializes, fails KeyStatus::validate *)

(* where the key lies in a malformed key body relative to the two message cuts *)
Inductive layout := Early | Mid | Far.

(* What hex::decode (crate hex 0.4, used by helpers::compute_signature AND by the key keeper's gate of
   commit 5de21e5) accepts: Err(OddLength) when the number of characters is odd, Err(InvalidHexCharacter)
   at the first character outside [0-9a-fA-F], Ok otherwise -- so the empty string, upper, lower and mixed
   case all decode; an odd number of hex digits, a 0x prefix, surrounding white space do not.  The [hex]
   flag of [KOk] is this function of the delivered value's shape (the check renders it that way and
   computes the two arguments from the actual canary value).
   The LENGTH is not part of it: 128-, 384- or 512-bit key material in well-formed hex decodes just like a 256-bit
   one (HMAC takes a key of any length), so such a key is [KOk k true] -- stored, attested, used for signing -- and
   must stay out of every sink but the key file; the check delivers values of 24 .. 128 hex digits.
   The key FOLDER is abstract in this model: whether the configured path is the directory itself, a symlink (chain)
   to it or a relative path makes no difference to the syscalls of [sys_trace]; the check judges mode and owner on
   the directory that actually holds the key file. *)
Definition hex_decode_accepts (even_length all_hex_digits : bool) : bool := even_length && all_hex_digits.

(* answer to POST /secure-channel/key *)
Inductive key_resp :=
| KOk (k : keyid) (hex : bool)      (* a Key document for key k (guid = k); hex: hex::decode accepts its value *)
| KErr                              (* error status code *)
| KMalformed (k : keyid) (l : layout). (* a body carrying key k's value that does not deserialize into Key *)

(* answer to POST /secure-channel/key/{guid}/key-attestation *)
Inductive attest_resp := AOk | AErr.

Inductive op :=
| Poll (s : status_resp) (k : key_resp) (a : attest_resp)  (* one iteration of loop_poll + the next wake-up *)
| Restart                    (* the agent process dies and is started again; files persist *)
| ClientRequest              (* an attributed client request through the listener *)
| ProvisionQuery (notify : bool)   (* GET /provision on the listener *)
| ProvisionTimeup            (* provision::provision_timeup *)
| StatusTick                 (* one status.json write of ProxyAgentStatusTask *)
| RemoveKeyDir               (* environment fault: somebody removes the key directory and everything in it *)
| CancelledSigner.           (* a requester of the key is cancelled between queueing its request at the key
                               keeper actor and receiving the reply (the actor's undeliverable-reply branch) *)

Definition history := list op.

(* Which of the two small repairs of F6 the code carries.  The tree under verification carries BOTH
   (commit 5de21e5 "reject a key whose value is not hex before storing or attesting it" = fix_hex,
    commit 04b956c "do not echo the key response body in acquire_key errors" = fix_body), so [current]
   is the model of the code; the other variants are kept to state exactly what each repair prevents
   (and what a revert would bring back). *)
Record variant := { fix_hex : bool; fix_body : bool }.
Definition unfixed : variant := {| fix_hex := false; fix_body := false |}.
Definition repaired : variant := {| fix_hex := true; fix_body := true |}.
Definition current : variant := repaired.
Definition only_body_repair : variant := {| fix_hex := false; fix_body := true |}.
Definition only_hex_repair : variant := {| fix_hex := true; fix_body := false |}.

(* ---------------------------------------------------------------------------------------- *)
(* agent state                                                                              *)
(* ---------------------------------------------------------------------------------------- *)
Inductive chanstate := ChUnknown | ChDisabled | ChEnabled.
Definition chan_eqb (a b : chanstate) :=
  match a, b with ChUnknown, ChUnknown | ChDisabled, ChDisabled | ChEnabled, ChEnabled => true | _, _ => false end.

Record state := {
  mem : option (keyid * bool);    (* KeyKeeperSharedState key: (key, value is hex) *)
  chan : chanstate;               (* current_secure_channel_state *)
  kkmsg : text;                   (* key keeper module status message *)
  files : list (keyid * bool);    (* <guid>.key files in the key directory *)
  latch_ready : bool;             (* ProvisionFlags::KEY_LATCH_READY *)
  notify_pending : bool;          (* a permit stored in the key keeper's Notify *)
  rule : N;                       (* current rule id (0 = none) *)
  dir_exists : bool               (* the key directory exists *)
}.

Definition set_mem st m := {| mem := m; chan := chan st; kkmsg := kkmsg st; files := files st;
  latch_ready := latch_ready st; notify_pending := notify_pending st; rule := rule st; dir_exists := dir_exists st |}.
Definition set_chan st c := {| mem := mem st; chan := c; kkmsg := kkmsg st; files := files st;
  latch_ready := latch_ready st; notify_pending := notify_pending st; rule := rule st; dir_exists := dir_exists st |}.
Definition set_kkmsg st m := {| mem := mem st; chan := chan st; kkmsg := m; files := files st;
  latch_ready := latch_ready st; notify_pending := notify_pending st; rule := rule st; dir_exists := dir_exists st |}.
Definition set_files st f := {| mem := mem st; chan := chan st; kkmsg := kkmsg st; files := f;
  latch_ready := latch_ready st; notify_pending := notify_pending st; rule := rule st; dir_exists := dir_exists st |}.
Definition set_latch st b := {| mem := mem st; chan := chan st; kkmsg := kkmsg st; files := files st;
  latch_ready := b; notify_pending := notify_pending st; rule := rule st; dir_exists := dir_exists st |}.
Definition set_notify st b := {| mem := mem st; chan := chan st; kkmsg := kkmsg st; files := files st;
  latch_ready := latch_ready st; notify_pending := b; rule := rule st; dir_exists := dir_exists st |}.
Definition set_dir st b := {| mem := mem st; chan := chan st; kkmsg := kkmsg st; files := files st;
  latch_ready := latch_ready st; notify_pending := notify_pending st; rule := rule st; dir_exists := b |}.
Definition set_rule st r := {| mem := mem st; chan := chan st; kkmsg := kkmsg st; files := files st;
  latch_ready := latch_ready st; notify_pending := notify_pending st; rule := r; dir_exists := dir_exists st |}.

Fixpoint lookup_file (g : keyid) (fs : list (keyid * bool)) : option (keyid * bool) :=
  match fs with
  | [] => None
  | (k, h) :: fs' => if N.eqb k g then Some (k, h) else lookup_file g fs'
  end.

(* json_write_to_file replaces <guid>.key *)
Definition store_file (k : keyid) (h : bool) (fs : list (keyid * bool)) : list (keyid * bool) :=
  (k, h) :: filter (fun e => negb (N.eqb (fst e) k)) fs.

(* ---------------------------------------------------------------------------------------- *)
(* key directory syscalls                                                                   *)
(* ---------------------------------------------------------------------------------------- *)
Inductive fileclass := FKeyFile | FTag.
Inductive sys :=
| Mkdir                       (* mkdir <key dir> *)
| Chown (uid gid : N)         (* chown <key dir> *)
| Chmod (mode : N)            (* chmod <key dir> *)
| Create (c : fileclass)      (* open(O_CREAT) of a file directly inside <key dir> *)
| Rmdir.                      (* <key dir> is removed (by the environment, not by the agent) *)

(* ---------------------------------------------------------------------------------------- *)
(* message texts                                                                            *)
(* ---------------------------------------------------------------------------------------- *)
Definition unknown_status : text := [Lit "Status unknown."].   (* shared_state.rs UNKNOWN_STATUS_MESSAGE *)

(* Display for KeyStatus: scheme, delivery method, keyGuid, channel state, version -- no key value
   (the status document has no key field) *)
Definition msg_got_status : text :=
  [Lit "Got key status successfully: "; Lit "authorizationScheme: "; Public "scheme"; Lit ", keyDeliveryMethod: ";
   Public "method"; Lit ", keyGuid: "; Public "guid"; Lit ", secureChannelState: "; Public "state"; Lit ", version: ";
   Public "version"; Lit "."].
(* hyper_client::get -> HyperErrorType::ServerError(url, status) *)
Definition msg_status_err : text :=
  [Lit "Failed to get key status - "; Lit "Failed to get response from "; Public "url"; Lit ", status code: "; Public "status code"].
(* read_response_body -> Deserialize(...body...): the STATUS body carries no key value *)
Definition msg_status_malformed : text :=
  [Lit "Failed to get key status - "; Lit "Deserialization failed: Failed to json deserialize response body with ";
   Public "content type"; Lit " from: "; Public "status body"; Lit " with error "; Public "serde error"].
Definition msg_status_invalid : text :=
  [Lit "Failed to get key status - "; Lit "Key error: Key status validation failed with the error: "; Public "validation message"].

(* the key response body as the host sent it *)
Definition malformed_body (k : keyid) (l : layout) : text :=
  match l with
  | Early => [Lit "{""issued"": """", ""key"": """; Secret k; Lit """, "; Public "rest of the body"]
  | Mid => [Lit "{""issued"": """; Public "padding"; Cut1024; Public "padding"; Lit """, ""key"": """; Secret k;
            Lit """, "; Public "rest of the body"]
  | Far => [Lit "{""issued"": """; Public "padding"; Cut1024; Public "padding"; Cut4096; Public "padding";
            Lit """, ""key"": """; Secret k; Lit """, "; Public "rest of the body"]
  end.

(* key_keeper.rs: format!("Failed to acquire key details: {:?}", e) with
   e = Error::Hyper(HyperErrorType::Deserialize(format!("Failed to json deserialize response body with {} from: {} with error {}", content_type, body_string, e))) *)
Definition msg_acquire_deser (body : text) : text :=
  [Lit "Failed to acquire key details: "; Lit "Hyper(Deserialize("""; Lit "Failed to json deserialize response body with ";
   Public "content type"; Lit " from: "] ++ body ++ [Lit " with error "; Public "serde error"; Lit """))"].
(* e = Error::Key(KeyErrorType::KeyResponse("acquire", status)) *)
Definition msg_acquire_status : text :=
  [Lit "Failed to acquire key details: "; Lit "Key(KeyResponse(""acquire"", "; Public "status code"; Lit "))"].
(* repaired behaviours: key.rs acquire_key maps the body error to SendKeyRequest("acquire", fixed text);
   key_keeper.rs refuses a non-hex key with a fixed status message before store / attest *)
Definition msg_acquire_body_fixed : text :=
  [Lit "Failed to acquire key details: "; Lit "Key(SendKeyRequest(""acquire"", ""the response body is not a valid key document""))"].
Definition msg_acquire_nonhex_fixed : text :=
  [Lit "Failed to acquire key details: the key value is not hex encoded."].

(* key_keeper.rs: format!("Failed to attest the key: {:?}", e) with e = Error::Hex(key, FromHexError)
   from helpers::compute_signature via hyper_client::build_request in key::attest_key *)
Definition msg_attest_hex (k : keyid) : text :=
  [Lit "Failed to attest the key: "; Lit "Hex("""; Secret k; Lit """, "; Public "FromHexError"; Lit ")"].
Definition msg_attest_status : text :=
  [Lit "Failed to attest the key: "; Lit "Key(KeyResponse(""attest"", "; Public "status code"; Lit "))"].
(* proxy_server.rs: format!("compute_signature failed with error: {}", e), Display of Error::Hex *)
Definition msg_sign_failed (k : keyid) : text :=
  [Lit "compute_signature failed with error: "; Lit "Hex encoded key '"; Secret k; Lit "' is invalid: "; Public "FromHexError"].
(* proxy_server.rs: format!("Added authorization header {}", authorization_value) *)
Definition authorization_value (k : keyid) : text := [Public "scheme"; Lit " "; Public "guid"; Lit " "; Mac k].
Definition msg_sign_added (k : keyid) : text := Lit "Added authorization header " :: authorization_value k.

(* key_keeper.rs: format!("Failed to save key details to file: {:?}", e), e = Key(StoreLocalKey("json_write_to_file '<path>' failed <io error>")) *)
Definition msg_store_failed : text :=
  [Lit "Failed to save key details to file: "; Lit "Key(StoreLocalKey(json_write_to_file '"; Public "path"; Lit "' failed ";
   Public "io error"; Lit "))"].

(* misc_helpers::json_write_to_file(&key, <guid>.key): the Key document *)
Definition key_document (k : keyid) : text :=
  [Lit "{""authorizationScheme"": "; Public "scheme"; Lit ", ""guid"": "; Public "guid"; Lit ", ""issued"": "; Public "issued";
   Lit ", ""key"": """; Secret k; Lit """}"].

(* ---------------------------------------------------------------------------------------- *)
(* status message plumbing                                                                  *)
(* ---------------------------------------------------------------------------------------- *)
(* key_keeper.rs update_status_message + agent_status_wrapper.rs set_module_status_message *)
Definition set_status (st : state) (msg : text) (log_to_file : bool) : state * list out :=
  if text_eqb (kkmsg st) msg
  then (st, if log_to_file then log_trace msg else [])
  else (set_kkmsg st msg, event true msg).

(* agent_status_wrapper.rs get_module_status(KeyKeeper) *)
Definition module_status_kk (st : state) : text * list out :=
  if is_long (kkmsg st)
  then (trunc1024 (kkmsg st),
        event true (Lit "Status message is too long, truncating to 1024 characters. Message: " :: kkmsg st))
  else (kkmsg st, []).

(* provision.rs get_provision_failed_state_message: redirector never ready, listener ready *)
Definition failed_state_message (st : state) : text * list out :=
  let head := [Lit "ebpfProgramStatus - "; Public "redirector status message"; Lit "\r\n"] in
  if latch_ready st then (head, [])
  else let '(m, o) := module_status_kk st in
       (head ++ [Lit "keyLatchStatus - "] ++ m ++ [Lit "\r\n"], o).

(* ---------------------------------------------------------------------------------------- *)
(* start of the agent process (initial start and every restart)                             *)
(* ---------------------------------------------------------------------------------------- *)
(* acl::acl_directory on the key directory: chown root:root (recorded only when it succeeds), chmod 0o700 *)
Definition acl_sys (co : bool) : list sys :=
  (if co then [Chown Consts.c12_acl_uid Consts.c12_acl_gid] else []) ++ [Chmod Consts.c12_acl_mode].

(* [co] ("chown ok"): the environment lets chown(key dir, root, root) succeed.  When it does not (agent
   without CAP_CHOWN on a directory somebody else owns) acl_directory logs the failure and STILL sets the
   mode: the directory is then as restricted as the agent can make it. *)
Definition boot (fs : list (keyid * bool)) (dir : bool) (co : bool) : state * list out * list sys :=
  let st0 := {| mem := None; chan := ChUnknown; kkmsg := unknown_status; files := fs; latch_ready := false;
                notify_pending := false; rule := 0%N; dir_exists := true |} in
  (* proxy_server.rs start: listener started *)
  let '(lmsg, lo) := startup_event "Started proxy listener, ready to accept request" in
  let o_listener := log_console [Lit "Start proxy listener at '"; Public "addr"; Lit "'."] ++ lo ++ event true lmsg in
  (* key_keeper.rs poll_secure_channel_status *)
  let '(st1, o1) := set_status st0 [Lit "poll secure channel status task started."] true in
  let o_dir := log_trace [Lit "key folder "; Public "key dir"; Lit " created if not exists before."]
            ++ log_trace [Lit "acl_directory: start to set root-only permission to folder "; Public "key dir"; Lit "."]
            ++ log_trace (if co then [Lit "acl_directory: successfully set root-only permission to folder "; Public "key dir"; Lit "."]
                          else [Lit "acl_directory: failed to set root-only permission to folder "; Public "key dir";
                                Lit ". Error: "; Public "errno"])
            ++ log_trace [Lit "acl_directory: successfully set root-only permission to folder "; Public "key dir"; Lit "."]
            ++ log_trace [Lit "Folder "; Public "key dir"; Lit " ACLed if has not before."] in
  (st1, o_listener ++ o1 ++ o_dir,
   (if dir then [] else [Mkdir]) ++ acl_sys co).

(* ---------------------------------------------------------------------------------------- *)
(* one iteration of loop_poll                                                               *)
(* ---------------------------------------------------------------------------------------- *)
(* provision::key_latched -> update_provision_state(KEY_LATCH_READY); ALL_READY is never reached *)
Definition key_latched (st : state) : state := set_latch st true.

(* rule ids changed -> warnings + AuthorizationRulesForLogging::write_all *)
Definition update_rules (st : state) (r : N) : state * list out :=
  if N.eqb (rule st) r then (st, [])
  else (set_rule st r,
        log_console [Lit "Wireserver rule id changed from '"; Public "old id"; Lit "' to '"; Public "new id"; Lit "'."]
        ++ log_console [Lit "IMDS rule id changed from '"; Public "old id"; Lit "' to '"; Public "new id"; Lit "'."]
        ++ log_console [Lit "HostGA rule id changed from '"; Public "old id"; Lit "' to '"; Public "new id"; Lit "'."]
        ++ [(RuleDump, [Public "input rules"; Public "computed rules"])]
        ++ log_console [Lit "Authorization rules are written to file: "; Public "path"]).

(* result of the key fetch/acquire/attest block: the new state, what it wrote, and whether the
   iteration goes on to the channel-state update ([false] = `continue`) *)
Definition acquire_block (v : variant) (co : bool) (st : state) (kr : key_resp) (ar : attest_resp)
  : state * list out * list sys * bool :=
  let post := [(HostRequest, [Lit "POST /secure-channel/key"; Public "headers"; Public "body"])] in
  match kr with
  | KErr =>
      let '(st1, o) := set_status st msg_acquire_status true in (st1, post ++ o, [], false)
  | KMalformed k l =>
      let m := if fix_body v then msg_acquire_body_fixed else msg_acquire_deser (malformed_body k l) in
      let '(st1, o) := set_status st m true in (st1, post ++ o, [], false)
  | KOk k hex =>
      if negb hex && fix_hex v then
        let '(st1, o) := set_status st msg_acquire_nonhex_fixed true in (st1, post ++ o, [], false)
      else
      (* commit fd6287b: right before the key is stored the key folder is (re-)created if it is gone
         (try_create_folder) and restricted again (acl_directory) -- it may have been removed, or re-created
         with default permissions by write_provision_state, since start-up *)
      let sy_store := (if dir_exists st then [] else [Mkdir]) ++ acl_sys co ++ [Create FKeyFile] in
      let o_acl := log_trace [Lit "acl_directory: start to set root-only permission to folder "; Public "key dir"; Lit "."]
                ++ log_trace [Lit "acl_directory: "; Public "chown result"; Lit " set root-only permission to folder "; Public "key dir"]
                ++ log_trace [Lit "acl_directory: successfully set root-only permission to folder "; Public "key dir"; Lit "."] in
      (* store_key: <guid>.tmp created, renamed to <guid>.key; check_key reads it back *)
      let st1 := set_dir (set_files st (store_file k hex (files st))) true in
      let o_store := o_acl ++ [(KeyFile, key_document k)]
                  ++ log_console [Lit "Successfully acquired the key '"; Public "guid"; Lit "' details from server and saved locally."] in
      if negb hex then
        (* attest_key -> build_request -> compute_signature fails: Error::Hex(key, ..) *)
        (st1, post ++ o_store ++ log_console (msg_attest_hex k), sy_store, false)
      else
        let o_req := [(HostRequest, [Lit "POST /secure-channel/key/"; Public "guid"; Lit "/key-attestation";
                                     Public "headers"; Lit "x-ms-azure-host-authorization: "] ++ authorization_value k)] in
        match ar with
        | AErr => (st1, post ++ o_store ++ o_req ++ log_console msg_attest_status, sy_store, false)
        | AOk =>
            let st2 := set_mem st1 (Some (k, hex)) in
            let '(m, oe) := startup_event "Successfully attest the key and ready to use." in
            let '(st3, os) := set_status st2 m false in
            (key_latched st3, post ++ o_store ++ o_req ++ oe ++ os, sy_store, true)
        end
  end.

Definition guid_differs (g : option keyid) (m : option (keyid * bool)) : bool :=
  match g, m with
  | None, _ => true                       (* status.keyGuid.is_none() *)
  | Some g, None => true
  | Some g, Some (k, _) => negb (N.eqb g k)
  end.

Definition key_block (v : variant) (co : bool) (st : state) (guid : option keyid) (kr : key_resp) (ar : attest_resp)
  : state * list out * list sys * bool :=
  match guid with
  | Some g =>
      match lookup_file g (files st) with
      | Some (k, hex) =>
          (* fetch_key succeeded: the local key becomes the current key *)
          let st1 := set_mem st (Some (k, hex)) in
          let '(m, oe) := startup_event "Found key details from local and ready to use." in
          let '(st2, os) := set_status st1 m false in
          (key_latched st2, oe ++ os, [], true)
      | None =>
          let o := event true [Lit "Failed to fetch local key details with error: "; Public "FetchLocalKey error";
                               Lit ". Will try acquire the key details from Server."] in
          let '(st1, o1, s1, go) := acquire_block v co st kr ar in (st1, o ++ o1, s1, go)
      end
  | None => acquire_block v co st kr ar
  end.

(* update_current_secure_channel_state + the disabled branch *)
Definition update_chan (st : state) (c : chanstate) : state * list out :=
  if chan_eqb (chan st) c then (st, [])
  else
    let st1 := set_chan st c in
    match c with
    | ChDisabled =>
        let '(m, oe) := startup_event "Customer has not enforce the secure channel state." in
        let '(st2, os) := set_status st1 m false in
        (key_latched (set_mem st2 None), oe ++ os)
    | _ => (st1, [])
    end.

(* the select! at the top of the next iteration: a stored notify permit is consumed *)
Definition wake (st : state) : state * list out :=
  if notify_pending st then
    let st1 := set_notify st false in
    match chan st1 with
    | ChEnabled =>
        (key_latched st1,
         log_console [Lit "poll_secure_channel_status task notified but secure channel state is '"; Public "state";
                      Lit "', continue with sleep wait for "; Public "duration"; Lit "."])
    | _ =>
        (set_chan (set_latch st1 false) ChUnknown,
         log_console [Lit "poll_secure_channel_status task notified and secure channel state is '"; Public "state";
                      Lit "', reset states and start poll status now."])
    end
  else (st, []).

Definition poll (v : variant) (co : bool) (st : state) (s : status_resp) (kr : key_resp) (ar : attest_resp)
  : state * list out * list sys :=
  let get := [(HostRequest, [Lit "GET /secure-channel/status"; Public "headers"])] in
  let '(st', o, sy) :=
    match s with
    | SErr => let '(st1, o) := set_status st msg_status_err true in (st1, o, [])
    | SMalformed => let '(st1, o) := set_status st msg_status_malformed true in (st1, o, [])
    | SInvalid => let '(st1, o) := set_status st msg_status_invalid true in (st1, o, [])
    | SOk enabled guid r =>
        let '(st1, o1) := set_status st msg_got_status true in
        let '(st2, o2) := update_rules st1 r in
        let c := if enabled then ChEnabled else ChDisabled in
        let '(st3, o3, s3, go) :=
          if enabled && guid_differs guid (mem st2) then key_block v co st2 guid kr ar
          else (st2, [], [], true) in
        if go then let '(st4, o4) := update_chan st3 c in (st4, o1 ++ o2 ++ o3 ++ o4, s3)
        else (st3, o1 ++ o2 ++ o3, s3)
    end in
  let '(st'', ow) := wake st' in
  (st'', get ++ o ++ ow, sy).

(* ---------------------------------------------------------------------------------------- *)
(* the other operations                                                                     *)
(* ---------------------------------------------------------------------------------------- *)
(* proxy_server.rs handle_new_http_request -> handle_request_with_signature -> forward_response *)
Definition client_request (st : state) : list out :=
  let pre := [(ConnLog, [Lit "Got request from "; Public "client addr"; Lit " for "; Public "method"; Lit " "; Public "url"]);
              (ConnLog, [Public "claims json"])] in
  let sign :=
    match mem st with
    | Some (k, true) =>
        [(ConnLog, msg_sign_added k);
         (HostRequest, [Public "request line and headers"; Lit "x-ms-azure-host-authorization: "] ++ authorization_value k)]
    | Some (k, false) =>
        [(ConnLog, msg_sign_failed k); (HostRequest, [Public "request line and headers"])]
    | None =>
        [(ConnLog, [Lit "current key is empty, skip computing the signature."]); (HostRequest, [Public "request line and headers"])]
    end in
  let summary := [Public "connection summary json"] in
  pre ++ sign ++ [(ClientResponse, [Public "host response"; Lit "x-ms-azure-host-authorization: value"])]
      ++ [(Stdout, summary)] ++ event false summary.

Definition chan_latched (c : chanstate) : bool := match c with ChEnabled => true | _ => false end.

(* proxy_server.rs handle_provision_state_check_request *)
Definition provision_query (st : state) (notify : bool) : state * list out :=
  let pre := [(ConnLog, [Lit "Got request from "; Public "client addr"; Lit " for GET /provision"])] in
  let '(m, o) := failed_state_message st in
  let finished := chan_latched (chan st) in
  let send := notify && negb finished in
  let on := if send then [(ConnLog, [Lit "Provision is not finished yet, notify key_keeper to pull the status."])] else [] in
  let js := [Lit "{""finished"":"; Public "finished"; Lit ",""errorMessage"":"""] ++ m ++ [Lit """}"] in
  ((if send then set_notify st true else st),
   pre ++ o ++ on ++ [(ConnLog, Lit "Provision state: " :: js); (ClientResponse, js)]).

(* provision.rs provision_timeup -> write_provision_state (ALL_READY is never reached).
   write_provision_state starts with try_create_folder(provision_dir = the key folder): when the folder is gone
   it is RE-CREATED with default permissions (F12: before commit fd6287b nothing restricted it until the next
   start; now the next key store does). *)
Definition provision_timeup (st : state) : state * list out * list sys :=
  let '(m, o) := failed_state_message st in
  (set_dir st true,
   [(ProvisionTag, [Public "timestamp"])] ++ o ++ serial m ++ event true m ++ [(ProvisionTag, m)],
   (if dir_exists st then [] else [Mkdir]) ++ [Create FTag; Create FTag]).

(* proxy_agent_status.rs ProxyAgentStatusTask::start: one pass of loop_status *)
Definition status_tick (st : state) : list out :=
  let '(m, o) := module_status_kk st in
  event true [Lit "Proxy agent status is running."]
  ++ o
  ++ [(StatusJson, [Public "timestamp, version, overall status, monitor status";
                    Lit """keyLatchStatus"": {""message"": """] ++ m ++
                   [Lit """, ""states"": "; Public "channel state, key guid, rule ids, incarnation";
                    Public "ebpf, listener, telemetry status, connection summaries"])]
  ++ event true [Lit "Aggregate status written to status file: "; Public "path"].

Definition step (v : variant) (co : bool) (st : state) (o : op) : state * list out * list sys :=
  match o with
  | Poll s k a => poll v co st s k a
  | Restart => boot (files st) (dir_exists st) co
  | ClientRequest => (st, client_request st, [])
  | ProvisionQuery n => let '(st1, o) := provision_query st n in (st1, o, [])
  | ProvisionTimeup => provision_timeup st
  | StatusTick => (st, status_tick st, [])
  | RemoveKeyDir => (set_dir (set_files st []) false, [], if dir_exists st then [Rmdir] else [])   (* nothing to remove twice *)
  | CancelledSigner =>
      (* key_keeper_wrapper.rs, KeyKeeperAction::GetKey: response.send failed -> warning with the GUID only *)
      (st, log_console [Lit "Failed to send response to KeyKeeperAction::GetKey with guid '"; Public "guid"; Lit "'"], [])
  end.

Fixpoint run_from (v : variant) (co : bool) (st : state) (h : history) : list out * list sys :=
  match h with
  | [] => ([], [])
  | o :: h' =>
      let '(st1, o1, s1) := step v co st o in
      let '(o2, s2) := run_from v co st1 h' in
      (o1 ++ o2, s1 ++ s2)
  end.

(* [predir]: the key directory already exists (created by someone else, mode 0o755, not chown'ed)
   when the agent starts for the first time *)
Definition run_all (v : variant) (predir co : bool) (h : history) : list out * list sys :=
  let '(st0, o0, s0) := boot [] predir co in
  let '(o, s) := run_from v co st0 h in (o0 ++ o, s0 ++ s).

(* DESIGN 5 C12: run : history -> list (sink * text) *)
Definition run_env (v : variant) (predir co : bool) (h : history) : list out := fst (run_all v predir co h).
Definition run (v : variant) (h : history) : list out := run_env v false true h.
Definition sys_trace (v : variant) (predir co : bool) (h : history) : list sys := snd (run_all v predir co h).

(* ---------------------------------------------------------------------------------------- *)
(* the property, executable                                                                 *)
(* ---------------------------------------------------------------------------------------- *)
Definition noninterference (outs : list out) : Prop :=
  Forall (fun o : out => fst o = KeyFile \/ secret_free (snd o)) outs.
Definition noninterferenceb (outs : list out) : bool :=
  forallb (fun o : out => sink_eqb (fst o) KeyFile || secret_freeb (snd o)) outs.

(* known-finding class predicates (F6) *)
Definition is_nonhex_poll (o : op) : bool := match o with Poll _ (KOk _ false) _ => true | _ => false end.
Definition is_malformed_poll (o : op) : bool := match o with Poll _ (KMalformed _ _) _ => true | _ => false end.
Definition KnownClass_host_key_not_hex (v : variant) (h : history) : bool := negb (fix_hex v) && existsb is_nonhex_poll h.
Definition KnownClass_host_key_body_malformed (v : variant) (h : history) : bool := negb (fix_body v) && existsb is_malformed_poll h.

(* keys the host delivered with a non-hex value / inside an undeserialisable body *)
Definition nonhex_keys_op (o : op) : list keyid := match o with Poll _ (KOk k false) _ => [k] | _ => [] end.
Definition malformed_keys_op (o : op) : list keyid := match o with Poll _ (KMalformed k _) _ => [k] | _ => [] end.
Definition nonhex_keys (h : history) : list keyid := flat_map nonhex_keys_op h.
Definition malformed_keys (h : history) : list keyid := flat_map malformed_keys_op h.

(* sinks the two fault paths can reach *)
Definition hex_sink (s : sink) : bool := match s with Log | Stdout | ConnLog => true | _ => false end.
Definition body_sink (s : sink) : bool :=
  match s with Log | ConnLog | Event | StatusJson | ProvisionTag | SerialConsole | ClientResponse => true | _ => false end.

(* the exact leak envelope: key k may occur in sink s only if ... *)
Definition leak_allowed (v : variant) (h : history) (s : sink) (k : keyid) : Prop :=
  s = KeyFile
  \/ (fix_hex v = false /\ In k (nonhex_keys h) /\ hex_sink s = true)
  \/ (fix_body v = false /\ In k (malformed_keys h) /\ body_sink s = true).

(* ---- what the correspondence check evaluates: per sink, the key ids occurring in it ---- *)
Definition all_sinks : list sink :=
  [KeyFile; Log; ConnLog; Event; StatusJson; ProvisionTag; RuleDump; Stdout; SerialConsole; ClientResponse; HostRequest].
Fixpoint nodupN (l : list N) : list N :=
  match l with
  | [] => []
  | x :: l' => if existsb (N.eqb x) l' then nodupN l' else x :: nodupN l'
  end.
Definition sink_keys (outs : list out) (s : sink) : list keyid :=
  nodupN (flat_map (fun o : out => if sink_eqb (fst o) s then secrets (snd o) else []) outs).
Definition vector (outs : list out) : list (sink * list keyid) :=
  filter (fun p => match snd p with [] => false | _ => true end) (map (fun s => (s, sink_keys outs s)) all_sinks).

(* ---- key directory discipline, executable ---- *)
(* directory state: None = absent; Some (owner is root:root?, mode) *)
Definition dirstate := option (bool * N)%type.
Definition sys_step (d : dirstate) (e : sys) : dirstate :=
  match e, d with
  | Mkdir, _ => Some (false, 493%N)             (* 0o755 before acl_directory runs *)
  | Chown u g, Some (_, m) => Some (N.eqb u 0%N && N.eqb g 0%N, m)
  | Chmod m, Some (c, _) => Some (c, m)
  | Rmdir, _ => None
  | _, _ => d
  end.
Definition restricted (d : dirstate) : bool :=
  match d with Some (true, m) => N.eqb m 448%N | _ => false end.   (* root:root, 0o700 *)
Definition mode_restricted (d : dirstate) : bool :=
  match d with Some (_, m) => N.eqb m 448%N | None => false end.   (* 0o700 *)
(* what can be demanded in environment [co]: the mode always, the owner when chown can succeed *)
Definition restricted_in (co : bool) (d : dirstate) : bool := if co then restricted d else mode_restricted d.
Fixpoint creates_restricted (co : bool) (d : dirstate) (tr : list sys) : bool :=
  match tr with
  | [] => true
  | Create FKeyFile :: tr' => restricted_in co d && creates_restricted co d tr'   (* a KEY file is created *)
  | e :: tr' => creates_restricted co (sys_step d e) tr'
  end.

(* The directory before the agent first starts is ARBITRARY: absent ([predir] = false, [d0] = None) or present
   with any owner and any mode ([predir] = true, [d0] = Some (owned by root:root?, mode)) -- e.g. 0o755 owned by
   another account, 0o700 owned by another account (pre-created by a local user), 0o700 root:other-group, 0o755
   root:root.  The agent's syscalls depend only on [predir]; the theorems quantify over [d0]. *)
Definition dir_matches (predir : bool) (d0 : dirstate) : Prop :=
  (predir = true -> d0 <> None) /\ (predir = false -> d0 = None).
Definition dir_after (d0 : dirstate) (tr : list sys) : dirstate := fold_left sys_step tr d0.

(* codes for the correspondence check *)
Definition sys_code (e : sys) : N * N :=
  match e with
  | Mkdir => (0, 0) | Chown u g => (1, u * 65536 + g) | Chmod m => (2, m)
  | Create FKeyFile => (3, 0) | Create FTag => (3, 1) | Rmdir => (4, 0)
  end%N.
