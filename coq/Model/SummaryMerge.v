(* C11 -- clients and the status actor's mailbox.
   Clients c1..cn (request handlers, the status task) each issue a list of messages; the actor
   (agent_status_wrapper.rs: `while let Some(action) = rx.recv().await { match action {..} }`) takes ONE message at a
   time from its mailbox and handles it to completion.  The mailbox order is some interleaving ([is_merge]) of the
   clients' lists.  Also: the read-then-write variant of add_one (seeded change s1: look the key up under a read lock,
   then insert / increment under a write lock) as a small-step machine, to document what the discipline buys.
   Definitions only; proofs in Proofs/SummaryMergeProofs.v, theorems in Props/C11.v. *)
From GPA Require Export Summary.

(* merged is an interleaving of the lists ls: every element of merged is the head of one of the lists *)
Inductive is_merge {A : Type} : list A -> list (list A) -> Prop :=
| merge_done : forall ls, Forall (fun l => l = []) ls -> is_merge [] ls
| merge_take : forall x m ls1 l ls2,
    is_merge m (ls1 ++ l :: ls2) -> is_merge (x :: m) (ls1 ++ (x :: l) :: ls2).

Section Spec.
  Context (key : summary -> bytes).
  (* the specification: occurrences of key k among the adds to the failed map since the last clear *)
  Definition count_spec (merged : list msg) (k : bytes) : N :=
    N.of_nat (length (filter (is_failed_for key k) (since_clear merged))).
  (* without clears: the sum over the clients of their own adds for k *)
  Definition client_adds (k : bytes) (l : list msg) : nat := length (filter (is_failed_for key k) l).
  Definition clients_total (k : bytes) (ls : list (list msg)) : nat := fold_right (fun l n => (client_adds k l + n)%nat) 0%nat ls.
End Spec.

(* ---------------------------------------------------------------------------------------------- *)
(* the read-then-write variant (NOT the code: seeded change s1)                                     *)
(* ---------------------------------------------------------------------------------------------- *)
Inductive rwop :=
| RwRead (c : N) (s : summary)      (* client c: is_new := !map.read().contains_key(key) *)
| RwWrite (c : N) (s : summary).    (* client c: if is_new { map.write().insert(key, entry) } else { get_mut(key).count += 1 } *)

Record rwstate := { rw_map : smap; rw_flags : list (N * bool) }.

Section RW.
  Context (key : summary -> bytes).
  Definition rw_step (st : rwstate) (o : rwop) : rwstate :=
    match o with
    | RwRead c s =>
        {| rw_map := rw_map st;
           rw_flags := ainsert N.eqb c (match alookup beq (key s) (rw_map st) with None => true | Some _ => false end) (rw_flags st) |}
    | RwWrite c s =>
        match alookup N.eqb c (rw_flags st) with
        | Some true => {| rw_map := ainsert beq (key s) (entry_of s) (rw_map st); rw_flags := rw_flags st |}
        | _ => match alookup beq (key s) (rw_map st) with
               | Some e => {| rw_map := ainsert beq (key s) (bump e) (rw_map st); rw_flags := rw_flags st |}
               | None => st
               end
        end
    end.
  Definition rw_run (l : list rwop) : rwstate := fold_left rw_step l {| rw_map := []; rw_flags := [] |}.
End RW.
