(* C03 -- model of proxy_agent/src/proxy/proxy_authorizer.rs (get_authorizer, authorize and the five
   authorizers WireServer / GAPlugin / Imds / ProxyAgent / Default).  Definitions only; proofs are
   in Proofs/AuthorizerProofs.v, the property theorems in Props/C03.v.

   INTERFACE (for Model/Server.v and anyone else who needs the authorization step):

     kind                      : WireServer | GAPlugin | Imds | ProxyAgent | Default
                                 (constructors KWireServer ... KDefault)
     kind_of ip port           : kind        -- get_authorizer's if-chain over the regenerated
                                                constants; [ip] is the dotted text the code
                                                compares (ip_to_string of the recorded destination),
                                                [port] the port in host byte order
     auth_result               : AOk | AOkWithAudit | AForbidden      (AuthorizeResult)
     authorize kind claims url rules_option : auth_result
                                 -- Authorizer::authorize of the chosen authorizer;
                                    [rules_option : option Rbac.computed] is the
                                    Option<ComputedAuthorizationItem> handed in by the caller
                                    (None = the key keeper has no rules for that endpoint),
                                    [claims]/[url] are Rbac.claims / Rbac.url
     authorize_at ip port claims url rules_option := authorize (kind_of ip port) ...
                                 -- proxy_authorizer::authorize
     forwards r                : bool        -- r <> AForbidden: the request handler relays the
                                                request iff this is true (C01), and records an
                                                audit line when r = AOkWithAudit (C11)
     elevated_of_audit is_admin : bool       -- Claims::from_audit_entry: runAsElevated :=
                                                entry.is_admin == 1

   The rules decision itself is Rbac.is_allowed (C02). *)
From GPA Require Export Rbac.

Inductive kind := KWireServer | KGAPlugin | KImds | KProxyAgent | KDefault.

Inductive auth_result := AOk | AOkWithAudit | AForbidden.

(* get_authorizer: first matching (ip, port) pair of the chain *)
Definition kind_of (ip : bytes) (port : N) : kind :=
  if beq ip Consts.wire_server_ip && (port =? Consts.wire_server_port) then KWireServer
  else if beq ip Consts.ga_plugin_ip && (port =? Consts.ga_plugin_port) then KGAPlugin
  else if beq ip Consts.imds_ip && (port =? Consts.imds_port) then KImds
  else if beq ip Consts.proxy_agent_ip && (port =? Consts.proxy_agent_port) then KProxyAgent
  else KDefault.

Section Auth.
  Context (fixed : bool).   (* which Privilege::is_match, see Rbac.v; irrelevant for C03 *)

  (* the block shared verbatim by WireServer, GAPlugin and Imds:
       if let Some(rules) = access_control_rules {
           if rules.is_allowed(..) { Ok } else if rules.mode == Audit { OkWithAudit } else { Forbidden }
       } else { Ok } *)
  Definition rules_decision_gen (k : claims) (u : url) (rs : option computed) : auth_result :=
    match rs with
    | Some r =>
        if is_allowed_gen fixed r u k then AOk
        else if amode_eqb (c_mode r) Audit then AOkWithAudit
        else AForbidden
    | None => AOk
    end.

  Definition authorize_gen (kd : kind) (k : claims) (u : url) (rs : option computed) : auth_result :=
    match kd with
    | KWireServer | KGAPlugin =>
        if negb (k_elevated k) then AForbidden        (* if !self.claims.runAsElevated { return Forbidden } *)
        else rules_decision_gen k u rs
    | KImds => rules_decision_gen k u rs
    | KProxyAgent => AForbidden
    | KDefault => AOk
    end.
End Auth.

Definition rules_decision := rules_decision_gen true.
Definition authorize := authorize_gen true.
Definition authorize_current := authorize_gen false.       (* pinned commit, finding F1 of C02 *)

(* proxy_authorizer::authorize(ip, port, logger, uri, claims, rules) *)
Definition authorize_at (ip : bytes) (port : N) (k : claims) (u : url) (rs : option computed)
  : auth_result := authorize (kind_of ip port) k u rs.

Definition forwards (r : auth_result) : bool :=
  match r with AForbidden => false | _ => true end.

(* proxy.rs Claims::from_audit_entry: runAsElevated: entry.is_admin == 1  (is_admin : i32) *)
Definition elevated_of_audit (is_admin : Z) : bool := (is_admin =? 1)%Z.

(* encodings used by the correspondence check *)
Definition kind_code (kd : kind) : N :=
  match kd with KWireServer => 0 | KGAPlugin => 1 | KImds => 2 | KProxyAgent => 3 | KDefault => 4 end.
Definition result_code (r : auth_result) : N :=
  match r with AOk => 0 | AOkWithAudit => 1 | AForbidden => 2 end.
