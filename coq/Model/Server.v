(* C01 -- model of the request path of the proxy listener:
     proxy_agent/src/proxy/proxy_connection.rs  TcpConnectionContext::new / get_audit_entry   -> [accept]
     proxy_agent/src/proxy.rs                   Claims::from_audit_entry                      -> [claims_of_entry]
     proxy_agent/src/proxy/proxy_server.rs      ProxyServer::handle_new_http_request          -> [handle_gen] / [handle]
     proxy_agent/src/proxy/proxy_authorizer.rs  get_access_control_rules                      -> [rules_for]
     proxy_agent/src/redirector.rs              AuditEntry, destination_ipv4_addr, lookup_audit / remove_audit
     http-1.1.0 src/uri/mod.rs                  impl PartialEq<str> for Uri                   -> [uri_eq_str]
   Definitions only; proofs are in Proofs/ServerProofs.v, the property theorems in Props/C01.v.

   INTERFACE (used by C03, C07, C11, ...):
     audit_entry, conn_ctx, request, env, rules_result, outcome (Resp s | Provision | Relay ..),
     effect (UpstreamWrite .. | FailedSummary s | Summary s),
     accept os fail_remove m port : conn_ctx * audit_map
     handle_gen authz e cx r     : outcome * list effect   -- parametric in the authorization function
     handle := handle_gen authorize_at (Model/Authorizer.v, repaired Privilege::is_match),
     handle_current := handle_gen (pinned commit's is_match, finding F1 of C02)
     serve os fr e m port r      := handle e (fst (accept os fr m port)) r

   What is an oracle here (not decided by the code under verification): the operating system's answer
   to "who is uid u / what is process p" ([os_view]), whether serde can print the claims
   ([e_claims_json_ok]: PathBuf must be UTF-8), whether the two actors answer ([e_counter_ok], the
   [RErr] alternative of the rules getters). *)
From GPA Require Export Authorizer.

(* ---------------------------------------------------------------------------------------------- *)
(* The kernel's record and the connection context                                                  *)
(* ---------------------------------------------------------------------------------------------- *)

(* redirector.rs AuditEntry *)
Record audit_entry := {
  ae_logon : N;        (* logon_id : u64 -- the uid *)
  ae_pid : N;          (* process_id : u32 *)
  ae_is_admin : Z;     (* is_admin : i32 *)
  ae_ip : N;           (* destination_ipv4 : u32, network byte order (first octet = lowest byte) *)
  ae_port : N;         (* destination_port, here already in host byte order
                          (destination_port_in_host_byte_order) *)
}.

Definition audit_map := list (N * audit_entry).     (* source port -> record *)

(* Ipv4Addr::from_bits(self.destination_ipv4.to_be()).to_string() on a little-endian host; the same
   text as redirector::ip_to_string *)
Definition DOTB : N := 46.
Definition ipv4_text (ip : N) : bytes :=
  dec (ip mod 256) ++ [DOTB] ++ dec ((ip / 256) mod 256) ++ [DOTB] ++
  dec ((ip / 65536) mod 256) ++ [DOTB] ++ dec ((ip / 16777216) mod 256).

(* TcpConnectionContext: claims, destination_ip (+ destination_port) *)
Record conn_ctx := {
  cx_claims : option claims;
  cx_dest : option (N * N);       (* (destination ip as recorded, port in host order) *)
}.

Definition ctx_none : conn_ctx := {| cx_claims := None; cx_dest := None |}.

(* what the operating system answers for (uid, pid): user name, groups, process name, exe path;
   None = Claims::from_audit_entry returned Err (cannot happen on Linux, can on Windows) *)
Definition os_view := N -> N -> option (bytes * list bytes * bytes * bytes).

(* proxy.rs Claims::from_audit_entry: everything but the OS lookups comes from the record *)
Definition claims_of_entry (os : os_view) (e : audit_entry) : option claims :=
  match os (ae_logon e) (ae_pid e) with
  | Some (u, g, p, x) =>
      Some {| k_user := u; k_groups := g; k_proc := p; k_exe := x;
              k_elevated := elevated_of_audit (ae_is_admin e) |}
  | None => None
  end.

Definition ctx_of (os : os_view) (e : audit_entry) : conn_ctx :=
  {| cx_claims := claims_of_entry os e; cx_dest := Some (ae_ip e, ae_port e) |}.

(* TcpConnectionContext::new + get_audit_entry: look the source port up; when found, remove the
   record (the removal may fail: the record then stays) and build the context from the record;
   when not found the connection is "direct": no claims, no destination. *)
Definition accept (os : os_view) (fail_remove : bool) (m : audit_map) (port : N)
  : conn_ctx * audit_map :=
  match alookup N.eqb port m with
  | Some e => (ctx_of os e, if fail_remove then m else aremove N.eqb port m)
  | None => (ctx_none, m)
  end.

(* ---------------------------------------------------------------------------------------------- *)
(* The request as the handler reads it                                                             *)
(* ---------------------------------------------------------------------------------------------- *)

(* hyper::Uri of the request target *)
Record uri := {
  ur_scheme : option bytes;
  ur_authority : option bytes;
  ur_path : bytes;                 (* uri.path() *)
  ur_query : option bytes;         (* uri.query() *)
}.

Record request := {
  rq_method : bytes;
  rq_uri : uri;
}.

Definition origin_uri (path : bytes) (query : option bytes) : uri :=
  {| ur_scheme := None; ur_authority := None; ur_path := path; ur_query := query |}.

(* the view the RBAC model takes: path() and query().unwrap_or("") *)
Definition url_of (r : request) : url :=
  {| u_path := ur_path (rq_uri r);
     u_query := match ur_query (rq_uri r) with Some q => q | None => [] end |}.

Definition DOTDOT : bytes := [46; 46].
Definition QMARK : N := 63.
Definition HASH : N := 35.
Definition COLON_SLASH_SLASH : bytes := [58; 47; 47].

(* HttpConnectionContext::contains_traversal_characters: self.url.path().contains("..") *)
Definition has_traversal (r : request) : bool := contains (ur_path (rq_uri r)) DOTDOT.

Definition eq_ignore_case (a b : bytes) : bool := beq (lower a) (lower b).

(* http 1.1.0  impl PartialEq<str> for Uri, statement by statement; [other] is the str *)
Definition uri_eq_str (u : uri) (other : bytes) : bool :=
  (* scheme *)
  let step1 : option (bytes * bool) :=
    match ur_scheme u with
    | Some s =>
        if (N.of_nat (length other) <? N.of_nat (length s) + 3) then None
        else if negb (eq_ignore_case s (firstn (length s) other)) then None
        else let o := skipn (length s) other in
             if negb (beq (firstn 3 o) COLON_SLASH_SLASH) then None
             else Some (skipn 3 o, true)
    | None => Some (other, false)
    end in
  match step1 with
  | None => false
  | Some (o1, abs1) =>
    (* authority *)
    let step2 : option (bytes * bool) :=
      match ur_authority u with
      | Some a =>
          if (N.of_nat (length o1) <? N.of_nat (length a)) then None
          else if negb (eq_ignore_case a (firstn (length a) o1)) then None
          else Some (skipn (length a) o1, true)
      | None => Some (o1, abs1)
      end in
    match step2 with
    | None => false
    | Some (o2, absolute) =>
      (* path *)
      let p := ur_path u in
      let step3 : option bytes :=
        if (N.of_nat (length o2) <? N.of_nat (length p)) || negb (beq p (firstn (length p) o2)) then
          (if absolute && beq p [47] then Some o2 else None)
        else Some (skipn (length p) o2) in
      match step3 with
      | None => false
      | Some o3 =>
        (* query *)
        let tail_ok (o : bytes) := match o with [] => true | c :: _ => c =? HASH end in
        match ur_query u with
        | Some q =>
            match o3 with
            | [] => match q with [] => true | _ => false end
            | c :: o4 =>
                if negb (c =? QMARK) then false
                else if (N.of_nat (length o4) <? N.of_nat (length q)) then false
                else if negb (beq q (firstn (length q) o4)) then false
                else tail_ok (skipn (length q) o4)
            end
        | None => tail_ok o3
        end
      end
    end
  end.

(* http_connection_context.url == provision::provision_query::PROVISION_URL_PATH -- the WHOLE uri is
   compared, not its path *)
Definition is_provision (r : request) : bool := uri_eq_str (rq_uri r) Consts.provision_url_path.

(* ---------------------------------------------------------------------------------------------- *)
(* The environment of one request                                                                  *)
(* ---------------------------------------------------------------------------------------------- *)

(* Result<Option<ComputedAuthorizationItem>> of KeyKeeperSharedState::get_*_rules *)
Inductive rules_result := ROk (rs : option computed) | RErr.

Record env := {
  e_counter_ok : bool;                 (* increase_connection_count() returned Ok *)
  e_claims_json_ok : claims -> bool;   (* serde_json::to_string(&claims) returned Ok *)
  e_ws : rules_result;                 (* get_wireserver_rules() *)
  e_ga : rules_result;                 (* get_hostga_rules() *)
  e_imds : rules_result;               (* get_imds_rules() *)
}.

(* proxy_authorizer::get_access_control_rules: match (ip.as_str(), port) { (WIRE_SERVER_IP, WIRE_SERVER_PORT)
   => wireserver, (GA_PLUGIN_IP, GA_PLUGIN_PORT) => hostga, (IMDS_IP, IMDS_PORT) => imds, _ => Ok(None) } *)
Definition rules_for (e : env) (ip : bytes) (port : N) : rules_result :=
  if beq ip Consts.wire_server_ip && (port =? Consts.wire_server_port) then e_ws e
  else if beq ip Consts.ga_plugin_ip && (port =? Consts.ga_plugin_port) then e_ga e
  else if beq ip Consts.imds_ip && (port =? Consts.imds_port) then e_imds e
  else ROk None.

(* ---------------------------------------------------------------------------------------------- *)
(* handle_new_http_request                                                                         *)
(* ---------------------------------------------------------------------------------------------- *)

(* the request handed to the forward step: where it goes, on whose behalf, what was asked *)
Record upstream := {
  up_ip : N;
  up_port : N;
  up_claims : claims;
  up_request : request;
}.

Inductive outcome :=
| Resp (status : N)          (* Ok(Self::empty_response(status)) before the forward step *)
| Provision                  (* handle_provision_state_check_request: answered locally *)
| Relay (u : upstream).      (* the forward step is entered (headers added, signature, send_request) *)

Inductive effect :=
| UpstreamWrite (u : upstream)      (* send_request: the only place that writes to the upstream socket *)
| FailedSummary (status : N)        (* log_connection_summary(.., log_authorize_failed = true, ..) *)
| Summary (status : N).             (* log_connection_summary(.., log_authorize_failed = false, ..) *)

Section Handle.
  (* proxy_authorizer::authorize(ip, port, logger, uri, claims, rules) *)
  Context (authz : bytes -> N -> claims -> url -> option computed -> auth_result).

  Definition handle_gen (e : env) (cx : conn_ctx) (r : request) : outcome * list effect :=
    if negb (e_counter_ok e) then
      (Resp Consts.handler_status_counter_failure, [])
    else if has_traversal r then
      (Resp Consts.handler_status_traversal, [Summary Consts.handler_status_traversal])
    else if is_provision r then
      (Provision, [])
    else
      match cx_dest cx with
      | None =>
          (Resp Consts.handler_status_no_destination, [Summary Consts.handler_status_no_destination])
      | Some (ip, port) =>
          match cx_claims cx with
          | None =>
              (Resp Consts.handler_status_no_claims, [FailedSummary Consts.handler_status_no_claims])
          | Some c =>
              if negb (e_claims_json_ok e c) then
                (Resp Consts.handler_status_claims_json, [Summary Consts.handler_status_claims_json])
              else
                match rules_for e (ipv4_text ip) port with
                | RErr =>
                    (Resp Consts.handler_status_rules_error, [Summary Consts.handler_status_rules_error])
                | ROk rs =>
                    let u := {| up_ip := ip; up_port := port; up_claims := c; up_request := r |} in
                    match authz (ipv4_text ip) port c (url_of r) rs with
                    | AOk => (Relay u, [UpstreamWrite u])
                    | AOkWithAudit =>
                        (Relay u, [FailedSummary Consts.handler_status_forbidden; UpstreamWrite u])
                    | AForbidden =>
                        (Resp Consts.handler_status_forbidden,
                         [FailedSummary Consts.handler_status_forbidden;
                          Summary Consts.handler_status_forbidden])
                    end
                end
          end
      end.
End Handle.

Definition authorize_at_current (ip : bytes) (port : N) (k : claims) (u : url) (rs : option computed)
  : auth_result := authorize_current (kind_of ip port) k u rs.

Definition handle := handle_gen authorize_at.
Definition handle_current := handle_gen authorize_at_current.

(* accept followed by one request on the accepted connection *)
Definition serve (os : os_view) (fail_remove : bool) (e : env) (m : audit_map) (port : N) (r : request)
  : outcome * list effect :=
  handle e (fst (accept os fail_remove m port)) r.

Definition is_relay (o : outcome) : bool := match o with Relay _ => true | _ => false end.

Definition writes_upstream (fx : list effect) : bool :=
  existsb (fun f => match f with UpstreamWrite _ => true | _ => false end) fx.

(* the statuses the property text lists for the refusals *)
Definition refusal_statuses : list N := [404; 421; 500; 403].

(* ---------------------------------------------------------------------------------------------- *)
(* encodings used by the correspondence check                                                      *)
(* ---------------------------------------------------------------------------------------------- *)
Definition outcome_code (o : outcome) : N * N :=
  match o with Resp s => (0, s) | Provision => (1, 0) | Relay _ => (2, 0) end.

Definition effect_code (f : effect) : N * N :=
  match f with UpstreamWrite _ => (0, 0) | FailedSummary s => (1, s) | Summary s => (2, s) end.

Definition result_codes (x : outcome * list effect) : (N * N) * list (N * N) :=
  (outcome_code (fst x), map effect_code (snd x)).
