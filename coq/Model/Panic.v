(* C13 -- No input can crash a request handler or a background task.

   Rust operations that can panic, as PARTIAL functions ([option], [None] = panic) over byte
   strings, and every inventoried SITE wrapped the way the code wraps it.  Each site has two
   forms: [..._cur] mirrors the code of the pinned commit statement by statement (these are the
   forms the F7 defects live in); [..._fixed] mirrors the repaired code of patches/fix-C13-*.diff.
   The check (tools/checks/c13.py) decides per site which form the working tree has (static
   inventory tools/panic_sites.py) and runs the real code against that form.

   Definitions only; proofs are in Proofs/PanicProofs.v.  Offsets are [nat] (the constants come
   from Consts as [N] and are converted once). *)
From GPA Require Export Bytes Consts.

(* string literals (String is imported only inside this module: it would shadow List.length) *)
From Coq Require Ascii String.
Module Lits.
Import Ascii String.
Definition lit_status_message_is_too_long_tru : bytes := B"Status message is too long, truncating to ".
Definition lit_characters_message : bytes := B" characters. Message: ".
Definition lit_utf_8 : bytes := B"utf-8".
Definition lit_utf_16 : bytes := B"utf-16".
Definition lit_utf_32 : bytes := B"utf-32".
Definition lit_error : bytes := B"ERROR".
Definition lit_warn : bytes := B"WARN".
Definition lit_info : bytes := B"INFO".
Definition lit_debug : bytes := B"DEBUG".
Definition lit_trace : bytes := B"TRACE".
Definition lit_stamp : bytes := B"2026-10-01T21:07:51.".
End Lits.


(* ------------------------------------------------------------------------------------------ *)
(* 1. primitive operations                                                                     *)
(* ------------------------------------------------------------------------------------------ *)

(* UTF-8 continuation byte 0b10xxxxxx *)
Definition is_cont (b : N) : bool := (128 <=? b) && (b <? 192).

(* core::str::is_char_boundary:
     if index == 0 { true } else if index >= len { index == len } else { (bytes[index] as i8) >= -0x40 } *)
Definition is_char_boundary (s : bytes) (n : nat) : bool :=
  match n with
  | O => true
  | _ => match nth_error s n with
         | Some b => negb (is_cont b)
         | None => Nat.eqb n (length s)
         end
  end.

(* &s[..n] / &s[0..n] on a str: panics unless n <= len and n is a char boundary *)
Definition slice_to (s : bytes) (n : nat) : option bytes :=
  if is_char_boundary s n then Some (firstn n s) else None.

(* String::truncate(n): no effect when n > len, otherwise asserts is_char_boundary(n) *)
Definition truncate (s : bytes) (n : nat) : option bytes :=
  if Nat.leb n (length s) then slice_to s n else Some s.

(* the repair: cut at the largest char boundary <= n
     let mut end = n; while !s.is_char_boundary(end) { end -= 1; } &s[..end]            *)
Fixpoint floor_boundary (s : bytes) (n : nat) : nat :=
  match n with
  | O => O
  | S m => if is_char_boundary s (S m) then S m else floor_boundary s m
  end.
Definition cut_floor (s : bytes) (n : nat) : bytes := firstn (floor_boundary s n) s.

(* http::HeaderValue: from_bytes accepts b >= 32 && b != 127 || b == '\t';
   to_str accepts only visible ASCII: b >= 32 && b < 127 || b == '\t' *)
Definition is_valid_hv_byte (b : N) : bool := ((32 <=? b) && negb (b =? 127) && (b <? 256)) || (b =? 9).
Definition is_visible_ascii (b : N) : bool := ((32 <=? b) && (b <? 127)) || (b =? 9).
Definition hv_valid (v : bytes) : bool := forallb is_valid_hv_byte v.
Definition to_str (v : bytes) : option bytes := if forallb is_visible_ascii v then Some v else None.

(* String::from_utf8_lossy (core::str::Utf8Chunks): every maximal invalid subpart becomes U+FFFD *)
Definition fffd : bytes := [239; 191; 189].
Definition in_rng (lo hi b : N) : bool := (lo <=? b) && (b <=? hi).
Definition second_lo (b0 : N) : N := if b0 =? 224 then 160 else if b0 =? 240 then 144 else 128.
Definition second_hi (b0 : N) : N := if b0 =? 237 then 159 else if b0 =? 244 then 143 else 191.
Fixpoint lossy (s : bytes) : bytes :=
  match s with
  | [] => []
  | b0 :: t =>
      if b0 <? 128 then b0 :: lossy t
      else if in_rng 194 223 b0 then
        match t with
        | b1 :: t1 => if in_rng 128 191 b1 then b0 :: b1 :: lossy t1 else fffd ++ lossy t
        | [] => fffd
        end
      else if in_rng 224 239 b0 then
        match t with
        | b1 :: t1 =>
            if in_rng (second_lo b0) (second_hi b0) b1 then
              match t1 with
              | b2 :: t2 => if in_rng 128 191 b2 then b0 :: b1 :: b2 :: lossy t2 else fffd ++ lossy t1
              | [] => fffd
              end
            else fffd ++ lossy t
        | [] => fffd
        end
      else if in_rng 240 244 b0 then
        match t with
        | b1 :: t1 =>
            if in_rng (second_lo b0) (second_hi b0) b1 then
              match t1 with
              | b2 :: t2 =>
                  if in_rng 128 191 b2 then
                    match t2 with
                    | b3 :: t3 => if in_rng 128 191 b3 then b0 :: b1 :: b2 :: b3 :: lossy t3 else fffd ++ lossy t2
                    | [] => fffd
                    end
                  else fffd ++ lossy t1
              | [] => fffd
              end
            else fffd ++ lossy t
        | [] => fffd
        end
      else fffd ++ lossy t
  end.
(* a Rust String is a byte string that decodes to itself without any replacement *)
Fixpoint utf8_valid (s : bytes) : bool :=
  match s with
  | [] => true
  | b0 :: t =>
      if b0 <? 128 then utf8_valid t
      else if in_rng 194 223 b0 then
        match t with b1 :: t1 => in_rng 128 191 b1 && utf8_valid t1 | [] => false end
      else if in_rng 224 239 b0 then
        match t with
        | b1 :: b2 :: t2 => in_rng (second_lo b0) (second_hi b0) b1 && in_rng 128 191 b2 && utf8_valid t2
        | _ => false
        end
      else if in_rng 240 244 b0 then
        match t with
        | b1 :: b2 :: b3 :: t3 =>
            in_rng (second_lo b0) (second_hi b0) b1 && in_rng 128 191 b2 && in_rng 128 191 b3 && utf8_valid t3
        | _ => false
        end
      else false
  end.

(* byte_vec.chunks(2).map(|chunk| u16::from_le_bytes([chunk[0], chunk[1]])): chunk[1] panics on
   the last chunk of an odd-length slice *)
Fixpoint pair_le (f : bytes) : option (list N) :=
  match f with
  | [] => Some []
  | [_] => None
  | a :: b :: t => match pair_le t with Some r => Some ((a + 256 * b) :: r) | None => None end
  end.
(* chunks_exact(2): a trailing odd byte is left in the remainder, never indexed *)
Fixpoint pair_exact (f : bytes) : list N :=
  match f with
  | a :: b :: t => (a + 256 * b) :: pair_exact t
  | _ => []
  end.

(* unsigned subtraction a - b: debug builds panic on underflow; release builds wrap *)
Definition sub_checked (a b : N) : option N := if b <=? a then Some (a - b) else None.
Definition sub_wrapping (bits a b : N) : N := (a + 2 ^ bits - b mod 2 ^ bits) mod 2 ^ bits.
Definition sub_saturating (a b : N) : N := a - b.    (* N subtraction truncates at 0 *)

Fixpoint mapM {X Y} (f : X -> option Y) (l : list X) : option (list Y) :=
  match l with
  | [] => Some []
  | x :: t => match f x, mapM f t with Some y, Some r => Some (y :: r) | _, _ => None end
  end.

(* ------------------------------------------------------------------------------------------ *)
(* 2. the sites                                                                                *)
(* ------------------------------------------------------------------------------------------ *)
Definition MAXM : nat := N.to_nat Consts.max_message_length.          (* event_logger.rs  4096 *)
Definition MAXE : nat := N.to_nat Consts.max_error_details_len.       (* proxy_server.rs  4096 *)
Definition MAXS : nat := N.to_nat Consts.max_status_message_length.   (* agent_status_wrapper.rs 1024 *)

(* -- S1  proxy_agent_shared/src/telemetry/event_logger.rs  write_event ------------------------
     let event_message = if message.len() > MAX_MESSAGE_LENGTH {
         message[..MAX_MESSAGE_LENGTH].to_string() } else { message.to_string() };
   result = the message queued in the event                                                    *)
Definition cut_cur (mx : nat) (msg : bytes) : option bytes :=
  if Nat.ltb mx (length msg) then slice_to msg mx else Some msg.
Definition cut_fixed (mx : nat) (msg : bytes) : option bytes :=
  if Nat.ltb mx (length msg) then slice_to msg (floor_boundary msg mx) else Some msg.
Definition write_event_cur : bytes -> option bytes := cut_cur MAXM.
Definition write_event_fixed : bytes -> option bytes := cut_fixed MAXM.

(* serde_json's string escaping (used for every String field of the connection summary) *)
Definition hex_digit (n : N) : N := if n <? 10 then 48 + n else 87 + n.
Definition json_escape_byte (b : N) : bytes :=
  if b =? 34 then [92; 34]
  else if b =? 92 then [92; 92]
  else if b =? 8 then [92; 98]
  else if b =? 9 then [92; 116]
  else if b =? 10 then [92; 110]
  else if b =? 12 then [92; 102]
  else if b =? 13 then [92; 114]
  else if b <? 32 then [92; 117; 48; 48; hex_digit (b / 16); hex_digit (b mod 16)]
  else [b].
Definition json_escape (s : bytes) : bytes := flat_map json_escape_byte s.

(* -- S2  proxy_agent/src/proxy/proxy_server.rs  log_connection_summary ------------------------
     if error_details.len() > MAX_ERROR_DETAILS_LEN { error_details.truncate(MAX_ERROR_DETAILS_LEN); }
     let summary = ProxySummary { .., errorDetails: error_details };
     if let Ok(json) = serde_json::to_string(&summary) { ..; event_logger::write_event(Info, json, ..) }
   [pre] = the serialised summary up to and including the opening quote of the errorDetails value (it carries the caller
   user name, executable path and command line and the request URL); errorDetails is the last
   field.  Result = (truncated details, queued event message).                                  *)
Definition summary_json (pre details : bytes) : bytes := pre ++ json_escape details ++ [34; 125].
Definition summary_with (cut : nat -> bytes -> option bytes) (trunc : bytes -> option bytes)
           (pre details : bytes) : option (bytes * bytes) :=
  match trunc details with
  | None => None
  | Some d => match cut MAXM (summary_json pre d) with
              | None => None
              | Some m => Some (d, m)
              end
  end.
Definition trunc_cur (details : bytes) : option bytes :=
  if Nat.ltb MAXE (length details) then truncate details MAXE else Some details.
Definition trunc_fixed (details : bytes) : option bytes :=
  if Nat.ltb MAXE (length details) then truncate details (floor_boundary details MAXE) else Some details.
Definition summary_cur := summary_with cut_cur trunc_cur.
Definition summary_fixed := summary_with cut_fixed trunc_fixed.

(* -- S3  proxy_agent/src/shared_state/agent_status_wrapper.rs ----------------------------------
   set_module_status_message: the actor stores the message; when it changed,
       event_logger::write_event(Warn, message, ..)
   get_module_status:
       if message.len() > MAX_STATUS_MESSAGE_LENGTH {
           event_logger::write_event(Warn, format!("Status message is too long, truncating to {}
               characters. Message: {}", MAX_STATUS_MESSAGE_LENGTH, message), ..);
           message = format!("{}...", &message[0..MAX_STATUS_MESSAGE_LENGTH]); }                 *)
Definition status_prefix : bytes :=
  Lits.lit_status_message_is_too_long_tru ++ dec Consts.max_status_message_length
  ++ Lits.lit_characters_message.
Definition dots : bytes := [46; 46; 46].
Definition status_with (cut : nat -> bytes -> option bytes) (slice : bytes -> option bytes)
           (msg : bytes) : option bytes :=
  if Nat.ltb MAXS (length msg) then
    match cut MAXM (status_prefix ++ msg) with
    | None => None
    | Some _ => match slice msg with Some m => Some (m ++ dots) | None => None end
    end
  else Some msg.
Definition get_module_status_cur : bytes -> option bytes :=
  status_with cut_cur (fun m => slice_to m MAXS).
Definition get_module_status_fixed : bytes -> option bytes :=
  status_with cut_fixed (fun m => slice_to m (floor_boundary m MAXS)).
Definition set_module_status_cur (updated : bool) (msg : bytes) : option bytes :=
  if updated then write_event_cur msg else Some msg.
Definition set_module_status_fixed (updated : bool) (msg : bytes) : option bytes :=
  if updated then write_event_fixed msg else Some msg.

(* -- S4  proxy_agent/src/common/hyper_client.rs  headers_to_canonicalized_string ---------------
     for (key, value) in headers.iter() { let value = value.to_str().unwrap().to_string(); .. }
   result = the (lower-cased name, value text) pairs that enter the canonical string (their
   ordering / de-duplication is C04's subject, not modelled here)                               *)
Definition canon_headers_cur (hs : list (bytes * bytes)) : option (list (bytes * bytes)) :=
  mapM (fun kv => match to_str (snd kv) with Some v => Some (lower (fst kv), v) | None => None end) hs.
(* repaired: String::from_utf8_lossy(value.as_bytes()) *)
Definition canon_headers_fixed (hs : list (bytes * bytes)) : option (list (bytes * bytes)) :=
  Some (map (fun kv => (lower (fst kv), lossy (snd kv))) hs).

(* -- S5  proxy_agent/src/common/hyper_client.rs  read_response_body ----------------------------
   charset from the Content-Type header (to_str failure => unknown), then per body frame:
     "utf-16" => chunk.to_vec().chunks(2).map(|c| u16::from_le_bytes([c[0], c[1]]))  -> from_utf16_lossy
     "utf-32" => return Err(..)        _ => from_utf8_lossy(chunk)
   result = the decoded code units (utf-16) or bytes (utf-8), or the utf-32 refusal             *)
Inductive charset := CsUtf8 | CsUtf16 | CsUtf32 | CsUnknown.
Definition charset_of (content_type : option bytes) : charset :=
  match content_type with
  | None => CsUnknown
  | Some v =>
      match to_str v with
      | None => CsUnknown
      | Some s =>
          let l := lower s in
          if contains l (Lits.lit_utf_8) then CsUtf8
          else if contains l (Lits.lit_utf_16) then CsUtf16
          else if contains l (Lits.lit_utf_32) then CsUtf32
          else CsUnknown
      end
  end.
Inductive body := BodyUnits (u : list N) | BodyBytes (b : bytes) | BodyRefused.
Definition utf16_cur (frames : list bytes) : option (list N) :=
  match mapM pair_le frames with Some l => Some (concat l) | None => None end.
(* repaired: collect the frames, decode once with chunks_exact(2) *)
Definition utf16_fixed (frames : list bytes) : option (list N) := Some (pair_exact (concat frames)).
Definition read_body_with (u16 : list bytes -> option (list N)) (ct : option bytes) (frames : list bytes)
  : option body :=
  match charset_of ct with
  | CsUtf16 => match u16 frames with Some u => Some (BodyUnits u) | None => None end
  | CsUtf32 => Some (match frames with [] => BodyBytes [] | _ => BodyRefused end)
  | _ => Some (BodyBytes (concat (map lossy frames)))
  end.
Definition read_body_cur := read_body_with utf16_cur.
Definition read_body_fixed := read_body_with utf16_fixed.

(* -- S6  proxy_agent/src/key_keeper.rs  loop_poll (notified while the channel state is known) --
     let slept_time_in_millisec = time.elapsed().as_millis();             // u128
     let continue_sleep = sleep.as_millis() - slept_time_in_millisec;     // u128 - u128
     if continue_sleep > 0 { tokio::time::sleep(Duration::from_millis(continue_sleep as u64)).await; }
   result = the additional sleep in milliseconds                                                *)
Definition continue_sleep_debug (sleep_ms slept_ms : N) : option N := sub_checked sleep_ms slept_ms.
Definition continue_sleep_release (sleep_ms slept_ms : N) : option N :=
  Some (sub_wrapping 128 sleep_ms slept_ms mod 2 ^ 64).        (* `as u64` keeps the low 64 bits *)
Definition continue_sleep_fixed (sleep_ms slept_ms : N) : option N := Some (sub_saturating sleep_ms slept_ms).

(* -- S7  proxy_agent_shared/src/logger.rs  get_log_header ---------------------------------------
     format!("{} [{}]    ", misc_helpers::get_date_time_string_with_milliseconds(), level)[..34]
   with  get_date_time_string_with_milliseconds =
     format "[year]-[month]-[day]T[hour]:[minute]:[second].[subsecond]" .chars().take(23)
   The time crate prints [subsecond] (default digits:1+) with the MINIMAL number of digits: the
   nine-digit nanosecond value without its trailing zeros, at least one digit.  [stamp] is the
   20-character "YYYY-MM-DDTHH:MM:SS." part.                                                     *)
Definition digit_at (n : N) (k : N) : N := 48 + (n / 10 ^ k) mod 10.
Definition digits9 (n : N) : bytes := map (digit_at n) [8; 7; 6; 5; 4; 3; 2; 1; 0].
Fixpoint drop_zeros (l : bytes) : bytes :=
  match l with x :: t => if x =? 48 then drop_zeros t else l | [] => [] end.
Definition subsec_min (nanos : N) : bytes :=
  match drop_zeros (rev (digits9 nanos)) with [] => [48] | r => rev r end.
(* repaired format description: [subsecond digits:3] *)
Definition subsec_3 (nanos : N) : bytes := map (digit_at nanos) [8; 7; 6].
Definition log_header_text (date level : bytes) : bytes :=
  firstn 23 date ++ [32; 91] ++ level ++ [93; 32; 32; 32; 32].
Definition log_header_of (date level : bytes) : option bytes := slice_to (log_header_text date level) 34.
Definition log_header_cur (stamp : bytes) (nanos : N) (level : bytes) : option bytes :=
  log_header_of (stamp ++ subsec_min nanos) level.
Definition log_header_fixed (stamp : bytes) (nanos : N) (level : bytes) : option bytes :=
  log_header_of (stamp ++ subsec_3 nanos) level.
Definition levels : list bytes := [Lits.lit_error; Lits.lit_warn; Lits.lit_info; Lits.lit_debug; Lits.lit_trace].   (* log::Level *)

(* ------------------------------------------------------------------------------------------ *)
(* 3. request handler, model level (control flow of handle_new_http_request reduced to the      *)
(*    sites a request reaches; the authorisation decision itself is C01/C02/C03's subject)      *)
(* ------------------------------------------------------------------------------------------ *)
Inductive route :=
  | Refused (status : N) (details : bytes)            (* 404 / 421 / 403 / 500: summary, then the status *)
  | Forward (sign : bool) (status : N) (details : bytes).  (* sign?, relay, summary (details = host error or "") *)
Record request := {
  rq_headers : list (bytes * bytes);   (* client header lines as hyper delivers them *)
  rq_pre : bytes;                      (* serialised summary head: caller names, command line, URL *)
  rq_route : route;
}.
Definition handle_with (canon : list (bytes * bytes) -> option (list (bytes * bytes)))
           (summary : bytes -> bytes -> option (bytes * bytes)) (r : request) : option N :=
  match rq_route r with
  | Refused st details =>
      match summary (rq_pre r) details with Some _ => Some st | None => None end
  | Forward sign st details =>
      match (if sign then canon (rq_headers r) else Some []) with
      | None => None
      | Some _ => match summary (rq_pre r) details with Some _ => Some st | None => None end
      end
  end.
Definition handle_cur := handle_with canon_headers_cur summary_cur.
Definition handle_fixed := handle_with canon_headers_fixed summary_fixed.
(* the listener spawns one task per connection: a panic ends that task only, so the answers to a
   sequence of requests are computed independently *)
Definition serve (handle : request -> option N) (rs : list request) : list (option N) := map handle rs.

(* ------------------------------------------------------------------------------------------ *)
(* 4. known classes (F7): syntactic descriptions of the inputs on which the CURRENT code        *)
(*    panics, one per site; the same predicates are implemented in tools/checks/c13.py          *)
(* ------------------------------------------------------------------------------------------ *)
Definition straddles (mx : nat) (s : bytes) : bool :=
  Nat.ltb mx (length s) && match nth_error s mx with Some b => is_cont b | None => false end.
Definition Known_write_event (msg : bytes) : bool := straddles MAXM msg.
Definition Known_summary (pre details : bytes) : bool :=
  straddles MAXE details || straddles MAXM (summary_json pre (firstn MAXE details)).
Definition Known_status (msg : bytes) : bool :=
  Nat.ltb MAXS (length msg) && (straddles MAXM (status_prefix ++ msg) || straddles MAXS msg).
Definition Known_header (hs : list (bytes * bytes)) : bool :=
  existsb (fun kv => negb (forallb is_visible_ascii (snd kv))) hs.
Definition Known_utf16 (ct : option bytes) (frames : list bytes) : bool :=
  match charset_of ct with CsUtf16 => existsb (fun f => Nat.odd (length f)) frames | _ => false end.
Definition Known_kk_sub (sleep_ms slept_ms : N) : bool := sleep_ms <? slept_ms.
Definition Known_log_header (stamp : bytes) (nanos : N) (level : bytes) : bool :=
  Nat.ltb (Nat.min 23 (length stamp + length (subsec_min nanos)) + length level + 7) 34.
Definition Known_handler (r : request) : bool :=
  match rq_route r with
  | Refused _ d => Known_summary (rq_pre r) d
  | Forward sign _ d => (sign && Known_header (rq_headers r)) || Known_summary (rq_pre r) d
  end.
Definition route_status (r : request) : N :=
  match rq_route r with Refused st _ => st | Forward _ st _ => st end.
