(* C07 -- the accept model with the client's FULL source address (local ip, source port) as the kernel sees it.
   The key of the audit map, exactly:
     linux-ebpf/socket.h        typedef struct { __u32 protocol; __u32 source_port; } sock_addr_audit_key;
     linux-ebpf/ebpf_cgroup.c   update_audit_map_entry_sk(skc.skc_num, ..): key = {IPPROTO_TCP, local port}
     proxy_agent/src/redirector/linux/ebpf_obj.rs   sock_addr_audit_key::from_source_port(port)
     proxy_agent/src/proxy/proxy_connection.rs      get_audit_entry: client_addr.port()
   i.e. (protocol = TCP, SOURCE PORT) on both sides: the local ip of the client is NOT part of the key.
   This file lifts Model/Accept.v to histories whose operations carry the full address; [proj] is the code's keying.
   Definitions only; proofs in Proofs/AcceptAddrProofs.v, theorems in Props/C07.v. *)
From GPA Require Export Accept.

Section AcceptAddr.
Context {R Q : Type}.

Definition addr := (N * N)%type.          (* (local source ip, source port) *)

Definition kernel_key (a : addr) : N := snd a.    (* what the connect hook writes the record under *)
Definition rust_key (a : addr) : N := snd a.      (* what lookup_audit / remove_audit are called with *)

Inductive aop :=
| AKRecord (c : N) (a : addr) (e : R)     (* the kernel records e for the connection c leaving from address a *)
| ALookup (c : N) (a : addr)              (* c is accepted by the listener with peer address a *)
| ARemove (c : N) (ok : bool)
| ARequest (c : N) (r : Q)
| AClose (c : N).

Definition proj (o : aop) : op R Q :=
  match o with
  | AKRecord c a e => KRecord c (kernel_key a) e
  | ALookup c a => Lookup c (rust_key a)
  | ARemove c ok => Remove c ok
  | ARequest c r => Request c r
  | AClose c => Close c
  end.

Definition afinal (s : state R) (h : list aop) : state R := final s (map proj h).
Definition aouts (s : state R) (h : list aop) : list (out R Q) := outs s (map proj h).
Definition aexclusive (h : list aop) : bool := exclusive (map proj h).
Definition aremoves_ok (h : list aop) : bool := removes_ok (map proj h).
Definition no_write_on_port (p : N) (h : list aop) : bool := no_krecord_on p (map proj h).
Definition no_accept_of (c : N) (h : list aop) : bool := no_lookup_of c (map proj h).

(* exclusivity at (ip, port) granularity only -- what TCP's 4-tuple uniqueness gives when clients may bind different
   local addresses: NOT sufficient (Props/C07.v, C07_address_exclusivity_is_not_enough) *)
End AcceptAddr.

Arguments aop : clear implicits.
