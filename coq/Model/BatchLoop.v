(* C13 (liveness of a background task) -- the batching loop of the telemetry reader,
   proxy_agent/src/telemetry/event_reader.rs  EventReader::send_events, statement by statement as
   a FLAT state machine iterated with FUEL.  The Rust loop is not structurally recursive: the
   overflowing event is pushed BACK onto the vector (`events.push(event)`), so termination is a
   theorem (Proofs/BatchLoopProofs.v), not a consequence of the definition's shape.

       while !events.is_empty() {                                   // pc = Outer
           let mut telemetry_data = TelemetryData::new();
           let mut add_more_events = true;
           while !events.is_empty() && add_more_events {            // pc = Inner
               match events.pop() {
                   Some(event) => {
                       telemetry_data.add_event(from_event_log(&event, ..));
                       if telemetry_data.get_size() >= MAX_MESSAGE_SIZE {
                           telemetry_data.remove_last_event();
                           if telemetry_data.event_count() == 0 { /* log "Event data too large", DROP */ }
                           else { events.push(event); }
                           add_more_events = false;
                       }
                   }
                   None => break,
               }
           }
           send_data_to_wire_server(telemetry_data, ..).await;       // nothing is posted for an empty batch
       }

   The model is generic in the event type and in the size test: [over b] says that the rendered
   batch [b] (with the newly added event last) has reached the limit.  Nothing is assumed about
   [over] -- any sizes, any escape expansion, events that are too large on their own.
   The instance used by the check: events are their rendered sizes, and
   get_size(batch) = envelope + sum of the event sizes (TelemetryData::to_xml is a concatenation). *)
From Coq Require Import List NArith Bool.
Import ListNotations.

Section Loop.
Context {E : Type} (over : list E -> bool).

Inductive pc := Outer | Inner.
Record state := mk_state {
  pend : list E;          (* `events`, as a stack: head = last element of the Vec (pop / push) *)
  batch : list E;         (* telemetry_data.events *)
  more : bool;            (* add_more_events *)
  at_pc : pc;
  sent : list (list E);   (* batches handed to send_data_to_wire_server, latest first (incl. empty ones) *)
  dropped : list E;       (* events logged as too large and not sent, latest first *)
}.

Inductive label := LInit | LMove | LDrop | LPushBack | LSend.
Inductive outcome := Done (s : state) | Next (l : label) (s : state).

(* what the s2 change removed: the "single event too large: drop it" branch *)
Definition step_gen (drop_branch : bool) (s : state) : outcome :=
  match at_pc s with
  | Outer =>
      match pend s with
      | [] => Done s                                                   (* while !events.is_empty() *)
      | _ :: _ => Next LInit (mk_state (pend s) [] true Inner (sent s) (dropped s))
      end
  | Inner =>
      match pend s, more s with
      | e :: p', true =>                                               (* events.pop() = Some(event) *)
          let b1 := batch s ++ [e] in                                  (* add_event *)
          if over b1 then                                              (* get_size() >= MAX_MESSAGE_SIZE *)
            match batch s with                                         (* remove_last_event(); event_count() == 0 ? *)
            | [] => if drop_branch
                    then Next LDrop (mk_state p' [] false Inner (sent s) (e :: dropped s))
                    else Next LPushBack (mk_state (e :: p') [] false Inner (sent s) (dropped s))
            | _ :: _ => Next LPushBack (mk_state (e :: p') (batch s) false Inner (sent s) (dropped s))
            end
          else Next LMove (mk_state p' b1 true Inner (sent s) (dropped s))
      | _, _ =>                                                        (* inner loop ends: send, back to the outer test *)
          Next LSend (mk_state (pend s) [] true Outer (batch s :: sent s) (dropped s))
      end
  end.
Definition step := step_gen true.          (* the code *)
Definition step_s2 := step_gen false.      (* the seeded variant s2 *)

(* fuel-based iteration; None = out of fuel *)
Fixpoint run_gen (d : bool) (fuel : nat) (s : state) : option state :=
  match fuel with
  | O => None
  | S f => match step_gen d s with Done r => Some r | Next _ s' => run_gen d f s' end
  end.
Definition run := run_gen true.
Definition run_s2 := run_gen false.

(* send_events(events: Vec<Event>): the vector in file order, pop() takes from the end *)
Definition init (evs : list E) : state := mk_state (rev evs) [] true Outer [] [].
Definition fuel_for (n : nat) : nat := 4 * n + 2.
Definition send_events (evs : list E) : option state := run (fuel_for (length evs)) (init evs).

(* one outer iteration: run until the program counter is back at the outer test *)
Fixpoint to_outer (fuel : nat) (s : state) : option state :=
  match fuel with
  | O => None
  | S f => match step s with
           | Done r => Some r
           | Next _ s' => match at_pc s' with Outer => Some s' | Inner => to_outer f s' end
           end
  end.

(* observable summary: number of non-empty batches (= POSTs when the host accepts each at once)
   and number of dropped events *)
Definition posts (s : state) : nat := length (filter (fun b => match b with [] => false | _ => true end) (sent s)).
Definition drops (s : state) : nat := length (dropped s).
End Loop.

(* the instance the check evaluates: an event is its rendered size; the batch is over the limit
   when envelope + sum of sizes >= limit *)
Definition over_sizes (limit envelope : N) (b : list N) : bool :=
  N.leb limit (fold_left N.add b envelope).
Definition summary (limit envelope : N) (sizes : list N) : option (nat * nat) :=
  match send_events (over_sizes limit envelope) sizes with
  | Some s => Some (posts s, drops s)
  | None => None
  end.
