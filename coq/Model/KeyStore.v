(* C08 -- the local key store and the latch procedure as a crash/fault trace.
   Mirrors key_keeper.rs::{store_local_key, fetch_local_key, check_local_key, fetch_key} (Linux:
   plain `<guid>.key` files), misc_helpers.rs::json_write_to_file (temp file + rename),
   serde_json::to_writer_pretty / from_str on `struct Key`, and -- through Model/KeyKeeper.v's
   [poll] -- the "if !key_found" block of loop_poll.  Definitions only.

   The world is (file system, host); one poll of the agent from memory state [mem] under a fault
   pattern [f] is the low-level event list [trace st mem f] obtained by expanding the effect
   list of KeyKeeper.poll; a crash is a prefix of that list followed by the loss of [mem]. *)
From GPA Require Export KeyKeeper CrashFs.

(* ---------------------------------------------------------------- JSON codec of struct Key *)
Definition hexdigit (n : N) : N := if n <? 10 then 48 + n else 87 + n.       (* lower case *)
Definition hexval (b : N) : option N :=
  if (48 <=? b) && (b <=? 57) then Some (b - 48)
  else if (97 <=? b) && (b <=? 102) then Some (b - 87)
  else if (65 <=? b) && (b <=? 70) then Some (b - 55)
  else None.

(* serde_json's string escaping: quote, backslash, \b \t \n \f \r, other control bytes as \u00xx *)
Definition esc_byte (b : N) : bytes :=
  if b =? 34 then [92; 34]
  else if b =? 92 then [92; 92]
  else if b =? 8 then [92; 98]
  else if b =? 9 then [92; 116]
  else if b =? 10 then [92; 110]
  else if b =? 12 then [92; 102]
  else if b =? 13 then [92; 114]
  else if b <? 32 then [92; 117; 48; 48; hexdigit (b / 16); hexdigit (b mod 16)]
  else [b].

Definition esc (s : bytes) : bytes := flat_map esc_byte s.
Definition jstr (s : bytes) : bytes := 34 :: esc s ++ [34].

Definition unesc_char (c : N) : option N :=
  if c =? 34 then Some 34 else if c =? 92 then Some 92 else if c =? 47 then Some 47
  else if c =? 98 then Some 8 else if c =? 116 then Some 9 else if c =? 110 then Some 10
  else if c =? 102 then Some 12 else if c =? 114 then Some 13 else None.

Definition cons_res (b : N) (r : option (bytes * bytes)) : option (bytes * bytes) :=
  match r with Some (s, rest) => Some (b :: s, rest) | None => None end.

(* the characters of a JSON string up to the closing quote; returns (content, text after the quote).
   \uXXXX is accepted for code points below 0x80 only (all the encoder ever emits). *)
Fixpoint parse_str (s : bytes) : option (bytes * bytes) :=
  match s with
  | [] => None
  | b :: rest =>
      if b =? 34 then Some ([], rest)
      else if b =? 92 then
        match rest with
        | [] => None
        | c :: rest' =>
            if c =? 117 then
              match rest' with
              | h1 :: h2 :: h3 :: h4 :: r =>
                  match hexval h1, hexval h2, hexval h3, hexval h4 with
                  | Some 0, Some 0, Some v3, Some v4 =>
                      if v3 <? 8 then cons_res (v3 * 16 + v4) (parse_str r) else None
                  | _, _, _, _ => None
                  end
              | _ => None
              end
            else match unesc_char c with
                 | Some v => cons_res v (parse_str rest')
                 | None => None
                 end
        end
      else if b <? 32 then None
      else cons_res b (parse_str rest)
  end.

Definition parse_jstr (s : bytes) : option (bytes * bytes) :=
  match s with
  | b :: r => if b =? 34 then parse_str r else None
  | [] => None
  end.

(* an unsigned decimal number: at least one digit, up to the first non-digit *)
Fixpoint parse_num_acc (s : bytes) (acc : N) (seen : bool) : option (N * bytes) :=
  match s with
  | b :: rest =>
      if is_digit b then parse_num_acc rest (acc * 10 + (b - 48)) true
      else if seen then Some (acc, s) else None
  | [] => if seen then Some (acc, []) else None
  end.
Definition parse_num (s : bytes) : option (N * bytes) := parse_num_acc s 0 false.

Definition expect (p s : bytes) : option bytes :=
  if starts_with s p then Some (skipn (length p) s) else None.

Definition bind {X Y} (o : option X) (f : X -> option Y) : option Y :=
  match o with Some x => f x | None => None end.

(* `  "name": ` of the pretty printer (two-space indent) *)
Definition open_field (name : bytes) : bytes := [32; 32; 34] ++ name ++ [34; 58; 32].
Definition sep : bytes := [44; 10].          (* ",\n" *)
Definition obj_open : bytes := [123; 10].    (* "{\n" *)
Definition obj_close : bytes := [10; 125].   (* "\n}" *)

Definition F0 := Consts.kk_key_field_0.   (* authorizationScheme *)
Definition F1 := Consts.kk_key_field_1.   (* incarnationId, skipped when None *)
Definition F2 := Consts.kk_key_field_2.   (* guid *)
Definition F3 := Consts.kk_key_field_3.   (* issued *)
Definition F4 := Consts.kk_key_field_4.   (* key *)

(* serde_json::to_writer_pretty(&key) *)
Definition encode (k : key) : bytes :=
  obj_open ++ open_field F0 ++ jstr (key_scheme k) ++ sep
  ++ match key_inc k with Some n => open_field F1 ++ dec n ++ sep | None => [] end
  ++ open_field F2 ++ jstr (key_guid k) ++ sep
  ++ open_field F3 ++ jstr (key_issued k) ++ sep
  ++ open_field F4 ++ jstr (key_value k) ++ obj_close.

(* serde_json::from_str::<Key>, restricted to the pretty-printed shape: exact on the image of
   [encode] and on its strict prefixes (all rejected); other JSON texts are outside the model *)
Definition decode (s : bytes) : option key :=
  bind (expect (obj_open ++ open_field F0) s) (fun s1 =>
  bind (parse_jstr s1) (fun '(scheme, s2) =>
  bind (expect sep s2) (fun s3 =>
  bind (match expect (open_field F1) s3 with
        | Some t => bind (parse_num t) (fun '(n, t1) => bind (expect sep t1) (fun t2 => Some (Some n, t2)))
        | None => Some (None, s3)
        end) (fun '(inc, s4) =>
  bind (expect (open_field F2) s4) (fun s5 =>
  bind (parse_jstr s5) (fun '(guid, s6) =>
  bind (expect (sep ++ open_field F3) s6) (fun s7 =>
  bind (parse_jstr s7) (fun '(issued, s8) =>
  bind (expect (sep ++ open_field F4) s8) (fun s9 =>
  bind (parse_jstr s9) (fun '(value, s10) =>
  match s10 with
  | [10; 125] =>
      Some {| key_scheme := scheme; key_inc := inc; key_guid := guid; key_issued := issued; key_value := value |}
  | _ => None
  end)))))))))).

(* ---------------------------------------------------------------- file names, store, fetch *)
(* key_dir.join(guid) + set_extension("key") / with_extension("tmp"), for guids that are plain
   file names (non-empty, no '.', no '/'): paths are relative to the key directory *)
Definition keyfile (g : bytes) : path := g ++ 46 :: Consts.kk_key_file_ext.
Definition tmpfile (g : bytes) : path := g ++ 46 :: Consts.kk_temp_file_ext.

(* store_local_key(.., encrypted = false) -> json_write_to_file *)
Definition store_events (k : key) : list fs_event :=
  atomic_write_events (tmpfile (key_guid k)) (keyfile (key_guid k)) (encode k).

(* fetch_key -> fetch_local_key(.., false): exists, read_to_string, from_str *)
Definition fetch (f : fsys) (g : bytes) : option key :=
  match f (keyfile g) with Some c => decode c | None => None end.

(* ---------------------------------------------------------------- host and faults *)
Record host := { h_issued : list key; h_latched : option bytes }.
Definition wstate := (fsys * host)%type.

Inductive acq_fault :=
| AcqOk (k : key)       (* the host issues k and the agent receives it *)
| AcqLost (k : key)     (* the host issues k, the answer is lost / malformed / non-200 *)
| AcqErr.               (* the host issues nothing (error answer) *)

Inductive att_fault :=
| AttOk                 (* the host latches and answers 200 *)
| AttLost               (* the host latches, the answer is lost / not 200 *)
| AttErr.               (* the host refuses: nothing latched *)

Inductive store_fault :=
| StoreOk
| StoreFail (n : nat).  (* the store fails after n of its file-system events (0: create fails) *)

Record faults := {
  f_status : status_ans;
  f_acquire : acq_fault;
  f_store : store_fault;
  f_attest : att_fault;
  f_local_fail : bool;    (* the look-up of <guid>.key fails transiently (open / read error such as
                             EMFILE / EIO on an intact file): the agent sees "no local key", the disk is untouched *)
}.

Definition store_cut (f : faults) (k : key) : list fs_event :=
  match f_store f with
  | StoreOk => store_events k
  | StoreFail n => firstn (Nat.min n (length (store_events k) - 1)) (store_events k)
  end.

Definition store_ok (f : faults) : bool := match f_store f with StoreOk => true | StoreFail _ => false end.

(* what the agent sees of the world during one poll *)
Definition answers_of (st : wstate) (f : faults) : answers :=
  let acq := match f_acquire f with AcqOk k => Some k | _ => None end in
  {| a_status := f_status f;
     a_local := if f_local_fail f then None
                else match f_status f with
                     | StatusDoc d => match d_guid d with Some g => fetch (fst st) g | None => None end
                     | StatusErr => None
                     end;
     a_acquire := acq;
     a_store := store_ok f;
     a_readback := match acq with
                   | Some k => fetch (fs_run (fst st) (store_cut f k)) (key_guid k)
                   | None => None
                   end;
     a_attest := match f_attest f with AttOk => true | _ => false end |}.

(* low-level events: what reaches the host, what reaches the disk *)
Inductive lev :=
| LStatus
| LAcquire (issued : option key)
| LAttest (k : key) (latches : bool)
| LFs (e : fs_event)
| LNop (e : effect).      (* in-process steps: crash points without an external effect *)

Definition expand1 (f : faults) (e : effect) : list lev :=
  match e with
  | EStatus => [LStatus]
  | EAcquire => [LAcquire match f_acquire f with AcqOk k => Some k | AcqLost k => Some k | AcqErr => None end]
  | EStore k => map LFs (store_cut f k)
  | EAttest k => [LAttest k match f_attest f with AttErr => false | _ => true end]
  | _ => [LNop e]
  end.

Definition expand (f : faults) (es : list effect) : list lev := flat_map (expand1 f) es.

Definition apply_lev (st : wstate) (l : lev) : wstate :=
  let '(fs, h) := st in
  match l with
  | LAcquire (Some k) => (fs, {| h_issued := k :: h_issued h; h_latched := h_latched h |})
  | LAttest k true => (fs, {| h_issued := h_issued h; h_latched := Some (key_guid k) |})
  | LFs e => (fs_apply fs e, h)
  | _ => st
  end.

Definition run_levs (st : wstate) (ls : list lev) : wstate := fold_left apply_lev ls st.

(* one poll of the agent *)
Definition effects_of (st : wstate) (mem : kk) (f : faults) : list effect :=
  snd (poll mem (answers_of st f)).
Definition trace (st : wstate) (mem : kk) (f : faults) : list lev :=
  expand f (effects_of st mem f).
Definition mem_after (st : wstate) (mem : kk) (f : faults) : kk :=
  fst (poll mem (answers_of st f)).

(* a key is recoverable: the store returns a key of that guid which the host issued *)
Definition rec (st : wstate) (g : bytes) : Prop :=
  exists k, fetch (fst st) g = Some k /\ key_guid k = g /\ In k (h_issued (snd st)).

(* every key file holds a complete encoding *)
Definition files_whole (fs : fsys) : Prop :=
  forall g c, fs (keyfile g) = Some c -> exists k, c = encode k.

(* ---------------------------------------------------------------- histories of the whole system *)
Inductive sys_step :=
| SPoll (f : faults) (crash : option nat)   (* a poll; Some n: the process dies after n low-level events *)
| SRotate.                                  (* the host drops its latch (requires a new key) *)

Record world := { w_st : wstate; w_mem : kk }.

Definition world0 : world :=
  {| w_st := (fs_empty, {| h_issued := []; h_latched := None |}); w_mem := kk_init |}.

Definition sys_apply (w : world) (s : sys_step) : world :=
  match s with
  | SPoll f None =>
      {| w_st := run_levs (w_st w) (trace (w_st w) (w_mem w) f); w_mem := mem_after (w_st w) (w_mem w) f |}
  | SPoll f (Some n) =>
      {| w_st := run_levs (w_st w) (firstn n (trace (w_st w) (w_mem w) f)); w_mem := kk_init |}
  | SRotate =>
      {| w_st := (fst (w_st w), {| h_issued := h_issued (snd (w_st w)); h_latched := None |}); w_mem := w_mem w |}
  end.

Definition sys_run (w : world) (ss : list sys_step) : world := fold_left sys_apply ss w.

(* ---------------------------------------------------------------- output for the correspondence *)
Definition lev_req (l : lev) : option (N * bytes) :=
  match l with
  | LStatus => Some (0, [])
  | LAcquire _ => Some (3, [])
  | LAttest k _ => Some (6, key_guid k)
  | _ => None
  end.

Fixpoint reqs_of (ls : list lev) : list (N * bytes) :=
  match ls with
  | [] => []
  | l :: t => match lev_req l with Some r => r :: reqs_of t | None => reqs_of t end
  end.

(* the observable part of a world state: the contents of the given paths and the host's latch *)
Definition st_out (paths : list path) (st : wstate) :=
  (map (fst st) paths, h_latched (snd st), N.of_nat (length (h_issued (snd st)))).

(* all crash points of one poll: for each prefix length n, the requests that reached the host,
   the observable world, and what a fresh process does next under fault pattern [f2] *)
Definition restart_out (paths : list path) (st : wstate) (f2 : faults) :=
  let m := mem_after st kk_init f2 in
  (reqs_of (trace st kk_init f2), option_map key_out (k_key m), k_state m,
   st_out paths (run_levs st (trace st kk_init f2))).

Fixpoint crash_points (paths : list path) (st : wstate) (ls : list lev) (f2 : wstate -> faults) (pre : list (N * bytes)) :=
  (pre, st_out paths st, restart_out paths st (f2 st)) ::
  match ls with
  | [] => []
  | l :: t =>
      crash_points paths (apply_lev st l) t f2
        (match lev_req l with Some r => pre ++ [r] | None => pre end)
  end.

(* ---------------------------------------------------------------- scripted honest host (C08 check) *)
(* digest of a file's content: (length, checksum) *)
Definition digest (c : bytes) : N * N :=
  (N.of_nat (length c), fold_left (fun a b => (a * 257 + b + 1) mod 4294967291) c 0).
Definition st_digest (paths : list path) (st : wstate) :=
  (map (fun p => option_map digest (fst st p)) paths, h_latched (snd st), N.of_nat (length (h_issued (snd st)))).

(* one poll's host behaviour: the status document as a function of the host's latch (or a fixed
   guid), the keys the host hands out on successive acquire requests (indexed by how many it has
   issued), and the fault codes 0 = ok, 1 = lost (host acts, agent sees an error), 2 = error *)
Record hscript := {
  hs_rotate : bool;                       (* the host drops its latch before this poll *)
  hs_status_ok : bool;
  hs_doc : option bytes -> doc;
  hs_guid : option (option bytes);        (* Some g: report g instead of the latch *)
  hs_keys : list key;
  hs_acq : N;
  hs_store : option nat;                  (* Some n: the store fails after n events *)
  hs_att : N;
  hs_local_fail : bool;                   (* the look-up of the named key file fails transiently *)
  hs_reissue : bool;                      (* the host hands out its last key again while that key is not latched
                                             (as the repository's test_mock::server_mock does) *)
}.

Fixpoint guid_pos (g : bytes) (ks : list key) : nat :=
  match ks with
  | [] => O
  | k :: t => if beq (key_guid k) g then O else S (guid_pos g t)
  end.

(* the key the host hands out next: after its last one in [hs_keys], or that one again *)
Definition next_key (hs : hscript) (h : host) : option key :=
  match h_issued h with
  | [] => nth_error (hs_keys hs) 0
  | k0 :: _ =>
      if hs_reissue hs && negb (opt_beq (h_latched h) (Some (key_guid k0))) then Some k0
      else nth_error (hs_keys hs) (S (guid_pos (key_guid k0) (hs_keys hs)))
  end.

Definition faults_of (hs : hscript) (st : wstate) : faults :=
  let g := match hs_guid hs with Some g => g | None => h_latched (snd st) end in
  {| f_status := if hs_status_ok hs then StatusDoc (hs_doc hs g) else StatusErr;
     f_acquire := match next_key hs (snd st) with
                  | Some k => if hs_acq hs =? 0 then AcqOk k else if hs_acq hs =? 1 then AcqLost k else AcqErr
                  | None => AcqErr
                  end;
     f_store := match hs_store hs with Some n => StoreFail n | None => StoreOk end;
     f_attest := if hs_att hs =? 0 then AttOk else if hs_att hs =? 1 then AttLost else AttErr;
     f_local_fail := hs_local_fail hs |}.

Definition rotate (st : wstate) : wstate :=
  (fst st, {| h_issued := h_issued (snd st); h_latched := None |}).

Definition restart_digest (paths : list path) (st : wstate) (f2 : faults) :=
  let m := mem_after st kk_init f2 in
  (reqs_of (trace st kk_init f2), option_map key_out (k_key m), k_state m,
   st_digest paths (run_levs st (trace st kk_init f2))).

(* crash points are numbered globally over the polls of the scenario: poll 1 contributes
   |trace| + 1 points (prefix lengths 0 .. |trace|), then poll 2, ...; only the points listed in
   [want] are evaluated (each costs a restart simulation) *)
Fixpoint crash_sel (paths : list path) (st : wstate) (ls : list lev) (r : hscript) (pre : list (N * bytes))
                   (idx : nat) (want : list nat) :=
  (if existsb (Nat.eqb idx) want
   then [(N.of_nat idx, pre, st_digest paths st, restart_digest paths st (faults_of r st))] else [])
  ++ match ls with
     | [] => []
     | l :: t =>
         crash_sel paths (apply_lev st l) t r
           (match lev_req l with Some q => pre ++ [q] | None => pre end) (S idx) want
     end.

(* all selected crash points of a run of polls of ONE process (memory carried from poll to poll),
   each with what a fresh process does next under the restart script [r]; and the state after all polls *)
Fixpoint scenario_points (paths : list path) (st : wstate) (mem : kk) (polls : list hscript) (r : hscript)
                         (pre : list (N * bytes)) (idx : nat) (want : list nat) :=
  match polls with
  | [] => ([], (pre, st_digest paths st, option_map key_out (k_key mem), k_state mem))
  | hs :: t =>
      let st0 := if hs_rotate hs then rotate st else st in
      let f := faults_of hs st0 in
      let tr := trace st0 mem f in
      let '(rest, fin) := scenario_points paths (run_levs st0 tr) (mem_after st0 mem f) t r (pre ++ reqs_of tr)
                            (idx + S (length tr)) want in
      (crash_sel paths st0 tr r pre idx want ++ rest, fin)
  end.

(* cheap summary of EVERY crash point (number of requests that reached the host, length of each
   path's content), used by the check only to propose which points to evaluate *)
Definition len_apply (paths : list path) (ln : list (option N)) (e : fs_event) : list (option N) :=
  let look p := match find (fun ql => beq (fst ql) p) (combine paths ln) with Some ql => snd ql | None => None end in
  match e with
  | FCreate p => map (fun ql => if beq (fst ql) p then Some 0 else snd ql) (combine paths ln)
  | FWrite p _ => map (fun ql => if beq (fst ql) p then option_map N.succ (snd ql) else snd ql) (combine paths ln)
  | FRename p q =>
      match look p with
      | Some l => map (fun rl => if beq (fst rl) q then Some l else if beq (fst rl) p then None else snd rl) (combine paths ln)
      | None => ln
      end
  | FRemove p => map (fun ql => if beq (fst ql) p then None else snd ql) (combine paths ln)
  end.

Fixpoint summaries (paths : list path) (ln : list (option N)) (nreq : N) (ls : list lev) : list (N * list (option N)) :=
  (nreq, ln) ::
  match ls with
  | [] => []
  | l :: t =>
      summaries paths (match l with LFs e => len_apply paths ln e | _ => ln end)
                (match lev_req l with Some _ => nreq + 1 | None => nreq end) t
  end.

Fixpoint scenario_summaries (paths : list path) (st : wstate) (mem : kk) (polls : list hscript) (nreq : N) :=
  match polls with
  | [] => []
  | hs :: t =>
      let st0 := if hs_rotate hs then rotate st else st in
      let f := faults_of hs st0 in
      let tr := trace st0 mem f in
      let ln := map (fun p => option_map (fun c => N.of_nat (length c)) (fst st0 p)) paths in
      summaries paths ln nreq tr
      ++ scenario_summaries paths (run_levs st0 tr) (mem_after st0 mem f) t (nreq + N.of_nat (length (reqs_of tr)))
  end.

Definition fs_of_list (l : list (path * bytes)) : fsys :=
  fold_left (fun f pc => fs_set f (fst pc) (Some (snd pc))) l fs_empty.

(* the order of externally visible steps of a run (requests, file operations, look-ups of a key
   file), for comparison with the system-call order of an un-killed run *)
Definition lev_skel (l : lev) : list (N * bytes) :=
  match l with
  | LStatus => [(0, [])]
  | LAcquire _ => [(3, [])]
  | LAttest k _ => [(6, key_guid k)]
  | LFs (FCreate p) => [(10, p)]
  | LFs (FWrite p _) => [(11, p)]
  | LFs (FRename _ q) => [(12, q)]
  | LFs (FRemove p) => [(13, p)]
  | LNop (ELocalRead g) => [(20, keyfile g)]
  | LNop (EReadBack k) => [(20, keyfile (key_guid k))]
  | LNop _ => []
  end.

Fixpoint scenario_skeleton (st : wstate) (mem : kk) (polls : list hscript) : list (N * bytes) :=
  match polls with
  | [] => []
  | hs :: t =>
      let st0 := if hs_rotate hs then rotate st else st in
      let f := faults_of hs st0 in
      let tr := trace st0 mem f in
      flat_map lev_skel tr ++ scenario_skeleton (run_levs st0 tr) (mem_after st0 mem f) t
  end.
