(* Sched -- generic small-step interleaving semantics for "tasks + actors" (DESIGN 2.4; the design
   calls this file Base/Sched.v).  Definitions only; the proof rules are in Proofs/SchedProofs.v.

   THE SETTING.  GuestProxyAgent keeps its shared state in *actors*: a tokio task that owns some
   locals and processes one message at a time from an mpsc channel, answering each on a oneshot
   channel.  A client task is a straight-line piece of async code whose only scheduling points are
   its actor calls (`shared_state.op(..).await`): between two calls it runs without interference on
   actor-owned state.  This file makes that literal.

   * The world state [St] is everything the actors own (several actors = a record with one field
     group per actor; a clock = a field that the handler advances; a file system = the "kernel
     actor", one syscall per message).
   * [handle : tid -> St -> M -> St * R] processes ONE message atomically and produces the reply.
     The task id of the sender is passed so that ghost state can attribute events; real handlers
     ignore it.
   * A task is a [prog]: either finished with a result ([Ret a]) or blocked in a call ([Call m k]:
     message [m] has been sent, [k] is the continuation on the reply).  Branching on replies is
     arbitrary Gallina; loops are written with fuel.  There is no other way for a task to touch [St],
     which is exactly "the only scheduling points are the actor calls".
   * A configuration is the world state, the list of tasks (task id = position) and the trace of
     processed messages (NEWEST FIRST) -- the order in which the actors processed them, i.e. the
     "actor order".
   * [sstep c t] lets task [t] take its next call (send + processing + reply, atomically: the
     FIFO channel makes "sent" and "processed" indistinguishable to every observer, because the
     effect of a message is only visible through later messages).  A finished or non-existent task
     stutters.  A schedule is a list of task ids; [run] folds [sstep].  Every interleaving of the
     tasks' calls is some schedule and vice versa.
   * Crashes: a crash prefix of an execution is simply a shorter schedule, so "for every crash
     point" is "for every reachable configuration".

   WHAT THE MODEL CANNOT EXHIBIT: preemption inside one message handler (actors are sequential),
   memory-model effects, real timers.  State that is NOT actor-owned must be modelled as its own
   "actor" at the granularity at which it really is atomic (e.g. one file-system syscall). *)
From Coq Require Import List Arith PArith.
Import ListNotations.

Section Sched.
  Context {St M R A : Type}.
  Context (handle : nat -> St -> M -> St * R).

  Inductive prog : Type :=
  | Ret (a : A)
  | Call (m : M) (k : R -> prog).

  Record event : Type := Ev { ev_tid : nat; ev_msg : M; ev_reply : R }.

  Record config : Type := Cfg {
    shared : St;
    tasks : list prog;
    trace : list event;       (* newest first *)
  }.

  Fixpoint set_nth {X} (n : nat) (x : X) (l : list X) : list X :=
    match l, n with
    | [], _ => []
    | _ :: tl, O => x :: tl
    | h :: tl, S n' => h :: set_nth n' x tl
    end.

  (* one scheduling step of task t *)
  Definition sstep (c : config) (t : nat) : config :=
    match nth_error (tasks c) t with
    | Some (Call m k) =>
        let sr := handle t (shared c) m in
        Cfg (fst sr) (set_nth t (k (snd sr)) (tasks c)) (Ev t m (snd sr) :: trace c)
    | _ => c
    end.

  Definition run (c : config) (sched : list nat) : config := fold_left sstep sched c.

  Definition init (s : St) (ps : list prog) : config := Cfg s ps [].

  Definition reachable (c0 c : config) : Prop := exists sched, c = run c0 sched.

  (* result of task t, if it has finished *)
  Definition result_of (c : config) (t : nat) : option A :=
    match nth_error (tasks c) t with Some (Ret a) => Some a | _ => None end.

  Definition all_done (c : config) : bool :=
    forallb (fun p => match p with Ret _ => true | Call _ _ => false end) (tasks c).

  (* -------- the actor order: the world state is the fold of the handler over the trace ------- *)
  (* [valid_trace s0 tr s]: processing the events of [tr] (newest first) one at a time from [s0]
     yields [s], and every recorded reply is the reply the handler gave at that moment. *)
  Inductive valid_trace (s0 : St) : list event -> St -> Prop :=
  | vt_nil : valid_trace s0 [] s0
  | vt_cons : forall tr s t m,
      valid_trace s0 tr s ->
      valid_trace s0 (Ev t m (snd (handle t s m)) :: tr) (fst (handle t s m)).

  Definition state_after (s0 : St) (tr : list event) : St :=
    fold_right (fun e s => fst (handle (ev_tid e) s (ev_msg e))) s0 tr.

  (* -------- task-local determinism: a task's state is a function of its own replies --------- *)
  Fixpoint replay (p : prog) (rs : list R) {struct rs} : prog :=
    match rs with
    | [] => p
    | r :: rs' => match p with Call _ k => replay (k r) rs' | Ret a => Ret a end
    end.

  (* replies received by task t, oldest first *)
  Definition replies_of (t : nat) (tr : list event) : list R :=
    map ev_reply (filter (fun e => Nat.eqb (ev_tid e) t) (rev tr)).

  (* number of calls (scheduling points) task t has gone through *)
  Definition calls_of (t : nat) (tr : list event) : nat :=
    length (filter (fun e => Nat.eqb (ev_tid e) t) tr).

  (* -------- syntactic safety of programs: every call a program can ever make satisfies P ----- *)
  Inductive all_calls (P : M -> Prop) : prog -> Prop :=
  | ac_ret : forall a, all_calls P (Ret a)
  | ac_call : forall m k, P m -> (forall r, all_calls P (k r)) -> all_calls P (Call m k).

  (* -------- monitors: a per-task protocol automaton abstracting the task's local state -------
     [mon q m r = Some q'] : in abstract local state q the task may send m, and after reply r
     its abstract local state is q'.  [follows q p] says program p, whatever replies it gets,
     only ever behaves as the monitor allows from q, and when it returns a result [a] in
     abstract state q then [retP q a].  A monitor is how an invariant talks about "what the
     task has already seen" (e.g. "this task read the old key", "this task saw ALL_READY"). *)
  Section Monitor.
    Context {Q : Type}.
    Context (mon : Q -> M -> R -> option Q).
    Context (retP : Q -> A -> Prop).

    Inductive follows : Q -> prog -> Prop :=
    | fo_ret : forall q a, retP q a -> follows q (Ret a)
    | fo_call : forall q m k,
        (forall r, exists q', mon q m r = Some q' /\ follows q' (k r)) ->
        follows q (Call m k).
  End Monitor.

  (* -------- hand-polled granularity ---------------------------------------------------------
     The harness polls the real futures by hand on a current_thread runtime: one poll runs the
     task's synchronous code (which may contain calls that are not await points, e.g. file
     system syscalls or clock reads) up to and including the sending of its next actor message,
     which the actor then processes before anything else is polled.  [poll is_sync fuel c t] is
     that macro step: all leading synchronous calls of task t, then one asynchronous call. *)
  Fixpoint poll (is_sync : M -> bool) (fuel : nat) (c : config) (t : nat) : config :=
    match fuel with
    | O => c
    | S fuel' =>
        match nth_error (tasks c) t with
        | Some (Call m _) =>
            if is_sync m then poll is_sync fuel' (sstep c t) t else sstep c t
        | _ => c
        end
    end.

  Definition run_polls (is_sync : M -> bool) (fuel : nat) (c : config) (sched : list nat) : config :=
    fold_left (poll is_sync fuel) sched c.

  (* the same macro step with a binary bound (at most [p] calls): its evaluation costs what the
     poll actually does, not the size of the bound -- this is the one the checks evaluate.
     The boolean says the poll is over (asynchronous call made, or task finished). *)
  Definition poll1 (is_sync : M -> bool) (c : config) (t : nat) : config * bool :=
    match nth_error (tasks c) t with
    | Some (Call m _) => (sstep c t, negb (is_sync m))
    | _ => (c, true)
    end.

  Fixpoint poll_p (is_sync : M -> bool) (p : positive) (c : config) (t : nat) : config * bool :=
    match p with
    | xH => poll1 is_sync c t
    | xO p' =>
        let r := poll_p is_sync p' c t in
        if snd r then r else poll_p is_sync p' (fst r) t
    | xI p' =>
        let r := poll1 is_sync c t in
        if snd r then r else
        let r' := poll_p is_sync p' (fst r) t in
        if snd r' then r' else poll_p is_sync p' (fst r') t
    end.

  Definition run_polls_p (is_sync : M -> bool) (p : positive) (c : config) (sched : list nat) : config :=
    fold_left (fun c t => fst (poll_p is_sync p c t)) sched c.
End Sched.

Arguments prog : clear implicits.
Arguments event : clear implicits.
Arguments config : clear implicits.
Arguments Ret {M R A} a.
Arguments Call {M R A} m k.
