(* System -- ONE end-to-end model of the request path of the proxy listener, composed FROM the
   per-property models (nothing that exists is re-defined here):

     client request on an accepted connection
       -> Limit.limit_of / Limit.limit_gate        which RequestBodyLimitLayer serves it, 413 gate   (C15)
       -> Server.handle_gen authz                  decision order of handle_new_http_request          (C01)
            with Authorizer.authorize_at / Rbac    the policy decision                                (C02, C03)
       -> Headers.add_required_headers             the two proxy-owned inserts                        (C05)
       -> Limit.limited_collect                    body.collect() under the Limited wrapper           (C15)
       -> Canon.relay / sign_and_forward           exempt: as is; else sign with the key read as ONE
                                                   (guid, value) pair (SignRace.RdWhole)              (C04, C10)
       -> Relay.upstream_of                        what is written upstream (request leg)             (C14)
       -> Relay.client_resp_of                     what the client receives (response leg)            (C14)
       -> Server.effect / Summary.msg_of_effect    failed-authorization / connection summaries        (C11)
     and, around it,  Server.accept (C01) / Accept.step (C07): the connection context is built once
     per accepted connection and handed to every request.

   The composition is literally [Limit.serve] -- which already chains gate, headers, collect and
   Headers.proxy_forward behind an abstract "what the handler decided" ([Limit.pre]) -- with that
   input INSTANTIATED by Server.handle_gen ([pre_of]), followed by the response leg and the
   effects.  Proofs/SystemProofs.v proves that every per-property model is a view of
   [system_step] and that the models agree wherever two of them talk about the same thing; the
   pinned theorems are in Props/System.v, the account of every overlap in notes/System.md.

   Mirrors (in this order) proxy_agent/src/proxy/proxy_server.rs: the service_fn closure of
   handle_new_tcp_connection, handle_new_http_request, convert_request /
   handle_request_with_signature, forward_response, log_connection_summary.

   DOMAIN.  The request target is origin-form ([Canon.uri]: path and optional query), which is
   what a redirected client sends (it does not know that it talks to a proxy) and the only form
   Canon.v / Headers.v / Relay.v / Limit.v are stated for.  Server.v's [uri] also represents
   absolute-form targets; [server_request] is the embedding (Server.origin_uri).  For
   absolute-form targets Server.v alone speaks (mediation, C01); see notes/System.md.

   ORACLES of one request ([sys_env]): the two actors' answers (Server.env), the proxy's clock
   text, the content of the key slot at the handler's single GetKey round trip, the status of the
   local /provision answer (Provision.v's subject), whether the connection's upstream sender
   exists and is open when send_request is called, and what the host answers. *)
From GPA Require Export Summary Limit.
From GPA Require SignRace Accept.

(* ---------------------------------------------------------------------------------------- *)
(* one client request                                                                        *)
(* ---------------------------------------------------------------------------------------- *)
Record sys_request := {
  sq_req : framed_request;      (* Relay.v: method, target, header lines as sent, body frames *)
  sq_declared : option N;       (* Limit.v: the Content-Length header as a number, None = chunked *)
  sq_broken : bool;             (* Limit.v: the body stream ends in an error after the frames *)
}.

(* the handler's view of the request (Model/Server.v): method and http::Uri *)
Definition server_request (q : framed_request) : Server.request :=
  {| rq_method := q_method q;
     rq_uri := origin_uri (Canon.u_path (q_uri q)) (Canon.u_query (q_uri q)) |}.

(* the request with its body collected (Model/Headers.v) *)
Definition collected (q : framed_request) : client_request :=
  {| c_method := q_method q; c_uri := q_uri q; c_wire := q_wire q; c_body := collect (q_frames q) |}.

(* ---------------------------------------------------------------------------------------- *)
(* the environment of one request                                                            *)
(* ---------------------------------------------------------------------------------------- *)
Inductive host_reply :=
| HostResponse (r : response)    (* send_request returned Ok(response): Relay.v's response leg *)
| HostError (status : N).        (* send_request returned Err after the request was handed to the
                                    upstream connection: forward_response answers with its own
                                    502 (HostConnection) / 503 (anything else) *)

Record sys_env := {
  se_env : env;                       (* Server.v: counter, claims printer, the three rules getters *)
  se_now : bytes;                     (* misc_helpers::get_date_time_rfc1123_string() *)
  se_key : option SignRace.key;       (* the key slot when get_current_key_guid_and_value() is answered *)
  se_provision : N;                   (* status of handle_provision_state_check_request's answer *)
  se_up : bool;                       (* the connection's sender is Ok and not closed (else 502, no write) *)
  se_host : host_reply;
}.

(* the key as the three models take it: Canon/Headers/Limit as two options, the handler's current
   form as one pair (Canon.sign_and_forward_pair), SignRace as the record in the slot *)
Definition key_value (k : option SignRace.key) : option bytes := option_map SignRace.value k.
Definition key_guid (k : option SignRace.key) : option bytes := option_map SignRace.guid k.
Definition key_pair (k : option SignRace.key) : option (bytes * bytes) :=
  option_map (fun x => (SignRace.guid x, SignRace.value x)) k.

(* ---------------------------------------------------------------------------------------- *)
(* the kernel's record as Headers.v names it                                                 *)
(* ---------------------------------------------------------------------------------------- *)
(* Headers.audit and Server.audit_entry are the same record (redirector::AuditEntry) *)
Definition audit_view (e : audit_entry) : Headers.audit :=
  {| a_logon_id := ae_logon e; a_process_id := ae_pid e; a_is_admin := ae_is_admin e;
     a_destination_ipv4 := ae_ip e; a_destination_port := ae_port e |}.

(* what is left of the record in a relayed request: destination and the elevation bit of the
   claims (Headers.v reads the record only through [run_as_elevated]:
   SystemProofs.proxy_forward_elevation_only) *)
Definition audit_of_upstream (u : upstream) : Headers.audit :=
  {| a_logon_id := 0; a_process_id := 0;
     a_is_admin := if k_elevated (up_claims u) then 1%Z else 0%Z;
     a_destination_ipv4 := up_ip u; a_destination_port := up_port u |}.

(* ---------------------------------------------------------------------------------------- *)
(* Server.outcome  ->  Limit.pre                                                             *)
(* ---------------------------------------------------------------------------------------- *)
Definition all_early : list early_kind :=
  [ECounterFailure; ETraversal; ENoDestination; ENoClaims; EClaimsJson; ERulesError; EForbidden].

(* Limit.v enumerates the handler's early returns by kind, Server.v gives their status: a kind
   with that status (Limit.serve reads a kind only through [early_status]; every status the
   handler answers has one: SystemProofs.handler_resp_is_early) *)
Definition early_with_status (s : N) : option early_kind :=
  find (fun k => early_status k =? s) all_early.

Definition pre_of (provision_status : N) (o : outcome) : pre :=
  match o with
  | Resp s => match early_with_status s with
              | Some k => PreEarly k
              | None => PreProvision s          (* unreachable; answers s locally all the same *)
              end
  | Provision => PreProvision provision_status
  | Relay u => PreProceed (audit_of_upstream u)
  end.

(* ---------------------------------------------------------------------------------------- *)
(* the result of one request                                                                 *)
(* ---------------------------------------------------------------------------------------- *)
Inductive client_out :=
| CLocal (status : N)             (* answered by the proxy, nothing was written upstream *)
| CRelayed (r : response)         (* the host's response as forward_response hands it on *)
| CUpstreamFailed (status : N).   (* the request was written, no response came: the proxy's 502/503 *)

Record sys_result := {
  sy_client : client_out;
  sy_upstream : list (N * N * Canon.request);   (* (destination ip as recorded, port, request as written) *)
  sy_effects : list effect;                     (* Server.effect, in code order *)
}.

Definition gate_open (q : sys_request) : bool :=
  match limit_gate (limit_of (q_method (sq_req q)) (q_uri (sq_req q))) (sq_declared q) with
  | Refuse413 => false
  | Admit _ => true
  end.

(* the handler's summary effects; its UpstreamWrite means "the forward step is entered" and is
   replaced below by what Limit.serve says is really written *)
Definition non_write (fx : list effect) : list effect :=
  filter (fun f => match f with UpstreamWrite _ => false | _ => true end) fx.

Definition local_status (a : answer) : N :=
  match a with Local s => s | FromHost => status_bad_gateway end.

Section Step.
Context (authz : bytes -> N -> claims -> url -> option computed -> auth_result).
Context (mac : bytes -> bytes -> bytes).

(* what the handler decides (Server.v) *)
Definition handled (E : sys_env) (C : conn_info) (q : sys_request) : outcome * list effect :=
  handle_gen authz (se_env E) (ci_ctx C) (server_request (sq_req q)).

(* gate, headers, collect, sign, write -- Limit.serve with its input instantiated; [up] as given *)
Definition served_with (up : bool) (E : sys_env) (C : conn_info) (q : sys_request) : served :=
  Limit.serve mac (pre_of (se_provision E) (fst (handled E C q))) (se_now E)
              (key_value (se_key E)) (key_guid (se_key E)) up
              (sq_req q) (sq_declared q) (sq_broken q).

(* ONE client request on an accepted connection whose context is [ci_ctx C].
   Effects: a request refused by the 413 gate never reaches the handler (no counter, no summary);
   otherwise the handler's summaries in code order, then -- when send_request is reached -- the
   write and the summary forward_response logs (the host's status, or the proxy's own 502/503). *)
Definition system_step_gen (E : sys_env) (C : conn_info) (q : sys_request) : sys_result :=
  let hx := handled E C q in
  let sv := served_with true E C q in          (* as if the upstream connection were open *)
  let fx := if gate_open q then non_write (snd hx) else [] in
  match fst hx, upstream_writes sv with
  | Relay u, out :: _ =>
      (* send_request(out) is reached *)
      if se_up E then
        match se_host E with
        | HostResponse r =>
            {| sy_client := CRelayed (client_resp_of r);
               sy_upstream := [(up_ip u, up_port u, out)];
               sy_effects := fx ++ [UpstreamWrite u; Summary (s_status r)] |}
        | HostError st =>
            {| sy_client := CUpstreamFailed st;
               sy_upstream := [(up_ip u, up_port u, out)];
               sy_effects := fx ++ [UpstreamWrite u; Summary st] |}
        end
      else
        {| sy_client := CLocal status_bad_gateway; sy_upstream := [];
           sy_effects := fx ++ [Summary status_bad_gateway] |}
  | _, _ =>
      {| sy_client := CLocal (local_status (to_client sv)); sy_upstream := []; sy_effects := fx |}
  end.
End Step.

(* with the policy of Model/Authorizer.v (repaired Privilege::is_match) *)
Definition system_step := system_step_gen authorize_at.

(* accept (Server.accept) followed by one request on the accepted connection *)
Definition system_serve (mac : bytes -> bytes -> bytes) (os : os_view) (fail_remove : bool)
           (m : audit_map) (port : N) (client_ip cmd : bytes) (E : sys_env) (q : sys_request)
  : sys_result :=
  system_step mac E {| ci_ctx := fst (accept os fail_remove m port);
                       ci_client_ip := client_ip; ci_cmd := cmd |} q.

(* a keep-alive connection: the requests in order, each in the environment in force when it is
   handled, ALL with the one context the connection got when it was accepted
   (handle_new_tcp_connection builds it once and hands a clone to every request) *)
Definition system_conn (mac : bytes -> bytes -> bytes) (C : conn_info)
           (steps : list (sys_env * sys_request)) : list sys_result :=
  fold_left (fun acc s => acc ++ [system_step mac (fst s) C (snd s)]) steps [].

(* the actor messages of one request (Summary.v), in code order *)
Definition sys_msgs (C : conn_info) (res : sys_result) : list msg :=
  flat_map (msg_of_effect C) (sy_effects res).

(* ---------------------------------------------------------------------------------------- *)
(* the per-property views of a result                                                        *)
(* ---------------------------------------------------------------------------------------- *)
(* Limit.v's view: local status / "from the host", and the requests written *)
Definition limit_view (res : sys_result) : served :=
  {| to_client := match sy_client res with CLocal s => Local s | _ => FromHost end;
     upstream_writes := map snd (sy_upstream res) |}.

(* Server.v's view of the effects: what the handler itself logs *)
Definition summaries_of (fx : list effect) : list effect := non_write fx.

(* ---------------------------------------------------------------------------------------- *)
(* histories (Model/Accept.v with R := the kernel's record, Q := environment and request)    *)
(* ---------------------------------------------------------------------------------------- *)
(* the TcpConnectionContext derived from what the Lookup step found (AcceptProofs.server_ctx) *)
Definition ctx_of_lookup (os : os_view) (x : option audit_entry) : conn_ctx :=
  match x with Some e => ctx_of os e | None => ctx_none end.

(* what the summaries need beyond the context: the client address of connection c and the command
   line the OS reports for the recorded process *)
Definition conn_of_lookup (os : os_view) (client_ip : N -> bytes) (cmd : audit_entry -> bytes)
           (c : N) (x : option audit_entry) : conn_info :=
  {| ci_ctx := ctx_of_lookup os x; ci_client_ip := client_ip c;
     ci_cmd := match x with Some e => cmd e | None => EMPTY end |}.

(* the result of every request of a history, tagged with its connection *)
Definition decided_result (mac : bytes -> bytes -> bytes) (os : os_view) (client_ip : N -> bytes)
           (cmd : audit_entry -> bytes) (o : Accept.out audit_entry (sys_env * sys_request))
  : N * sys_result :=
  match o with
  | Accept.Decided c rq x => (c, system_step mac (fst rq) (conn_of_lookup os client_ip cmd c x) (snd rq))
  end.

(* ---------------------------------------------------------------------------------------- *)
(* encodings used by the correspondence check                                                *)
(* ---------------------------------------------------------------------------------------- *)
Definition client_code (c : client_out) : N * N * headers * bytes :=
  match c with
  | CLocal s => (0, s, [], [])
  | CRelayed r => (1, s_status r, s_headers r, body_of (s_frames r))
  | CUpstreamFailed s => (2, s, [], [])
  end.

(* request line, header list, body (length and first KiB) of a written request, and the two pieces
   of the string whose MAC the authorization header must carry when the model signs: the body sits
   between them (CanonProofs.sig_input_body_split), so that a 100 KiB body is never printed; the
   check computes HMAC-SHA256 itself *)
Definition upstream_code (x : N * N * Canon.request)
  : N * N * (bytes * bytes * headers * (N * bytes)) * (bytes * bytes) :=
  let '(ip, port, out) := x in
  (ip, port,
   (r_method out, uri_to_string (r_uri out), r_headers out,
    (blen (r_body out), firstn 1024 (r_body out))),
   (sig_input_prefix (r_method out), sig_input_suffix (r_headers out) (r_uri out))).

(* one request on a freshly accepted connection; [zero_mac] (Headers.v): the MAC is checked by the
   caller.  Also returned: whether the model signs, and the summary records (status texts) *)
Definition system_case (os : os_view) (fail_remove : bool) (m : audit_map) (port : N)
           (client_ip cmd : bytes) (E : sys_env) (q : sys_request) :=
  let C := {| ci_ctx := fst (accept os fail_remove m port); ci_client_ip := client_ip; ci_cmd := cmd |} in
  let res := system_step zero_mac E C q in
  (client_code (sy_client res),
   map upstream_code (sy_upstream res),
   map effect_code (sy_effects res),
   is_signed (key_value (se_key E)) (key_guid (se_key E)) (collected (sq_req q)),
   map (fun mg => match mg with
                  | AddFailed s => (1, sm_user s, sm_ip s, sm_port s, sm_status s)
                  | AddOk s => (2, sm_user s, sm_ip s, sm_port s, sm_status s)
                  | _ => (0, [], [], 0, [])
                  end) (sys_msgs C res)).
