(* C15 -- a client connection as a SEQUENCE of requests.  Definitions only; proofs are in
   Proofs/LimitSeqProofs.v.

   Mirrors proxy_agent/src/proxy/proxy_server.rs handle_new_tcp_connection: hyper's http1 server calls
   the `service_fn` closure once per request of the connection, one request after the other, and the
   closure picks the RequestBodyLimitLayer for THAT request from `should_skip_sig(req.method(),
   req.uri())`; nothing about the limit is kept between two requests.  So the connection is served
   by mapping [Limit.serve] over its requests.

   What may differ from request to request: the request itself, what the handler decides before
   the body (the attribution record is per connection, but the URL-dependent checks are not),
   the proxy's clock, whether the body stream breaks, and whether the upstream connection is
   (still) usable -- the host may be down from the start or drop its side between two requests.
   The order inside [serve] is the code's: size gate, early returns, required headers, body
   collection (400), signing, and only then the host (502 when it is not usable).

   hyper may stop serving a connection after a refused request (it closes a connection whose
   request body it did not read to the end): the outcomes actually produced are then a PREFIX of
   the list below; the theorems hold for every position, hence for every prefix. *)
From GPA Require Export Limit.

Record conn_request := {
  cr_pre : pre;                 (* the handler's decision before the body, for this request *)
  cr_now : bytes;               (* the proxy's clock when it is handled *)
  cr_req : framed_request;
  cr_declared : option N;       (* Content-Length, None = chunked *)
  cr_broken : bool;             (* the body stream ends in an error *)
  cr_up : bool;                 (* the upstream connection is usable when this request is sent *)
}.

Section ServeConnection.
Context (mac : bytes -> bytes -> bytes).

Definition serve_one (kv kg : option bytes) (r : conn_request) : served :=
  serve mac (cr_pre r) (cr_now r) kv kg (cr_up r) (cr_req r) (cr_declared r) (cr_broken r).

(* the code: the limit layer is chosen per request *)
Definition serve_connection (kv kg : option bytes) (rs : list conn_request) : list served :=
  map (serve_one kv kg) rs.

(* NOT the code: the layer built once, from the connection's first request, and reused -- kept to
   show that the theorems distinguish the two (LimitSeqProofs.sticky_limit_refuted) *)
Definition serve_with_limit (limit : N) (kv kg : option bytes) (r : conn_request) : served :=
  match limit_gate limit (cr_declared r) with
  | Refuse413 => local status_payload_too_large
  | Admit body_limit =>
      match cr_pre r with
      | PreEarly k => local (early_status k)
      | PreProvision s => local s
      | PreProceed a =>
          match limited_collect body_limit (q_frames (cr_req r)) (cr_broken r) [] with
          | None => local (body_error_status (q_method (cr_req r)) (q_uri (cr_req r)))
          | Some body =>
              match proxy_forward mac a (cr_now r) kv kg
                      {| c_method := q_method (cr_req r); c_uri := q_uri (cr_req r);
                         c_wire := q_wire (cr_req r); c_body := body |} with
              | BadGateway => local status_bad_gateway
              | Forwarded out => if cr_up r then {| to_client := FromHost; upstream_writes := [out] |}
                                 else local status_bad_gateway
              end
          end
      end
  end.

Definition serve_connection_sticky (kv kg : option bytes) (rs : list conn_request) : list served :=
  match rs with
  | [] => []
  | r0 :: _ => map (serve_with_limit (limit_of (q_method (cr_req r0)) (q_uri (cr_req r0))) kv kg) rs
  end.
End ServeConnection.

Definition over_own_limit (r : conn_request) : Prop :=
  limit_of (q_method (cr_req r)) (q_uri (cr_req r)) < total (q_frames (cr_req r)).

Definition on_relay_path (r : conn_request) : Prop :=
  match cr_pre r with PreEarly k => client_caused k = true | PreProvision _ => False | PreProceed _ => True end.

(* ---------------------------------------------------------------------------------------- *)
(* one call for the correspondence check: a sequence given by method / target / pre-decision  *)
(* selector / declared length / chunk LENGTHS / broken / host usable                          *)
(* ---------------------------------------------------------------------------------------- *)
Definition c15_case_up (m path : bytes) (q : option bytes) (sel : N) (declared : option N)
           (lens : list N) (broken up : bool) : N * bool * verdict :=
  match c15_case m path q sel declared lens broken with
  | (limit, skip, VRelayed n) => (limit, skip, if up then VRelayed n else VLocal status_bad_gateway)
  | other => other
  end.

Definition seq_step := (bytes * bytes * option bytes * N * option N * list N * bool * bool)%type.

Definition c15_seq_case (steps : list seq_step) : list (N * bool * verdict) :=
  map (fun st => match st with
                 | (m, path, q, sel, declared, lens, broken, up) => c15_case_up m path q sel declared lens broken up
                 end) steps.
