(* C11 -- model of the failed-authorization summary the agent publishes in status.json.
   Mirrors
     proxy_agent/src/proxy/proxy_summary.rs      ProxySummary::to_key_string, From<ProxySummary> for
                                                 ProxyConnectionSummary                -> [key_string], [entry_of]
     proxy_agent/src/shared_state/agent_status_wrapper.rs   the actor's two maps, AddOneConnectionSummary /
                                                 AddOneFailedConnectionSummary / GetAll* / ClearAllSummary
                                                                                       -> [add_one], [astep]
     proxy_agent/src/proxy_agent_status.rs       guest_proxy_agent_aggregate_status_new (proxyConnectionSummary,
                                                 failedAuthenticateSummary of status.json)  -> [publish]
     proxy_agent/src/proxy/proxy_server.rs       log_connection_summary (which fields of the connection
                                                 context go into the summary)          -> [summary_of]
   and turns the effects of Model/Server.v's [handle] (FailedSummary / Summary, in code order) into the
   messages the request handler sends to the actor ([msgs_of]).
   Definitions only; proofs are in Proofs/SummaryProofs.v, the property theorems in Props/C11.v. *)
From GPA Require Export Server.

(* ---------------------------------------------------------------------------------------------- *)
(* ProxySummary (the fields that reach the key or the published entry) and ProxyConnectionSummary   *)
(* ---------------------------------------------------------------------------------------------- *)
Record summary := {
  sm_user : bytes;           (* userName *)
  sm_groups : list bytes;    (* userGroups *)
  sm_client_ip : bytes;      (* clientIp *)
  sm_ip : bytes;             (* ip = tcp_connection_context.get_ip_string() *)
  sm_port : N;               (* port = destination_port *)
  sm_path : bytes;           (* processFullPath.to_string_lossy() *)
  sm_cmd : bytes;            (* processCmdLine *)
  sm_status : bytes;         (* responseStatus = StatusCode::to_string() *)
}.

Record entry := {            (* proxy_agent_shared ProxyConnectionSummary: what status.json shows *)
  en_user : bytes;
  en_groups : list bytes;
  en_ip : bytes;
  en_port : N;
  en_path : bytes;
  en_cmd : bytes;
  en_status : bytes;
  en_count : N;
}.

(* impl From<ProxySummary> for ProxyConnectionSummary: count: 1 *)
Definition entry_of (s : summary) : entry :=
  {| en_user := sm_user s; en_groups := sm_groups s; en_ip := sm_ip s; en_port := sm_port s;
     en_path := sm_path s; en_cmd := sm_cmd s; en_status := sm_status s; en_count := 1 |}.

Definition bump (e : entry) : entry :=
  {| en_user := en_user e; en_groups := en_groups e; en_ip := en_ip e; en_port := en_port e;
     en_path := en_path e; en_cmd := en_cmd e; en_status := en_status e;
     en_count := en_count e + 1 |}.

(* "the caller's user, process, command line and destination" (and the status) as an entry shows
   them / as a summary carries them *)
Definition shown (s : summary) : bytes * bytes * N * bytes * bytes * bytes :=
  (sm_user s, sm_ip s, sm_port s, sm_path s, sm_cmd s, sm_status s).
Definition shown_e (e : entry) : bytes * bytes * N * bytes * bytes * bytes :=
  (en_user e, en_ip e, en_port e, en_path e, en_cmd e, en_status e).
Definition shown_eqb (a b : summary) : bool :=
  beq (sm_user a) (sm_user b) && beq (sm_ip a) (sm_ip b) && (sm_port a =? sm_port b) &&
  beq (sm_path a) (sm_path b) && beq (sm_cmd a) (sm_cmd b) && beq (sm_status a) (sm_status b).

(* ---------------------------------------------------------------------------------------------- *)
(* to_key_string                                                                                    *)
(* ---------------------------------------------------------------------------------------------- *)
(* the text of one format argument; the codes are the letters gen_consts.py assigns:
   u userName, c clientIp, i ip, p port, x processFullPath, l processCmdLine, s responseStatus *)
Definition field_text (s : summary) (code : N) : bytes :=
  if code =? 117 then sm_user s
  else if code =? 99 then sm_client_ip s
  else if code =? 105 then sm_ip s
  else if code =? 112 then dec (sm_port s)
  else if code =? 120 then sm_path s
  else if code =? 108 then sm_cmd s
  else if code =? 115 then sm_status s
  else [].

(* format!("{}<sep>{}<sep>...", args in [order]) *)
Definition key_string_gen (sep : N) (order : list N) (s : summary) : bytes :=
  join [sep] (map (field_text s) order).

Definition std_order : list N := [117; 99; 105; 112; 120; 108; 115].   (* "ucipxls" *)

(* the key with the pinned argument order and separator [sep] *)
Definition key_string_sep (sep : N) : summary -> bytes := key_string_gen sep std_order.

(* the key as the code computes it NOW (separator and order regenerated from the source) *)
Definition key_string : summary -> bytes :=
  key_string_gen Consts.summary_key_sep Consts.summary_key_fields.

Definition SPACE : N := 32.
Definition NUL : N := 0.

(* no field that reaches the key contains the separator (the port is printed in decimal) *)
Definition sep_free (sep : N) (s : summary) : bool :=
  forallb (fun f => negb (existsb (N.eqb sep) f))
          [sm_user s; sm_client_ip s; sm_ip s; sm_path s; sm_cmd s; sm_status s].

(* ---------------------------------------------------------------------------------------------- *)
(* The actor's maps                                                                                 *)
(* ---------------------------------------------------------------------------------------------- *)
Definition smap := list (bytes * entry).        (* HashMap<String, ProxyConnectionSummary> *)

Section Actor.
  Context (key : summary -> bytes).

  (* if let Entry::Vacant(e) = map.entry(key) { e.insert(summary.into()) }
     else if let Some(x) = map.get_mut(&key) { x.count += 1 } *)
  Definition add_one (m : smap) (s : summary) : smap :=
    match alookup beq (key s) m with
    | None => ainsert beq (key s) (entry_of s) m
    | Some e => ainsert beq (key s) (bump e) m
    end.

  Record agent := {
    okm : smap;        (* proxy_summary *)
    failed : smap;     (* failed_authenticate_summary *)
  }.

  Definition agent0 : agent := {| okm := []; failed := [] |}.

  Inductive msg :=
  | AddOk (s : summary)          (* AddOneConnectionSummary *)
  | AddFailed (s : summary)      (* AddOneFailedConnectionSummary *)
  | GetOk                        (* GetAllConnectionSummary *)
  | GetFailed                    (* GetAllFailedConnectionSummary *)
  | ClearAll.                    (* ClearAllSummary *)

  (* one message, processed to completion (the actor handles one message at a time) *)
  Definition astep (a : agent) (m : msg) : agent * list entry :=
    match m with
    | AddOk s => ({| okm := add_one (okm a) s; failed := failed a |}, [])
    | AddFailed s => ({| okm := okm a; failed := add_one (failed a) s |}, [])
    | GetOk => (a, map snd (okm a))
    | GetFailed => (a, map snd (failed a))
    | ClearAll => ({| okm := []; failed := [] |}, [])
    end.

  Definition arun (a : agent) (ms : list msg) : agent :=
    fold_left (fun a m => fst (astep a m)) ms a.

  (* the fragment of status.json: (proxyConnectionSummary, failedAuthenticateSummary) *)
  Definition publish (a : agent) : list entry * list entry :=
    (snd (astep a GetOk), snd (astep a GetFailed)).

  (* the messages since the last ClearAll *)
  Definition since_clear (ms : list msg) : list msg :=
    fold_left (fun acc m => match m with ClearAll => [] | _ => acc ++ [m] end) ms [].

  Definition count_of (m : smap) (k : bytes) : N :=
    match alookup beq k m with Some e => en_count e | None => 0 end.

  Definition is_failed_for (k : bytes) (m : msg) : bool :=
    match m with AddFailed s => beq (key s) k | _ => false end.

  (* KNOWN CLASS (finding F8, id space_ambiguous_fields): two summaries of the history whose keys
     coincide although the fields an entry shows differ *)
  Definition collides (a b : summary) : bool := beq (key a) (key b) && negb (shown_eqb a b).
  Definition KnownClass_C11_F8 (l : list summary) : bool :=
    existsb (fun a => existsb (fun b => collides a b) l) l.
End Actor.

(* ---------------------------------------------------------------------------------------------- *)
(* log_connection_summary: from the connection context to the summary                               *)
(* ---------------------------------------------------------------------------------------------- *)
(* what the summary takes from the connection beyond Model/Server.v's conn_ctx: the client address
   (client_addr.ip()) and the command line the OS reported for the process (Claims.processCmdLine) *)
Record conn_info := {
  ci_ctx : conn_ctx;
  ci_client_ip : bytes;
  ci_cmd : bytes;
}.

Definition EMPTY : bytes := [101; 109; 112; 116; 121].     (* proxy.rs const EMPTY = "empty" *)
Definition NONE_TEXT : bytes := [78; 111; 110; 101].       (* get_ip_string(): "None" *)

(* http::StatusCode's Display: "<code> <canonical reason>" for the codes the handler produces *)
Definition reason_text (st : N) : bytes :=
  if st =? 200 then [79; 75]
  else if st =? 400 then [66; 97; 100; 32; 82; 101; 113; 117; 101; 115; 116]
  else if st =? 403 then [70; 111; 114; 98; 105; 100; 100; 101; 110]
  else if st =? 404 then [78; 111; 116; 32; 70; 111; 117; 110; 100]
  else if st =? 421 then [77; 105; 115; 100; 105; 114; 101; 99; 116; 101; 100; 32; 82; 101; 113; 117; 101; 115; 116]
  else if st =? 500 then [73; 110; 116; 101; 114; 110; 97; 108; 32; 83; 101; 114; 118; 101; 114; 32; 69; 114; 114; 111; 114]
  else if st =? 502 then [66; 97; 100; 32; 71; 97; 116; 101; 119; 97; 121]
  else if st =? 503 then [83; 101; 114; 118; 105; 99; 101; 32; 85; 110; 97; 118; 97; 105; 108; 97; 98; 108; 101]
  else [60; 117; 110; 107; 110; 111; 119; 110; 32; 115; 116; 97; 116; 117; 115; 32; 99; 111; 100; 101; 62].
Definition status_text (st : N) : bytes := dec st ++ [SPACE] ++ reason_text st.

(* log_connection_summary: claims = context's claims, or Claims::empty() with the client address *)
Definition summary_of (ci : conn_info) (st : N) : summary :=
  let cx := ci_ctx ci in
  let ip := match cx_dest cx with Some (ip, _) => ipv4_text ip | None => NONE_TEXT end in
  let port := match cx_dest cx with Some (_, p) => p | None => 0 end in
  match cx_claims cx with
  | Some c =>
      {| sm_user := k_user c; sm_groups := k_groups c; sm_client_ip := ci_client_ip ci;
         sm_ip := ip; sm_port := port; sm_path := k_exe c; sm_cmd := ci_cmd ci;
         sm_status := status_text st |}
  | None =>
      {| sm_user := EMPTY; sm_groups := []; sm_client_ip := ci_client_ip ci;
         sm_ip := ip; sm_port := port; sm_path := EMPTY; sm_cmd := EMPTY;
         sm_status := status_text st |}
  end.

(* one request: environment, connection, request *)
Record reqev := {
  rv_env : env;
  rv_conn : conn_info;
  rv_req : request;
}.

Definition effects_of (rv : reqev) : list effect :=
  snd (handle (rv_env rv) (ci_ctx (rv_conn rv)) (rv_req rv)).

(* the actor messages one request sends from inside handle_new_http_request, in code order
   (UpstreamWrite is not a message; the Summary that forward_response records after the relay
   carries the upstream's status and is outside [handle]) *)
Definition msg_of_effect (ci : conn_info) (f : effect) : list msg :=
  match f with
  | FailedSummary st => [AddFailed (summary_of ci st)]
  | Summary st => [AddOk (summary_of ci st)]
  | UpstreamWrite _ => []
  end.

Definition msgs_of (rv : reqev) : list msg := flat_map (msg_of_effect (rv_conn rv)) (effects_of rv).

(* the summary this request adds to the FAILED map, if any *)
Definition failed_of (rv : reqev) : list summary :=
  flat_map (fun f => match f with FailedSummary st => [summary_of (rv_conn rv) st] | _ => [] end)
           (effects_of rv).

Definition failed_effects (fx : list effect) : nat :=
  length (filter (fun f => match f with FailedSummary _ => true | _ => false end) fx).

Definition write_effects (fx : list effect) : list effect :=
  filter (fun f => match f with UpstreamWrite _ => true | _ => false end) fx.

(* the rules deny the request (the statement's "when the rules deny a request") *)
Definition rules_deny (rl : computed) (r : request) (c : claims) : bool :=
  negb (is_allowed rl (url_of r) c).

(* the caller passes the authorizer's built-in precondition, so that the decision is the rules':
   WireServer / HostGAPlugin are root-only whatever the rules say (C03), IMDS has no precondition;
   the two remaining kinds never consult rules *)
Definition builtin_ok (kd : kind) (c : claims) : bool :=
  match kd with
  | KWireServer | KGAPlugin => k_elevated c
  | KImds => true
  | KProxyAgent | KDefault => false
  end.

(* encodings for the correspondence check *)
Definition entry_code (e : entry) : bytes * list bytes * bytes * N * bytes * bytes * bytes * N :=
  (en_user e, en_groups e, en_ip e, en_port e, en_path e, en_cmd e, en_status e, en_count e).
