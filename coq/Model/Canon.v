(* C04 -- model of the request-signing code.  Definitions only; proofs are in Proofs/CanonProofs.v.

   Mirrors, statement by statement:
     proxy_agent/src/common/hyper_client.rs   query_pairs, get_path_and_canonicalized_parameters,
                                              headers_to_canonicalized_string, as_sig_input,
                                              request_to_sign_input, build_request, should_skip_sig
     proxy_agent/src/common/helpers.rs        compute_signature
     proxy_agent/src/proxy/proxy_server.rs    handle_request_with_signature (the pure core: sign
                                              the head that is forwarded, insert the header)

   ------------------------------------------------------------------------------------------
   INTERFACE for other models (C05, C14, C15 import this file; names below are stable):

     uri                      record {u_path : bytes; u_query : option bytes}: an origin-form
                              request target as hyper's Uri exposes it (path(), query()).
     uri_to_string u          Uri's Display for an origin-form target.
     should_skip_sig m u      the signature exemption test over Consts.skip_sig_pairs
                              (regenerated from should_skip_sig's source on every run); m is the
                              method's as_str() bytes (case-sensitive, as http::Method equality is).
     headers                  list (name * value) in HeaderMap ITERATION order; names are stored
                              lower-case by hyper (HeaderName), values are raw bytes.
     hm_insert n v hs         HeaderMap::insert: the first entry named n is replaced in place,
                              every other entry named n is dropped; appended when absent.
     hm_append n v hs         HeaderMap::append / Builder::header.
     hm_get_all n hs          HeaderMap::get_all(n) as a list of values.
     request                  record {r_method; r_uri; r_headers; r_body}.
     Section Sign, Context (mac : bytes -> bytes -> bytes)    HMAC-SHA256(key, message); no
                              equation about it is assumed anywhere.
       compute_signature mac hexkey input : option bytes      None = hex::decode error
       sign_and_forward mac key_value key_guid req : fwd      handle_request_with_signature:
                              Forwarded out | BadGateway (authorization value not a HeaderValue)
       sign_and_forward_pair mac (Some (guid, value)) req      the same, key read as one pair (a01dbe0)
       hyper_wire req, handle_signed mac key req               what hyper's client puts on the wire for a forwarded
                              request (no transfer-encoding header for an empty body); the repaired handler
       relay mac key_value key_guid req                       exempt -> Forwarded req unchanged,
                              otherwise sign_and_forward
       build_request mac now m host u hs body key_guid key    the agent's own calls
     as_sig_input m body hs u                                 the string that is MAC'd
     canon_headers hs, canon_query pairs, query_pairs q       its components
     hval v                                                   what is signed of a header value
     kv_collision pairs, repeated_header_name hs, header_value_not_utf8 hs
                              class predicates of the recorded known finding F3 (known_findings.d/C04.json)

   Library behaviour that is modelled, not verified (DESIGN 2.5): HeaderMap insert/append/iter,
   Uri::path/query/Display for origin-form targets, http::request::Builder's *_ref accessors,
   hex::encode/decode, String::from_utf8_lossy ([utf8_lossy], the Utf8Chunks algorithm of
   core::str::lossy) and str::trim ([trim_u], Unicode White_Space) on header values,
   str::to_lowercase on URI text (http's Uri only admits ASCII, where Unicode lower-casing =
   ASCII lower-casing).
   Since /repo 0528025 a header value is decoded lossily before it is signed (it used to panic
   on a byte >= 0x80, F7): valid UTF-8 is signed byte for byte (after trimming), every maximal
   invalid subpart becomes U+FFFD -- class predicate [header_value_not_utf8], known finding F3c. *)
From GPA Require Export Bytes AList Consts.

Definition LF : bytes := [10].

Definition auth_header : bytes := Consts.authorization_header.
Definition auth_scheme : bytes := Consts.authorization_scheme.

(* ---------------------------------------------------------------------------------------- *)
(* URIs (origin form)                                                                        *)
(* ---------------------------------------------------------------------------------------- *)
Record uri := { u_path : bytes; u_query : option bytes }.

(* impl fmt::Display for Uri, no scheme / authority *)
Definition uri_to_string (u : uri) : bytes :=
  u_path u ++ match u_query u with Some q => [63] ++ q | None => [] end.

(* hyper_client.rs query_pairs: uri.query().unwrap_or(""), split('&'), splitn(2,'='),
   a pair with an empty key is skipped, a missing value is "" *)
Definition query_pairs (q : option bytes) : list (bytes * bytes) :=
  let query := match q with Some s => s | None => [] end in
  flat_map (fun pair =>
              let '(key, value) := split_once 61 pair in
              match key with
              | [] => []
              | _ => [(key, match value with Some v => v | None => [] end)]
              end)
           (split_on 38 query).

(* ---------------------------------------------------------------------------------------- *)
(* `for key in map.keys().sorted() { ... map[key] ... }` over a HashMap<String, V>          *)
(* ---------------------------------------------------------------------------------------- *)
Definition sorted_bindings {V : Type} (m : list (bytes * V)) : list (bytes * V) :=
  flat_map (fun k => match alookup beq k m with Some v => [(k, v)] | None => [] end)
           (isort bytes_ltb (akeys m)).

(* ---------------------------------------------------------------------------------------- *)
(* get_path_and_canonicalized_parameters                                                     *)
(* ---------------------------------------------------------------------------------------- *)
(* pairs.insert(format!("{}{}", key, value), (key.to_lowercase(), value)) with key already
   lower-cased: the HashMap is keyed by lower(key) ++ value, later insertions overwrite *)
Definition query_entry (kv : bytes * bytes) : bytes * (bytes * bytes) :=
  let key := lower (fst kv) in
  (key ++ snd kv, (lower key, snd kv)).

Definition query_map (pairs : list (bytes * bytes)) : list (bytes * (bytes * bytes)) :=
  of_pairs beq (map query_entry pairs).

(* if query_pair.1.is_empty() { key.to_string() } else { format!("{}={}", .0, .1) }
   -- `key` is the HashMap key *)
Definition render_param (e : bytes * (bytes * bytes)) : bytes :=
  match snd (snd e) with
  | [] => fst e
  | _ => fst (snd e) ++ [61] ++ snd (snd e)
  end.

Definition canon_query (pairs : list (bytes * bytes)) : bytes :=
  join [38] (map render_param (sorted_bindings (query_map pairs))).

Definition path_and_canon_params (u : uri) : bytes * bytes :=
  (u_path u, canon_query (query_pairs (u_query u))).

(* ---------------------------------------------------------------------------------------- *)
(* String::from_utf8_lossy and str::trim on the decoded text                                 *)
(* ---------------------------------------------------------------------------------------- *)
Definition REPL : bytes := [239; 191; 189].                 (* U+FFFD *)
Definition is_cont (b : N) : bool := (128 <=? b) && (b <=? 191).
Definition lead2 (b : N) : bool := (194 <=? b) && (b <=? 223).     (* utf8_char_width = 2 *)
Definition lead3 (b : N) : bool := (224 <=? b) && (b <=? 239).
Definition lead4 (b : N) : bool := (240 <=? b) && (b <=? 244).
(* the (first, second) byte table of a three- / four-byte sequence *)
Definition ok3 (b c : N) : bool :=
  ((b =? 224) && (160 <=? c) && (c <=? 191)) ||
  ((225 <=? b) && (b <=? 236) && is_cont c) ||
  ((b =? 237) && (128 <=? c) && (c <=? 159)) ||
  ((238 <=? b) && (b <=? 239) && is_cont c).
Definition ok4 (b c : N) : bool :=
  ((b =? 240) && (144 <=? c) && (c <=? 191)) ||
  ((241 <=? b) && (b <=? 243) && is_cont c) ||
  ((b =? 244) && (128 <=? c) && (c <=? 143)).

(* one round of Utf8Chunks::next at lead byte b with rest t: (valid?, emitted bytes, remaining
   input).  An invalid sequence emits U+FFFD for the bytes consumed so far (the lead byte and
   the continuation bytes that were acceptable) and resumes AT the offending byte. *)
Definition utf8_step (b : N) (t : bytes) : bool * bytes * bytes :=
  if b <? 128 then (true, [b], t)
  else if lead2 b then
    match t with
    | c1 :: t1 => if is_cont c1 then (true, [b; c1], t1) else (false, REPL, t)
    | [] => (false, REPL, [])
    end
  else if lead3 b then
    match t with
    | c1 :: t1 =>
        if ok3 b c1 then
          match t1 with
          | c2 :: t2 => if is_cont c2 then (true, [b; c1; c2], t2) else (false, REPL, t1)
          | [] => (false, REPL, [])
          end
        else (false, REPL, t)
    | [] => (false, REPL, [])
    end
  else if lead4 b then
    match t with
    | c1 :: t1 =>
        if ok4 b c1 then
          match t1 with
          | c2 :: t2 =>
              if is_cont c2 then
                match t2 with
                | c3 :: t3 => if is_cont c3 then (true, [b; c1; c2; c3], t3) else (false, REPL, t2)
                | [] => (false, REPL, [])
                end
              else (false, REPL, t1)
          | [] => (false, REPL, [])
          end
        else (false, REPL, t)
    | [] => (false, REPL, [])
    end
  else (false, REPL, t).

Fixpoint utf8_lossy_fuel (n : nat) (s : bytes) : bytes :=
  match n, s with
  | S n', b :: t => let '(_, o, r) := utf8_step b t in o ++ utf8_lossy_fuel n' r
  | _, _ => []
  end.
Definition utf8_lossy (s : bytes) : bytes := utf8_lossy_fuel (length s) s.

Fixpoint utf8_valid_fuel (n : nat) (s : bytes) : bool :=
  match n, s with
  | _, [] => true
  | S n', b :: t => let '(ok, _, r) := utf8_step b t in ok && utf8_valid_fuel n' r
  | O, _ :: _ => false
  end.
Definition utf8_valid (s : bytes) : bool := utf8_valid_fuel (length s) s.

(* char::is_whitespace (White_Space): U+0009..000D, 0020 (is_space), and in UTF-8
   U+0085 C2 85, U+00A0 C2 A0, U+1680 E1 9A 80, U+2000..200A E2 80 80..8A, U+2028/2029 E2 80 A8/A9,
   U+202F E2 80 AF, U+205F E2 81 9F, U+3000 E3 80 80 *)
Definition ws2 (a b : N) : bool := (a =? 194) && ((b =? 133) || (b =? 160)).
Definition ws3 (a b c : N) : bool :=
  ((a =? 225) && (b =? 154) && (c =? 128)) ||
  ((a =? 226) && (b =? 128) && (((128 <=? c) && (c <=? 138)) || (c =? 168) || (c =? 169) || (c =? 175))) ||
  ((a =? 226) && (b =? 129) && (c =? 159)) ||
  ((a =? 227) && (b =? 128) && (c =? 128)).

Fixpoint trim_start_u (s : bytes) : bytes :=
  match s with
  | [] => []
  | a :: t =>
      if is_space a then trim_start_u t
      else match t with
           | b :: t1 =>
               if ws2 a b then trim_start_u t1
               else match t1 with
                    | c :: t2 => if ws3 a b c then trim_start_u t2 else s
                    | [] => s
                    end
           | [] => s
           end
  end.

(* the same from the end, on the reversed string (last byte first) *)
Fixpoint trim_start_ur (s : bytes) : bytes :=
  match s with
  | [] => []
  | c :: t =>
      if is_space c then trim_start_ur t
      else match t with
           | b :: t1 =>
               if ws2 b c then trim_start_ur t1
               else match t1 with
                    | a :: t2 => if ws3 a b c then trim_start_ur t2 else s
                    | [] => s
                    end
           | [] => s
           end
  end.
Definition trim_end_u (s : bytes) : bytes := rev (trim_start_ur (rev s)).
Definition trim_u (s : bytes) : bytes := trim_end_u (trim_start_u s).

(* what is signed of a header value: String::from_utf8_lossy(value.as_bytes()) ... .trim() *)
Definition hval (v : bytes) : bytes := trim_u (utf8_lossy v).

(* ---------------------------------------------------------------------------------------- *)
(* headers_to_canonicalized_string                                                           *)
(* ---------------------------------------------------------------------------------------- *)
Definition headers := list (bytes * bytes).

(* map.insert(key.to_lowercase(), (key, value)): the .0 component (the original key) is never
   read afterwards, so the model stores the value only; later insertions overwrite *)
Definition header_entry (h : bytes * bytes) : bytes * bytes := (lower (fst h), snd h).

Definition header_map (hs : headers) : list (bytes * bytes) :=
  of_pairs beq (map header_entry hs).

(* key.eq_ignore_ascii_case(constants::AUTHORIZATION_HEADER) *)
Definition is_auth_key (k : bytes) : bool := beq (lower k) (lower auth_header).

(* format!("{}:{}{}", key, map[key].1.trim(), LF), skipped for the authorization header; the
   stored value is String::from_utf8_lossy(value.as_bytes()) *)
Definition render_header (e : bytes * bytes) : bytes :=
  if is_auth_key (fst e) then [] else fst e ++ [58] ++ hval (snd e) ++ LF.

Definition canon_headers (hs : headers) : bytes :=
  concat (map render_header (sorted_bindings (header_map hs))).

(* ---------------------------------------------------------------------------------------- *)
(* as_sig_input (proxied route) and request_to_sign_input (the agent's own calls)            *)
(* ---------------------------------------------------------------------------------------- *)
Definition as_sig_input (m body : bytes) (hs : headers) (u : uri) : bytes :=
  let pp := path_and_canon_params u in
  m ++ LF ++ body ++ LF ++ canon_headers hs ++ fst pp ++ LF ++ snd pp.

(* http::request::Builder as seen through method_ref / headers_ref / uri_ref.  In http 1.x the
   three accessors are Some together (builder healthy) or None together (builder in error);
   the model keeps them separate because the code tests them separately. *)
Record builder := {
  b_method : option bytes;
  b_headers : option headers;
  b_uri : option uri;
}.

Definition request_to_sign_input (b : builder) (body : option bytes) : option bytes :=
  match b_method b with
  | None => None
  | Some m =>
      let d := m ++ LF ++ (match body with Some x => x | None => [] end) ++ LF ++
               (match b_headers b with Some h => canon_headers h | None => LF end) in
      match b_uri b with
      | Some u => let pp := path_and_canon_params u in Some (d ++ fst pp ++ LF ++ snd pp)
      | None => None
      end
  end.

(* the pieces around the body, so that the check can assemble the expected string for a
   100 KiB body without pushing the body through coqc (CanonProofs.sig_input_body_split) *)
Definition sig_input_prefix (m : bytes) : bytes := m ++ LF.
Definition sig_input_suffix (hs : headers) (u : uri) : bytes :=
  let pp := path_and_canon_params u in
  LF ++ canon_headers hs ++ fst pp ++ LF ++ snd pp.

(* ---------------------------------------------------------------------------------------- *)
(* should_skip_sig                                                                           *)
(* ---------------------------------------------------------------------------------------- *)
Definition should_skip_sig (m : bytes) (u : uri) : bool :=
  let url := lower (uri_to_string u) in
  existsb (fun p => beq m (fst p) && beq url (snd p)) Consts.skip_sig_pairs.

(* ---------------------------------------------------------------------------------------- *)
(* hex::encode (lower case) / hex::decode (either case, even length)                         *)
(* ---------------------------------------------------------------------------------------- *)
Definition hex_digit (n : N) : N := if n <? 10 then 48 + n else 87 + n.

Definition hex_encode (s : bytes) : bytes :=
  flat_map (fun b => [hex_digit (b / 16); hex_digit (b mod 16)]) s.

Definition hex_val (c : N) : option N :=
  if is_digit c then Some (c - 48)
  else if (97 <=? c) && (c <=? 102) then Some (c - 87)
  else if (65 <=? c) && (c <=? 70) then Some (c - 55)
  else None.

Fixpoint hex_decode (s : bytes) : option bytes :=
  match s with
  | [] => Some []
  | [_] => None
  | a :: b :: t =>
      match hex_val a, hex_val b, hex_decode t with
      | Some x, Some y, Some r => Some (16 * x + y :: r)
      | _, _, _ => None
      end
  end.

(* ---------------------------------------------------------------------------------------- *)
(* HeaderMap operations                                                                      *)
(* ---------------------------------------------------------------------------------------- *)
Fixpoint hm_insert (n v : bytes) (hs : headers) : headers :=
  match hs with
  | [] => [(n, v)]
  | h :: t =>
      if beq n (fst h) then (n, v) :: filter (fun x => negb (beq n (fst x))) t
      else h :: hm_insert n v t
  end.

Definition hm_append (n v : bytes) (hs : headers) : headers := hs ++ [(n, v)].

Definition hm_get_all (n : bytes) (hs : headers) : list bytes :=
  map snd (filter (fun h => beq n (fst h)) hs).

(* HeaderValue::from_str / from_bytes accept exactly these bytes *)
Definition header_value_ok (v : bytes) : bool :=
  forallb (fun b => ((32 <=? b) && negb (b =? 127)) || (b =? 9)) v.

Record request := {
  r_method : bytes;
  r_uri : uri;
  r_headers : headers;
  r_body : bytes;
}.

Definition with_headers (r : request) (hs : headers) : request :=
  {| r_method := r_method r; r_uri := r_uri r; r_headers := hs; r_body := r_body r |}.

Definition request_sig_input (r : request) : bytes :=
  as_sig_input (r_method r) (r_body r) (r_headers r) (r_uri r).

(* format!("{} {} {}", AUTHORIZATION_SCHEME, key_guid, signature) *)
Definition auth_value (guid sig : bytes) : bytes :=
  auth_scheme ++ [32] ++ guid ++ [32] ++ sig.

Inductive fwd := Forwarded (r : request) | BadGateway.

(* { "isRoot": "true"} *)
Definition own_claims_value : bytes :=
  [123; 32; 34] ++ Consts.claims_is_root ++ [34; 58; 32; 34] ++ [116; 114; 117; 101] ++ [34; 125].

Definition host_header : bytes := [104; 111; 115; 116].
Definition content_length_header : bytes :=
  [99; 111; 110; 116; 101; 110; 116; 45; 108; 101; 110; 103; 116; 104].

(* "transfer-encoding" *)
Definition transfer_encoding_header : bytes :=
  [116; 114; 97; 110; 115; 102; 101; 114; 45; 101; 110; 99; 111; 100; 105; 110; 103].
Definition drop_header (n : bytes) (hs : headers) : headers := filter (fun h => negb (beq n (fst h))) hs.

Section Sign.
Context (mac : bytes -> bytes -> bytes).

(* helpers.rs compute_signature *)
Definition compute_signature (hex_key input : bytes) : option bytes :=
  match hex_decode hex_key with
  | Some k => Some (hex_encode (mac k input))
  | None => None
  end.

(* proxy_server.rs handle_request_with_signature, after the body has been collected:
   proxy_request = from_parts(head.clone(), body); if both key parts are present, sign
   as_sig_input(head, body) and insert the authorization header into proxy_request; a
   compute_signature error is logged and the request is sent unsigned; an authorization value
   that is not a HeaderValue answers 502 *)
Definition sign_and_forward (key_value key_guid : option bytes) (req : request) : fwd :=
  match key_value, key_guid with
  | Some key, Some guid =>
      match compute_signature key (request_sig_input req) with
      | Some sig =>
          let av := auth_value guid sig in
          if header_value_ok av
          then Forwarded (with_headers req (hm_insert auth_header av (r_headers req)))
          else BadGateway
      | None => Forwarded req
      end
  | _, _ => Forwarded req
  end.

(* since /repo a01dbe0 the handler reads `Some((key_guid, key))` from ONE accessor
   (get_current_key_guid_and_value); the two-option form above is kept for the importers *)
Definition sign_and_forward_pair (key : option (bytes * bytes)) (req : request) : fwd :=
  match key with
  | Some (guid, value) => sign_and_forward (Some value) (Some guid) req
  | None => Forwarded req
  end.

(* hyper's HTTP/1 client writes a request whose body is empty WITHOUT a transfer-encoding header (there is nothing to
   frame); every other header, content-length and trailer included, goes out as it is (observed end to end).  Since
   patches/fix-C04-empty-chunked-body the handler does the same to the head BEFORE it signs, once the body has been
   collected (`if whole_body.is_empty() { head.headers.remove(TRANSFER_ENCODING) }`), so one function models both. *)
Definition hyper_wire (r : request) : request :=
  match r_body r with
  | [] => with_headers r (drop_header transfer_encoding_header (r_headers r))
  | _ => r
  end.

(* handle_request_with_signature as repaired: drop the framing header of an empty body, then sign and forward *)
Definition handle_signed (key : option (bytes * bytes)) (req : request) : fwd :=
  sign_and_forward_pair key (hyper_wire req).

(* handle_new_http_request's last step: exempt requests go out as they are *)
Definition relay (key_value key_guid : option bytes) (req : request) : fwd :=
  if should_skip_sig (r_method req) (r_uri req) then Forwarded req
  else sign_and_forward key_value key_guid req.

(* hyper_client.rs build_request.  `now` is get_date_time_rfc1123_string(), `host` the
   authority's host, `u` the url's path_and_query, `hs` the caller's HashMap in its iteration
   order (names as given; HeaderName lower-cases them).  Builder::header appends.  An error
   from request_to_sign_input or compute_signature is propagated by `?` (None). *)
Definition own_base_headers (now host : bytes) (body : option bytes) : headers :=
  [ (Consts.date_header, now);
    (host_header, host);
    (Consts.claims_header, own_claims_value);
    (content_length_header,
     dec (N.of_nat (length (match body with Some b => b | None => [] end)))) ].

Definition build_request (now m host : bytes) (u : uri) (hs : headers) (body : option bytes)
           (key_guid key : option bytes) : option request :=
  let hdrs := own_base_headers now host body ++ map header_entry hs in
  let b := {| b_method := Some m; b_headers := Some hdrs; b_uri := Some u |} in
  let bd := match body with Some x => x | None => [] end in
  match key, key_guid with
  | Some k, Some g =>
      match request_to_sign_input b body with
      | None => None
      | Some input =>
          match compute_signature k input with
          | None => None
          | Some sig =>
              Some {| r_method := m; r_uri := u;
                      r_headers := hm_append auth_header (auth_value g sig) hdrs;
                      r_body := bd |}
          end
      end
  | _, _ => Some {| r_method := m; r_uri := u; r_headers := hdrs; r_body := bd |}
  end.
End Sign.

(* ---------------------------------------------------------------------------------------- *)
(* what the coverage theorems speak about                                                    *)
(* ---------------------------------------------------------------------------------------- *)
(* the signed view of a header list: every header except the authorization header, name
   lower-cased, value AS RECEIVED up to surrounding blanks -- as a multiset (compared up to
   Permutation) *)
Definition sig_header (h : bytes * bytes) : bool := negb (is_auth_key (lower (fst h))).
Definition hnorm (h : bytes * bytes) : bytes * bytes := (lower (fst h), trim_u (snd h)).
Definition hnorm_multiset (hs : headers) : list (bytes * bytes) := map hnorm (filter sig_header hs).

(* the signed view of a parameter list: key lower-cased, value as is *)
Definition qnorm (kv : bytes * bytes) : bytes * bytes := (lower (fst kv), snd kv).
Definition qnorm_multiset (pairs : list (bytes * bytes)) : list (bytes * bytes) := map qnorm pairs.

(* what hyper guarantees about header lists it hands over: no ':' in a name (token
   characters only), no line feed in a value *)
Definition wf_header (h : bytes * bytes) : bool :=
  negb (existsb (N.eqb 58) (fst h)) && negb (existsb (N.eqb 10) (snd h)).
Definition wf_headers (hs : headers) : bool := forallb wf_header hs.

(* ---------------------------------------------------------------------------------------- *)
(* class predicates of the recorded known finding F3                                         *)
(* ---------------------------------------------------------------------------------------- *)
Fixpoint has_dup (l : list bytes) : bool :=
  match l with
  | [] => false
  | x :: t => existsb (beq x) t || has_dup t
  end.

(* two query pairs whose lower(key) ++ value strings are equal (exact duplicates included) *)
Definition sort_key (kv : bytes * bytes) : bytes := lower (fst kv) ++ snd kv.
Definition kv_collision (pairs : list (bytes * bytes)) : bool := has_dup (map sort_key pairs).
Definition KnownClass_C04_kv_collision (q : option bytes) : bool := kv_collision (query_pairs q).

(* a signed header name that occurs more than once *)
Definition repeated_header_name (hs : headers) : bool :=
  has_dup (map (fun h => lower (fst h)) (filter sig_header hs)).
Definition KnownClass_C04_repeated_header_name (hs : headers) : bool := repeated_header_name hs.

(* a signed header whose value is not valid UTF-8 (every maximal invalid subpart is signed as
   U+FFFD, so different byte strings share one canonical string) *)
Definition header_value_not_utf8 (hs : headers) : bool :=
  existsb (fun h => negb (utf8_valid (snd h))) (filter sig_header hs).
Definition KnownClass_C04_header_value_not_utf8 (hs : headers) : bool := header_value_not_utf8 hs.

(* ---------------------------------------------------------------------------------------- *)
(* one call for the correspondence check                                                     *)
(* ---------------------------------------------------------------------------------------- *)
Definition c04_uri_case (m path : bytes) (q : option bytes) :=
  let u := {| u_path := path; u_query := q |} in
  (query_pairs q, path_and_canon_params u, should_skip_sig m u, kv_collision (query_pairs q)).

Definition c04_headers_case (hs : headers) :=
  (canon_headers hs, repeated_header_name hs, header_value_not_utf8 hs).

Definition c04_sig_case (m body path : bytes) (q : option bytes) (hs : headers) :=
  let u := {| u_path := path; u_query := q |} in
  (as_sig_input m body hs u,
   request_to_sign_input {| b_method := Some m; b_headers := Some hs; b_uri := Some u |} (Some body)).

Definition c04_parts_case (m path : bytes) (q : option bytes) (hs : headers) :=
  let u := {| u_path := path; u_query := q |} in
  (sig_input_prefix m, sig_input_suffix hs u).

(* the agent's own calls: the header list build_request assembles and the string it signs
   (the MAC itself is computed by the check with an independent HMAC-SHA256) *)
Definition c04_own_case (now m host path : bytes) (q : option bytes) (hs : headers) (body : option bytes) :=
  let u := {| u_path := path; u_query := q |} in
  let hdrs := own_base_headers now host body ++ map header_entry hs in
  (hdrs, request_to_sign_input {| b_method := Some m; b_headers := Some hdrs; b_uri := Some u |} body).
