(* C20 -- model of proxy_agent_extension/src/common.rs StatusState::update_state and
   service_main/service_state.rs ServiceState::update_service_state_entry.
   Definitions only; proofs are in Proofs/Health.v. *)
From GPA Require Export Bytes AList Consts.

Inductive hstate := Success | Transitioning | Error | Other.

Definition hstate_eqb (a b : hstate) : bool :=
  match a, b with
  | Success, Success | Transitioning, Transitioning | Error, Error | Other, Other => true
  | _, _ => false
  end.

Record status_state := {
  cur : hstate;
  fail_count : N;
  succ_count : N;
  threshold : N;     (* transition_to_error_threshold, set by new() *)
}.

Definition ss_new : status_state :=
  {| cur := Transitioning; fail_count := 0; succ_count := 0;
     threshold := Consts.ext_transition_to_error_threshold |}.

Definition max_consecutive : N := Consts.ext_max_consecutive_count.

(* update_state, statement by statement *)
Definition update_counts (s : status_state) (ok : bool) : N * N :=
  if ok then
    (0, if succ_count s <? max_consecutive then succ_count s + 1 else succ_count s)
  else
    (if fail_count s <? max_consecutive then fail_count s + 1 else fail_count s, 0).

Definition update_state (s : status_state) (ok : bool) : status_state :=
  let '(f, c) := update_counts s ok in
  let st :=
    match cur s with
    | Success => if 1 <=? f then Transitioning else Success
    | Transitioning =>
        if 1 <=? c then Success
        else if threshold s <=? f then Error else Transitioning
    | Error => if 1 <=? c then Transitioning else Error
    | Other => Transitioning
    end in
  {| cur := st; fail_count := f; succ_count := c; threshold := threshold s |}.

Definition out (s : status_state) : hstate := cur s.

(* run a sequence of observations from a state, collecting the outputs *)
Fixpoint run (s : status_state) (obs : list bool) : list hstate :=
  match obs with
  | [] => []
  | o :: t => let s' := update_state s o in out s' :: run s' t
  end.

Fixpoint run_state (s : status_state) (obs : list bool) : status_state :=
  match obs with
  | [] => s
  | o :: t => run_state (update_state s o) t
  end.

(* The same machine with unbounded counters (no saturation) *)
Definition update_state_unb (s : status_state) (ok : bool) : status_state :=
  let '(f, c) := if ok then (0, succ_count s + 1) else (fail_count s + 1, 0) in
  let st :=
    match cur s with
    | Success => if 1 <=? f then Transitioning else Success
    | Transitioning =>
        if 1 <=? c then Success
        else if threshold s <=? f then Error else Transitioning
    | Error => if 1 <=? c then Transitioning else Error
    | Other => Transitioning
    end in
  {| cur := st; fail_count := f; succ_count := c; threshold := threshold s |}.

Fixpoint run_unb (s : status_state) (obs : list bool) : list hstate :=
  match obs with
  | [] => []
  | o :: t => let s' := update_state_unb s o in out s' :: run_unb s' t
  end.

(* ---- ServiceState::update_service_state_entry ---- *)
(* state_map : key -> (value, count); keys and values are byte strings *)
Definition smap := list (bytes * (bytes * N)).

Definition update_entry (m : smap) (k v : bytes) (max_count : N) : smap * bool :=
  match alookup beq k m with
  | Some (v0, c) =>
      if negb (beq v0 v) || (max_count <=? c)
      then (ainsert beq k (v, 1) m, true)
      else (ainsert beq k (v, c + 1) m, false)
  | None => (ainsert beq k (v, 1) m, true)
  end.

Fixpoint run_entries (m : smap) (ops : list (bytes * bytes)) (max_count : N) : list bool :=
  match ops with
  | [] => []
  | (k, v) :: t =>
      let '(m', b) := update_entry m k v max_count in b :: run_entries m' t max_count
  end.

(* ---- monitor-loop level (service_main.rs monitor_thread / report_proxy_agent_aggregate_status /
   extension_substatus): one poll of the aggregate status file is ONE health observation.  A poll fails when
   the file cannot be read or its version differs from the extension's, and succeeds otherwise; each path
   calls update_state exactly once. ---- *)
(* PollInstall: an install/update attempt of the monitor loop (report_proxy_agent_service_status): every branch
   of it -- tool succeeded, tool failed, tool could not be run -- calls update_state(false) exactly once. *)
Inductive poll := PollReadErr | PollMismatch | PollHealthy | PollInstall.
Definition poll_ok (p : poll) : bool := match p with PollHealthy => true | _ => false end.
(* what the extension REPORTS is the status file written by common::report_status from the in-memory status:
   the same value *)
Definition reported (s : status_state) : hstate := cur s.
Definition poll_step (s : status_state) (p : poll) : status_state := update_state s (poll_ok p).
Definition run_polls (s : status_state) (ps : list poll) : list hstate := run s (map poll_ok ps).
Definition state_after_polls (s : status_state) (ps : list poll) : status_state := run_state s (map poll_ok ps).

(* state notifications made by ONE poll (report_proxy_agent_aggregate_status -> write_state_event, then
   extension_substatus -> write_state_event): first the outcome of reading the file under the key
   ReadProxyAgentStatusFile, then -- only when the file was read -- the outcome of the version comparison under
   the key FileVersion.  Each notification goes through write_state_event, which emits an event exactly when
   update_service_state_entry(key, value, MAX_STATE_COUNT) returns true.  Keys and values are abstract here
   (two distinct keys, two distinct values); install attempts make no state notification. *)
Definition key_read : bytes := [0].
Definition key_version : bytes := [1].
Definition val_success : bytes := [0].
Definition val_error : bytes := [1].
Definition poll_notes (p : poll) : list (bytes * bytes) :=
  match p with
  | PollReadErr => [(key_read, val_error)]
  | PollMismatch => [(key_read, val_success); (key_version, val_error)]
  | PollHealthy => [(key_read, val_success); (key_version, val_success)]
  | PollInstall => []
  end.
(* the events of a whole poll history, one boolean per notification, from an empty ServiceState *)
Definition poll_events (ps : list poll) : list bool :=
  run_entries [] (flat_map poll_notes ps) Consts.ext_max_state_count.
(* number of events emitted by each poll of the history *)
Fixpoint poll_event_counts_from (m : smap) (ps : list poll) : list N :=
  match ps with
  | [] => []
  | p :: t =>
      let step := fold_left (fun '(m0, n) '(k, v) =>
                    let '(m1, b) := update_entry m0 k v Consts.ext_max_state_count in
                    (m1, if b then n + 1 else n)) (poll_notes p) (m, 0) in
      snd step :: poll_event_counts_from (fst step) t
  end.
Definition poll_event_counts (ps : list poll) : list N := poll_event_counts_from [] ps.

(* `impl Default for StatusState { fn default() -> Self { Self::new() } }` *)
Definition ss_default : status_state := ss_new.

(* encoding used by the correspondence check *)
Definition hstate_code (h : hstate) : N :=
  match h with Success => 0 | Transitioning => 1 | Error => 2 | Other => 3 end.
