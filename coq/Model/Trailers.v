(* C05 -- the request's TRAILER section.  Definitions only; proofs are in Proofs/TrailersProofs.v.

   A client request on the wire = head fields + body framing + (for a chunked body) an optional
   trailer section: field lines after the last chunk.  hyper's server hands the trailer section
   to the handler as a trailers frame of the body stream.

   Mirrors proxy_agent/src/proxy/proxy_server.rs convert_request / handle_request_with_signature:
       let whole_body = body.collect().await ... .to_bytes();
       Request::from_parts(head, Full::new(whole_body))
   `Collected::to_bytes()` keeps the DATA of the collected body only; the trailers it also holds
   are dropped, and `Full` has no trailer section.  So what goes upstream is the head as built by
   Headers.proxy_forward, the body bytes, and NO trailer fields.

   Assumptions (library behaviour stated as definitions, tied by execution): http-body-util's
   Collected::to_bytes ignores trailers; Full::new(..) produces no trailers; hyper's client writes
   no trailer section for such a body (a chunked upstream request ends with "0 CRLF CRLF"). *)
From GPA Require Export Headers.

(* a client request as it is on the wire *)
Record wire_request := {
  w_req : client_request;                    (* method, target, head fields, body bytes *)
  w_trailers : list (bytes * bytes);         (* trailer fields as sent: any names, any case, any number *)
}.

(* what the host receives *)
Record upstream_message := {
  u_request : request;                       (* head + body as forwarded *)
  u_trailers : list (bytes * bytes);         (* trailer fields behind the body *)
}.

(* Collected::to_bytes + Full::new: the trailer section does not survive the collection *)
Definition collected_trailers (tr : list (bytes * bytes)) : list (bytes * bytes) := [].

(* forwarding the trailer section instead -- NOT what the code does; kept for contrast
   (TrailersProofs.forwarding_trailers_refuted) *)
Definition kept_trailers (tr : list (bytes * bytes)) : list (bytes * bytes) := tr.

Section ForwardWire.
Context (mac : bytes -> bytes -> bytes).

Definition forward_wire_with (keep : list (bytes * bytes) -> list (bytes * bytes))
           (a : audit) (now : bytes) (kv kg : option bytes) (w : wire_request) : option upstream_message :=
  match proxy_forward mac a now kv kg (w_req w) with
  | Forwarded out => Some {| u_request := out; u_trailers := keep (w_trailers w) |}
  | BadGateway => None
  end.

(* the code *)
Definition forward_wire := forward_wire_with collected_trailers.
End ForwardWire.

(* every field line the host sees, head section first, names as a case-insensitive reader takes
   them (the head's names are lower-case already) *)
Definition all_fields (u : upstream_message) : headers :=
  r_headers (u_request u) ++ map (fun h => (lower (fst h), snd h)) (u_trailers u).

(* one call for the correspondence check: like Headers.c05_case, for a request with a trailer
   section; returns every field the host must see (head and trailer sections) *)
Definition c05_trailer_case (is_admin : Z) (now : bytes) (key_value key_guid : option bytes)
           (m path : bytes) (q : option bytes) (wire trailers : list (bytes * bytes)) (body : bytes) :=
  let a := {| a_logon_id := 0; a_process_id := 0; a_is_admin := is_admin;
              a_destination_ipv4 := 0; a_destination_port := 0 |} in
  let c := {| c_method := m; c_uri := {| u_path := path; u_query := q |}; c_wire := wire; c_body := body |} in
  match forward_wire zero_mac a now key_value key_guid {| w_req := c; w_trailers := trailers |},
        c05_case is_admin now key_value key_guid m path q wire body with
  | Some u, Some (_, signed, sig_input) => Some (all_fields u, signed, sig_input)
  | _, _ => None
  end.
