(* C15 -- model of the request-body size limit of the proxy listener.  Definitions only; proofs
   are in Proofs/LimitProofs.v.

   Mirrors:
     proxy_agent/src/proxy/proxy_server.rs
        handle_new_tcp_connection, the service_fn closure
              RequestBodyLimitLayer::new(REQUEST_BODY_LOW_LIMIT_SIZE / REQUEST_BODY_LARGE_LIMIT_SIZE),
              the large one iff hyper_client::should_skip_sig(req.method(), req.uri())
        handle_new_http_request       early returns that never touch the body, then "Add required
              headers", then convert_request (exempt) / handle_request_with_signature (signed):
              body.collect().await  -- Err => 400 BAD_REQUEST, nothing sent --  and only then
              http_connection_context.send_request(..)
     tower-http 0.6.2 src/limit/service.rs  RequestBodyLimit::call         ([limit_gate])
     http-body-util 0.1.2 src/limited.rs    Limited::poll_frame            ([limited_collect])

   ASSUMPTIONS about the libraries, stated as definitions and tied by execution (DESIGN 2.5):
   * RequestBodyLimit::call reads the Content-Length header; a value above the limit is answered
     413 Payload Too Large WITHOUT calling the inner service; otherwise the body is wrapped in
     Limited with remaining = min(limit, content-length) (= limit when there is no header);
   * Limited::poll_frame fails the stream with LengthLimitError on the first data frame that is
     larger than what remains, else subtracts the frame length;
   * hyper delivers a body declared by Content-Length in frames that add up to exactly that
     length (or ends it with an error), and decodes a chunked body into data frames of any sizes;
   * hyper accepts only decimal Content-Length values; [declared] is that number. *)
From GPA Require Export Relay.

Definition low_limit : N := Consts.request_body_low_limit_size.
Definition large_limit : N := Consts.request_body_large_limit_size.

(* the service_fn closure: which layer serves this request *)
Definition limit_of (m : bytes) (u : uri) : N :=
  if should_skip_sig m u then large_limit else low_limit.

Definition blen (b : bytes) : N := N.of_nat (length b).

(* ---------------------------------------------------------------------------------------- *)
(* tower-http: RequestBodyLimit::call                                                        *)
(* ---------------------------------------------------------------------------------------- *)
Definition status_payload_too_large : N := 413.

Inductive gate := Refuse413 | Admit (body_limit : N).

Definition limit_gate (limit : N) (content_length : option N) : gate :=
  match content_length with
  | Some len => if limit <? len then Refuse413 else Admit (N.min limit len)
  | None => Admit limit
  end.

(* ---------------------------------------------------------------------------------------- *)
(* http-body-util: Limited, driven by BodyExt::collect                                       *)
(* ---------------------------------------------------------------------------------------- *)
(* [broken]: the underlying body ends with an error after the listed frames (client went away,
   malformed chunk).  None = collect() returned Err. *)
Fixpoint limited_collect (remaining : N) (frames : list bytes) (broken : bool) (acc : bytes)
  : option bytes :=
  match frames with
  | [] => if broken then None else Some acc
  | f :: t =>
      if remaining <? blen f then None
      else limited_collect (remaining - blen f) t broken (acc ++ f)
  end.

(* ---------------------------------------------------------------------------------------- *)
(* the handler                                                                               *)
(* ---------------------------------------------------------------------------------------- *)
(* what handle_new_http_request decides before it looks at the body (C01's subject; here an
   input).  The statuses are regenerated from the handler's source. *)
Inductive early_kind :=
  | ECounterFailure | ETraversal | ENoDestination | ENoClaims | EClaimsJson | ERulesError | EForbidden.

Definition early_status (k : early_kind) : N :=
  match k with
  | ECounterFailure => Consts.handler_status_counter_failure
  | ETraversal => Consts.handler_status_traversal
  | ENoDestination => Consts.handler_status_no_destination
  | ENoClaims => Consts.handler_status_no_claims
  | EClaimsJson => Consts.handler_status_claims_json
  | ERulesError => Consts.handler_status_rules_error
  | EForbidden => Consts.handler_status_forbidden
  end.

(* the early returns a client can cause (the two others need a dead actor inside the agent) *)
Definition client_caused (k : early_kind) : bool :=
  match k with ECounterFailure | ERulesError => false | _ => true end.

Inductive pre :=
  | PreEarly (k : early_kind)        (* refused before the body is touched *)
  | PreProvision (s : N)             (* the local /provision endpoint: answered locally with s,
                                        the body is never read *)
  | PreProceed (a : audit).          (* authorized; attribution record a *)

Inductive answer := Local (status : N) | FromHost.

Record served := {
  to_client : answer;
  upstream_writes : list request;    (* every request written on the upstream connection *)
}.

Definition local (s : N) : served := {| to_client := Local s; upstream_writes := [] |}.

Definition body_error_status (m : bytes) (u : uri) : N :=
  if should_skip_sig m u then Consts.relay_status_body_error_exempt
  else Consts.relay_status_body_error_signed.

Definition status_bad_gateway : N := 502.

Section Serve.
Context (mac : bytes -> bytes -> bytes).

(* one request through the limit layer and the handler.
   [declared]: the Content-Length header as a number, None when absent (chunked);
   [q_frames q]: the data frames hyper delivers; [broken]: see limited_collect;
   [up]: the upstream connection could be opened at accept time (else 502 without a write). *)
Definition serve (p : pre) (now : bytes) (key_value key_guid : option bytes) (up : bool)
           (q : framed_request) (declared : option N) (broken : bool) : served :=
  match limit_gate (limit_of (q_method q) (q_uri q)) declared with
  | Refuse413 => local status_payload_too_large
  | Admit body_limit =>
      match p with
      | PreEarly k => local (early_status k)
      | PreProvision s => local s
      | PreProceed a =>
          match add_required_headers (run_as_elevated a) now (of_wire (q_wire q)) with
          | None => local status_bad_gateway
          | Some _ =>
              match limited_collect body_limit (q_frames q) broken [] with
              | None => local (body_error_status (q_method q) (q_uri q))
              | Some body =>
                  match proxy_forward mac a now key_value key_guid
                          {| c_method := q_method q; c_uri := q_uri q; c_wire := q_wire q; c_body := body |} with
                  | BadGateway => local status_bad_gateway
                  | Forwarded out =>
                      if up then {| to_client := FromHost; upstream_writes := [out] |}
                      else local status_bad_gateway
                  end
              end
          end
      end
  end.
End Serve.

Definition total (frames : list bytes) : N := blen (concat frames).

Definition is_4xx (s : N) : bool := (400 <=? s) && (s <? 500).

(* ---------------------------------------------------------------------------------------- *)
(* one call for the correspondence check: frames are given by their LENGTHS (filled with a
   constant byte), so that 100 MiB bodies need no 100 MiB term                               *)
(* ---------------------------------------------------------------------------------------- *)
(* the same decision procedure on frame lengths; LimitProofs.serve_lengths_agree ties it to
   [serve] *)
Fixpoint limited_lengths (remaining : N) (lens : list N) (broken : bool) (acc : N) : option N :=
  match lens with
  | [] => if broken then None else Some acc
  | f :: t => if remaining <? f then None else limited_lengths (remaining - f) t broken (acc + f)
  end.

Inductive verdict := VLocal (status : N) | VRelayed (body_len : N).

(* [sel]: what the handler decides before the body: 0 = authorized, 1 = forbidden (403),
   2 = traversal (404), any other value = the local /provision endpoint answering 200 *)
Definition c15_case (m path : bytes) (q : option bytes) (sel : N) (declared : option N)
           (lens : list N) (broken : bool) : N * bool * verdict :=
  let u := {| u_path := path; u_query := q |} in
  let limit := limit_of m u in
  (limit, should_skip_sig m u,
   match limit_gate limit declared with
   | Refuse413 => VLocal status_payload_too_large
   | Admit body_limit =>
       match sel with
       | 0 =>
         match limited_lengths body_limit lens broken 0 with
         | None => VLocal (body_error_status m u)
         | Some n => VRelayed n
         end
       | 1 => VLocal (early_status EForbidden)
       | 2 => VLocal (early_status ETraversal)
       | _ => VLocal 200
       end
   end).
