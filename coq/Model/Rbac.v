(* C02 -- model of the RBAC decision:
     proxy_agent/src/proxy/authorization_rules.rs  ComputedAuthorizationItem::from_authorization_item,
                                                   ComputedAuthorizationItem::is_allowed
     proxy_agent/src/key_keeper/key.rs             Privilege::is_match, Identity::is_match,
                                                   AuthorizationItem / AccessControlRules / Privilege /
                                                   Role / Identity / RoleAssignment (serde structures)
     proxy_agent/src/common/hyper_client.rs        query_pairs
   Definitions only; proofs are in Proofs/RbacProofs.v, the property theorems in Props/C02.v.

   Conventions (DESIGN.md 2.1).  Strings are byte strings.  [lower] is ASCII lower-casing; Rust's
   [to_lowercase] is Unicode-aware and agrees with it on strings whose cased characters are ASCII
   (a request URL always is: http::Uri admits only ASCII bytes in path and query).  HashMap/HashSet
   values are association lists / duplicate-free lists; that the decision does not depend on their
   order is a theorem (C02_hash_order_irrelevant), not an assumption.  [collect()] into a HashMap is
   [of_pairs] (left fold of insert: the LAST binding of a name wins), which is also what serde does
   for a JSON object with a repeated key.

   The boolean [fixed] selects the behaviour of Privilege::is_match on the RULE's path:
     fixed = false : the pinned commit -- the request path is lower-cased, the rule path is not
                     (finding F1: a rule path with an upper-case letter never matches);
     fixed = true  : after patches/fix-C02-rule-path-case.diff -- both sides lower-cased.
   [is_allowed] (no suffix) is the repaired behaviour; the property theorems are stated for it, and
   for the pinned behaviour under the class predicate [KnownClass_C02_F1]. *)
From GPA Require Export Bytes AList Consts.

(* string literals (the String module is imported only inside this module, so that its
   [length]/[++] do not shadow the list ones) *)
Module Lit.
  Import Coq.Strings.String.
  Definition disabled : bytes := B"disabled".
  Definition audit : bytes := B"audit".
  Definition enforce : bytes := B"enforce".
  Definition allow : bytes := B"allow".
End Lit.

(* ---------------------------------------------------------------------------------------------- *)
(* Inputs                                                                                          *)
(* ---------------------------------------------------------------------------------------------- *)

(* hyper::Uri as the code reads it: [uri.path()] and [uri.query().unwrap_or("")] *)
Record url := { u_path : bytes; u_query : bytes }.

(* proxy.rs Claims -- the fields the decision reads *)
Record claims := {
  k_user : bytes;            (* userName *)
  k_groups : list bytes;     (* userGroups *)
  k_proc : bytes;            (* processName : OsString *)
  k_exe : bytes;             (* processFullPath : PathBuf *)
  k_elevated : bool;         (* runAsElevated (read by the authorizers, Model/Authorizer.v) *)
}.

(* key.rs serde structures, lists in document (listing) order *)
Record privilege := {
  p_name : bytes;
  p_path : bytes;
  p_query : option (list (bytes * bytes));   (* queryParameters: JSON object, members in document order *)
}.
Record role := { r_name : bytes; r_privs : list bytes }.
Record identity := {
  i_name : bytes;
  i_user : option bytes;     (* userName *)
  i_group : option bytes;    (* groupName *)
  i_exe : option bytes;      (* exePath *)
  i_proc : option bytes;     (* processName *)
}.
Record assignment := { a_role : bytes; a_ids : list bytes }.
Record acrules := {
  s_privileges : option (list privilege);
  s_roles : option (list role);
  s_identities : option (list identity);
  s_assignments : option (list assignment);
}.
Record item := {
  it_default : bytes;        (* defaultAccess *)
  it_mode : bytes;           (* mode *)
  it_rules : option acrules; (* rules *)
}.

(* ---------------------------------------------------------------------------------------------- *)
(* hyper_client.rs query_pairs                                                                     *)
(* ---------------------------------------------------------------------------------------------- *)
Definition AMP : N := 38.    (* '&' *)
Definition EQS : N := 61.    (* '=' *)
Definition SLASH : N := 47.  (* '/' *)
Definition DOT : N := 46.    (* '.' *)

Definition query_pair (pair : bytes) : list (bytes * bytes) :=
  let '(k, v) := split_once EQS pair in          (* pair.splitn(2, '=') *)
  match k with
  | [] => []                                      (* key.is_empty() => continue *)
  | _ => [(k, match v with Some v => v | None => [] end)]
  end.

Definition query_pairs (q : bytes) : list (bytes * bytes) :=
  flat_map query_pair (split_on AMP q).           (* query.split('&') *)

(* ---------------------------------------------------------------------------------------------- *)
(* key.rs Privilege::is_match                                                                      *)
(* ---------------------------------------------------------------------------------------------- *)

(* query_pairs(url).into_iter().find(|(k, _)| k.to_lowercase() == key.to_lowercase()):
   the FIRST pair of the request whose key equals the rule's key up to case *)
Definition qp_find (key : bytes) (pairs : list (bytes * bytes)) : option (bytes * bytes) :=
  find (fun kv => beq (lower (fst kv)) (lower key)) pairs.

(* one listed parameter: present, and its (first) value equals the rule's value up to case *)
Definition qp_match (pairs : list (bytes * bytes)) (kv : bytes * bytes) : bool :=
  match qp_find (fst kv) pairs with
  | Some (_, v') => beq (lower v') (lower (snd kv))
  | None => false
  end.

(* for (key, value) in query_parameters { ... return false ... }  over the HashMap [qm] *)
Definition query_match (qm : list (bytes * bytes)) (q : bytes) : bool :=
  forallb (qp_match (query_pairs q)) qm.

(* the HashMap<String,String> serde builds from the JSON object *)
Definition qp_map (listed : list (bytes * bytes)) : list (bytes * bytes) := of_pairs beq listed.

Definition rule_path (fixed : bool) (p : bytes) : bytes := if fixed then lower p else p.

Definition priv_match_gen (fixed : bool) (p : privilege) (u : url) : bool :=
  starts_with (lower (u_path u)) (rule_path fixed (p_path p)) &&
  match p_query p with
  | Some listed => query_match (qp_map listed) (u_query u)
  | None => true
  end.

(* ---------------------------------------------------------------------------------------------- *)
(* key.rs Identity::is_match                                                                       *)
(* ---------------------------------------------------------------------------------------------- *)

(* PathBuf == PathBuf compares std::path::Components (Unix): a root flag, a leading "." kept as
   CurDir when the path is not rooted, and the non-empty, non-"." pieces between slashes
   (".." is an ordinary component).  "/usr//bin/x/" == "/usr/./bin/x". *)
Definition path_rooted (s : bytes) : bool :=
  match s with x :: _ => x =? SLASH | [] => false end.
Definition path_curdir (s : bytes) : bool :=
  negb (path_rooted s) &&
  match split_on SLASH s with p :: _ => beq p [DOT] | [] => false end.
Definition path_normal (s : bytes) : list bytes :=
  filter (fun p => negb (beq p []) && negb (beq p [DOT])) (split_on SLASH s).

Fixpoint list_beq (a b : list bytes) : bool :=
  match a, b with
  | [], [] => true
  | x :: a', y :: b' => beq x y && list_beq a' b'
  | _, _ => false
  end.

Definition path_eq (a b : bytes) : bool :=
  Bool.eqb (path_rooted a) (path_rooted b) && Bool.eqb (path_curdir a) (path_curdir b) &&
  list_beq (path_normal a) (path_normal b).

Definition opt_check {A} (o : option A) (f : A -> bool) : bool :=
  match o with Some x => f x | None => true end.

Definition id_match (i : identity) (k : claims) : bool :=
  opt_check (i_user i) (fun n => beq n (k_user k)) &&          (* *user_name == claims.userName *)
  opt_check (i_proc i) (fun n => beq n (k_proc k)) &&          (* OsString == OsString *)
  opt_check (i_exe i) (fun n => path_eq n (k_exe k)) &&        (* PathBuf == PathBuf *)
  opt_check (i_group i) (fun g => existsb (beq g) (k_groups k)).  (* any group equal *)

(* ---------------------------------------------------------------------------------------------- *)
(* authorization_rules.rs ComputedAuthorizationItem                                                *)
(* ---------------------------------------------------------------------------------------------- *)
Inductive amode := Disabled | Audit | Enforce.

Definition amode_eqb (a b : amode) : bool :=
  match a, b with
  | Disabled, Disabled | Audit, Audit | Enforce, Enforce => true
  | _, _ => false
  end.

(* AuthorizationMode::from_str on to_lowercase(); an unknown string becomes Disabled *)
Definition parse_mode (s : bytes) : amode :=
  let l := lower s in
  if beq l Lit.disabled then Disabled
  else if beq l Lit.audit then Audit
  else if beq l Lit.enforce then Enforce
  else Disabled.

Record computed := {
  c_default : bool;                               (* defaultAllowed *)
  c_mode : amode;
  c_privs : list (bytes * privilege);             (* privileges : HashMap<String, Privilege> *)
  c_assign : list (bytes * list bytes);           (* privilegeAssignments : HashMap<String, HashSet<String>> *)
  c_ids : list (bytes * identity);                (* identities : HashMap<String, Identity> *)
}.

(* HashSet::insert *)
Definition set_insert (x : bytes) (s : list bytes) : list bytes :=
  if existsb (beq x) s then s else x :: s.

Section Flatten.
  Context (role_dict : list (bytes * role)) (id_dict : list (bytes * identity))
          (priv_dict : list (bytes * privilege)).

  (* for identity_name in &role_assignment.identities { if defined { assignments.insert(..) } } *)
  Definition add_ids (ids : list bytes) (s : list bytes) : list bytes :=
    fold_left (fun s idn => if amem beq idn id_dict then set_insert idn s else s) ids s.

  (* body of  for privilege_name in &role.privileges  *)
  Definition assign_priv (ids : list bytes) (pa : list (bytes * list bytes)) (pn : bytes)
    : list (bytes * list bytes) :=
    if amem beq pn priv_dict then
      let cur := match alookup beq pn pa with Some s => s | None => [] end in
      ainsert beq pn (add_ids ids cur) pa
    else pa.

  (* body of  for role_assignment in role_assignments  *)
  Definition assign_role (pa : list (bytes * list bytes)) (ra : assignment)
    : list (bytes * list bytes) :=
    match alookup beq (a_role ra) role_dict with
    | Some rl => fold_left (assign_priv (a_ids ra)) (r_privs rl) pa
    | None => pa                                   (* role not defined: skip the assignment *)
    end.
End Flatten.

Definition dict_of {A} (name : A -> bytes) (l : list A) : list (bytes * A) :=
  of_pairs beq (map (fun x => (name x, x)) l).

(* if let Some(input_rules) = item.rules { if let (Some(..), Some(..), Some(..), Some(..)) = (...) *)
Definition sections (it : item)
  : option (list privilege * list role * list identity * list assignment) :=
  match it_rules it with
  | Some {| s_privileges := Some ps; s_roles := Some rs; s_identities := Some ids;
            s_assignments := Some ras |} => Some (ps, rs, ids, ras)
  | _ => None
  end.

Definition compute (it : item) : computed :=
  let m := parse_mode (it_mode it) in
  let d := beq (lower (it_default it)) Lit.allow in
  match sections it with
  | Some (ps, rs, ids, ras) =>
      let role_dict := dict_of r_name rs in
      let id_dict := dict_of i_name ids in
      let priv_dict := dict_of p_name ps in
      {| c_default := d; c_mode := m; c_privs := priv_dict;
         c_assign := fold_left (assign_role role_dict id_dict priv_dict) ras [];
         c_ids := id_dict |}
  | None => {| c_default := d; c_mode := m; c_privs := []; c_assign := []; c_ids := [] |}
  end.

(* is_allowed: the inner  for assignment in assignments  with its early  return true  *)
Definition granted (c : computed) (p : privilege) (k : claims) : bool :=
  match alookup beq (p_name p) (c_assign c) with
  | Some s =>
      existsb (fun idn => match alookup beq idn (c_ids c) with
                          | Some i => id_match i k
                          | None => false
                          end) s
  | None => false
  end.

Section Decision.
  Context (fixed : bool).

  (* for privilege in self.privileges.values() { ... }  followed by the two tail returns;
     [any] is any_privilege_matched *)
  Fixpoint allowed_loop (c : computed) (ps : list (bytes * privilege)) (any : bool)
           (u : url) (k : claims) : bool :=
    match ps with
    | [] => if any then false else c_default c
    | (_, p) :: t =>
        if priv_match_gen fixed p u then
          if granted c p k then true else allowed_loop c t true u k
        else allowed_loop c t any u k
    end.

  Definition is_allowed_gen (c : computed) (u : url) (k : claims) : bool :=
    match c_mode c with
    | Disabled => true
    | _ => allowed_loop c (c_privs c) false u k
    end.
End Decision.

Definition priv_match := priv_match_gen true.
Definition is_allowed := is_allowed_gen true.
Definition priv_match_current := priv_match_gen false.     (* pinned commit, see F1 *)
Definition is_allowed_current := is_allowed_gen false.

(* which of the three branches decided (reported by the generator's branch counts) *)
Inductive branch := BrDisabled | BrIdentity | BrPrivilegeOnly | BrDefault.
Definition branch_of (fixed : bool) (c : computed) (u : url) (k : claims) : branch :=
  match c_mode c with
  | Disabled => BrDisabled
  | _ =>
      if existsb (fun np => priv_match_gen fixed (snd np) u && granted c (snd np) k) (c_privs c)
      then BrIdentity
      else if existsb (fun np => priv_match_gen fixed (snd np) u) (c_privs c)
      then BrPrivilegeOnly else BrDefault
  end.

(* ---------------------------------------------------------------------------------------------- *)
(* The declarative reading of the property text, over the rule DOCUMENT (not the flattened form)   *)
(* ---------------------------------------------------------------------------------------------- *)

(* "granted through a role assignment to a defined identity whose every stated attribute equals
   the caller's": some assignment names a defined role that lists the privilege's name, and names
   a defined identity that matches the caller *)
Definition spec_granted (rs : list role) (ids : list identity) (ras : list assignment)
           (p : privilege) (k : claims) : bool :=
  existsb (fun ra =>
    existsb (fun rl => beq (r_name rl) (a_role ra) && existsb (beq (p_name p)) (r_privs rl)) rs &&
    existsb (fun idn => existsb (fun i => beq (i_name i) idn && id_match i k) ids) (a_ids ra))
    ras.

(* "some privilege matches the URL: case-insensitive path prefix plus all listed query parameters,
   case-insensitively".  ALL listed parameters, each judged on the first request pair carrying
   its key (the value of a repeated request key is its first occurrence). *)
Definition priv_match_spec (p : privilege) (u : url) : bool :=
  starts_with (lower (u_path u)) (lower (p_path p)) &&
  match p_query p with
  | Some listed => forallb (qp_match (query_pairs (u_query u))) listed
  | None => true
  end.

Definition spec_allowed (it : item) (u : url) (k : claims) : bool :=
  match parse_mode (it_mode it) with
  | Disabled => true
  | _ =>
      let d := beq (lower (it_default it)) Lit.allow in
      match sections it with
      | Some (ps, rs, ids, ras) =>
          if existsb (fun p => priv_match_spec p u && spec_granted rs ids ras p k) ps then true
          else if existsb (fun p => priv_match_spec p u) ps then false
          else d
      | None => d    (* a document without all four sections defines no privilege *)
      end
  end.

(* ---------------------------------------------------------------------------------------------- *)
(* Class predicates of the known findings (also implemented in tools/checks/c02.py)                *)
(* ---------------------------------------------------------------------------------------------- *)
Fixpoint dupb (l : list bytes) : bool :=
  match l with
  | [] => false
  | x :: t => existsb (beq x) t || dupb t
  end.

Definition qkeys_dup (p : privilege) : bool :=
  match p_query p with
  | Some listed => dupb (map (fun kv => lower (fst kv)) listed)
  | None => false
  end.

(* F2: two privileges / roles / identities with the same name, or two query parameters of one
   privilege whose keys are equal up to letter case (the JSON object / HashMap keeps one) *)
Definition has_duplicate_names (it : item) : bool :=
  match sections it with
  | Some (ps, rs, ids, _) =>
      dupb (map p_name ps) || dupb (map r_name rs) || dupb (map i_name ids) ||
      existsb qkeys_dup ps
  | None => false
  end.
Definition KnownClass_C02_F2 := has_duplicate_names.

(* F1 (pinned commit only): some privilege's path contains an upper-case ASCII letter *)
Definition has_upper (s : bytes) : bool := existsb is_upper s.
Definition KnownClass_C02_F1 (it : item) : bool :=
  match sections it with
  | Some (ps, _, _, _) => existsb (fun p => has_upper (p_path p)) ps
  | None => false
  end.

(* ---------------------------------------------------------------------------------------------- *)
(* Transformations the theorems quantify over                                                      *)
(* ---------------------------------------------------------------------------------------------- *)
Definition url_map (f : bytes -> bytes) (u : url) : url :=
  {| u_path := f (u_path u); u_query := f (u_query u) |}.

Definition priv_recase (f : bytes -> bytes) (p : privilege) : privilege :=
  {| p_name := p_name p; p_path := f (p_path p);
     p_query := option_map (map (fun kv => (f (fst kv), f (snd kv)))) (p_query p) |}.

Definition item_recase (f : bytes -> bytes) (it : item) : item :=
  {| it_default := it_default it; it_mode := it_mode it;
     it_rules := option_map (fun r =>
       {| s_privileges := option_map (map (priv_recase f)) (s_privileges r);
          s_roles := s_roles r; s_identities := s_identities r;
          s_assignments := s_assignments r |}) (it_rules it) |}.

(* encodings used by the correspondence check *)
Definition amode_code (m : amode) : N :=
  match m with Disabled => 0 | Audit => 1 | Enforce => 2 end.
Definition branch_code (b : branch) : N :=
  match b with BrDisabled => 0 | BrIdentity => 1 | BrPrivilegeOnly => 2 | BrDefault => 3 end.
Definition summary (c : computed)
  : bool * N * list bytes * list (bytes * list bytes) * list bytes :=
  (c_default c, amode_code (c_mode c), map fst (c_privs c), c_assign c, map fst (c_ids c)).
