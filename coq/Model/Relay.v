(* C14 -- model of the relay path of the proxy listener: what goes upstream for a client request,
   what goes back to the client for a host response, and which response is handed to which
   request on a keep-alive connection.  Definitions only; proofs are in Proofs/RelayProofs.v.

   Mirrors:
     proxy_agent/src/proxy/proxy_server.rs
        handle_request_with_signature / convert_request
                          body.collect().await.to_bytes(); Request::from_parts(head, Full::new(whole_body))
        forward_response  body.map_frame(|frame| match frame.into_data() {
                              Ok(data) => data.iter().map(|byte| byte.to_be()).collect::<Bytes>(),
                              Err(_)   => Bytes::new() })        -- Frame::data(..) in both cases
                          Response::from_parts(head, ..); headers_mut().insert(AUTHORIZATION_HEADER, "value")
     proxy_agent/src/proxy/proxy_connection.rs
        TcpConnectionContext::new           one hyper http1 client connection per accepted client connection
        TcpConnectionContext::send_request  sender.lock().await.send_request(request).await
                                            (tokio Mutex held from before the request is written until
                                             the response head has arrived)

   The request-leg header handling is Model/Headers.v ([proxy_forward]).

   Library behaviour that is modelled, not verified (DESIGN 2.5) -- ASSUMPTIONS, tied by execution:
   * BodyExt::collect concatenates the data frames in arrival order ([collect]);
   * u8::to_be is a byte swap of a one-byte integer on a little-endian target and the identity on
     a big-endian one ([to_be]); [swap_bytes] is stated for every width so that the theorem "it
     is the identity at width 1" says something (it is not at width 2);
   * an HTTP/1.1 host answers the requests on one connection in the order it received them, and
     hyper's client hands the n-th response head to the n-th send_request ([cstep], PSent);
   * hyper regenerates the message framing (Content-Length / Transfer-Encoding, chunk sizes) on
     both legs -- framing is outside the model, as the property allows. *)
From GPA Require Export Headers.

(* ---------------------------------------------------------------------------------------- *)
(* request leg                                                                               *)
(* ---------------------------------------------------------------------------------------- *)
(* a client request whose body arrives as any sequence of data frames (chunks, TCP segments) *)
Record framed_request := {
  q_method : bytes;
  q_uri : uri;
  q_wire : list (bytes * bytes);
  q_frames : list bytes;
}.

(* body.collect().await.to_bytes() *)
Definition collect (frames : list bytes) : bytes := concat frames.

Section Upstream.
Context (mac : bytes -> bytes -> bytes).

(* what the host receives for an authorized request *)
Definition upstream_of (a : audit) (now : bytes) (key_value key_guid : option bytes)
           (q : framed_request) : fwd :=
  proxy_forward mac a now key_value key_guid
    {| c_method := q_method q; c_uri := q_uri q; c_wire := q_wire q; c_body := collect (q_frames q) |}.
End Upstream.

(* ---------------------------------------------------------------------------------------- *)
(* response leg                                                                              *)
(* ---------------------------------------------------------------------------------------- *)
Inductive frame := FData (d : bytes) | FTrailers (t : headers).

Record response := {
  s_status : N;
  s_headers : headers;
  s_frames : list frame;       (* as hyper's client delivers them: any boundary placement *)
  s_aborted : bool;            (* the body stream ends with an ERROR after these frames (the host
                                  connection failed before the end of the body) instead of a
                                  regular end of stream *)
}.

(* integer byte order helpers, any width *)
Fixpoint le_bytes (w : nat) (x : N) : list N :=
  match w with O => [] | S w' => x mod 256 :: le_bytes w' (x / 256) end.
Fixpoint of_le_bytes (l : list N) : N :=
  match l with [] => 0 | b :: t => b + 256 * of_le_bytes t end.
Definition swap_bytes (w : nat) (x : N) : N := of_le_bytes (rev (le_bytes w x)).
(* uN::to_be *)
Definition to_be (little_endian : bool) (w : nat) (x : N) : N :=
  if little_endian then swap_bytes w x else x.
(* u8::to_be on the build target (x86-64 / aarch64 Linux: little-endian) *)
Definition to_be_u8 (b : N) : N := to_be true 1 b.

Definition marker_value : bytes := Consts.response_marker_value.

Definition map_frame (f : frame) : frame :=
  match f with
  | FData d => FData (map to_be_u8 d)
  | FTrailers _ => FData []          (* into_data() fails: logged, replaced by an empty data frame *)
  end.

(* what the client receives for a host response *)
Definition client_resp_of (r : response) : response :=
  {| s_status := s_status r;
     s_headers := hm_insert auth_header marker_value (s_headers r);
     s_frames := map map_frame (s_frames r);
     (* map_frame maps frames only: an error item of the stream passes through as an error,
        so hyper's server aborts the transfer to the client instead of terminating it *)
     s_aborted := s_aborted r |}.

Definition frame_data (f : frame) : bytes := match f with FData d => d | FTrailers _ => [] end.
Definition body_of (fs : list frame) : bytes := flat_map frame_data fs.

Definition wf_frame (f : frame) : bool := match f with FData d => wf_bytes d | FTrailers _ => true end.
Definition wf_frames (fs : list frame) : bool := forallb wf_frame fs.

Definition all_bytes : list N := map N.of_nat (seq 0 256).

(* ---------------------------------------------------------------------------------------- *)
(* one client connection = one upstream connection behind a mutex                            *)
(* ---------------------------------------------------------------------------------------- *)
(* Actors are the in-flight requests of ONE client connection, named by natural numbers (the
   request of task t is "request t"), and hyper's client CONNECTION TASK (the future spawned
   by hyper_client::build_http_sender).  Program of a request (Client::send_request inside
   TcpConnectionContext::send_request):
     PIdle    -- lock().await -->  PLocked        (waits while another task holds the mutex)
     PLocked  -- sender.send_request(req): hyper's dispatch::Sender::can_send is
                 `giver.give() || !buffered_once`: the connection task has signalled that it
                 wants a request, or nothing was ever queued
                   yes: the request is written on the upstream connection -->  PSent
                   no : [wait_ready = true], THE CODE AS IT IS (since fix commit cdcae0b,
                        patches/fix-C14-wait-upstream-ready.diff: `self.sender.ready().await`
                        before send_request): the task waits here until the signal comes;
                        [wait_ready = false], the code before that fix: hyper returns "connection
                        was not ready" (operation was canceled), the handler answers 503 and
                        nothing is written -->  PFailed
     PSent    -- read the next response head from the upstream connection -->  PGot r
                 (r = the request this response answers: the host answers in arrival order, so
                  the n-th head read answers the n-th request written)
     PGot r   -- guard dropped at the end of the statement -->  PDone r
   The connection task, whenever it finds nothing in flight, polls its request channel and
   signals "want" (want::Taker::want).
   A schedule is any list of actors; a blocked or finished actor stutters. *)
Inductive pc := PIdle | PLocked | PSent | PGot (r : nat) | PDone (r : nat) | PFailed.

Inductive actor := Req (t : nat) | ConnTask.

Record conn := {
  pcs : nat -> pc;
  holder : option nat;         (* who holds the tokio Mutex *)
  upwire : list nat;           (* requests written on the upstream connection, in order *)
  answered : nat;              (* response heads read from it so far *)
  want : bool;                 (* the connection task has signalled readiness (want::Giver) *)
  buffered_once : bool;        (* dispatch::Sender::buffered_once *)
  raced : bool;                (* ghost: some send_request found the connection not ready *)
}.

Definition set_pc (f : nat -> pc) (t : nat) (v : pc) : nat -> pc :=
  fun x => if Nat.eqb x t then v else f x.

Definition cinit : conn :=
  {| pcs := fun _ => PIdle; holder := None; upwire := []; answered := 0;
     want := false; buffered_once := false; raced := false |}.

(* [mutex = false] is the same program without the lock -- NOT what the code does; kept to
   show that the FIFO theorem depends on it (RelayProofs.fifo_needs_mutex).
   [wait_ready = true] is the code as it is, [false] the code before fix commit cdcae0b
   (finding F12). *)
Definition cstep (mutex wait_ready : bool) (c : conn) (a : actor) : conn :=
  match a with
  | ConnTask =>
      if Nat.eqb (answered c) (length (upwire c))
      then {| pcs := pcs c; holder := holder c; upwire := upwire c; answered := answered c;
              want := true; buffered_once := buffered_once c; raced := raced c |}
      else c
  | Req t =>
      match pcs c t with
      | PIdle =>
          if mutex then
            match holder c with
            | None => {| pcs := set_pc (pcs c) t PLocked; holder := Some t;
                         upwire := upwire c; answered := answered c;
                         want := want c; buffered_once := buffered_once c; raced := raced c |}
            | Some _ => c
            end
          else {| pcs := set_pc (pcs c) t PLocked; holder := holder c;
                  upwire := upwire c; answered := answered c;
                  want := want c; buffered_once := buffered_once c; raced := raced c |}
      | PLocked =>
          if want c || negb (buffered_once c)
          then {| pcs := set_pc (pcs c) t PSent; holder := holder c;
                  upwire := upwire c ++ [t]; answered := answered c;
                  want := false; buffered_once := true; raced := raced c |}
          else if wait_ready then c
          else {| pcs := set_pc (pcs c) t PFailed; holder := if mutex then None else holder c;
                  upwire := upwire c; answered := answered c;
                  want := want c; buffered_once := buffered_once c; raced := true |}
      | PSent =>
          match nth_error (upwire c) (answered c) with
          | Some r => {| pcs := set_pc (pcs c) t (PGot r); holder := holder c;
                         upwire := upwire c; answered := S (answered c);
                         want := want c; buffered_once := buffered_once c; raced := raced c |}
          | None => c
          end
      | PGot r => {| pcs := set_pc (pcs c) t (PDone r); holder := if mutex then None else holder c;
                     upwire := upwire c; answered := answered c;
                     want := want c; buffered_once := buffered_once c; raced := raced c |}
      | PDone _ => c
      | PFailed => c
      end
  end.

(* does the code wait for readiness?  Regenerated from Client::send_request's source on every
   run (tools/gen_consts.py: `self.sender.ready().await` before `self.sender.send_request(`) *)
Definition code_waits_ready : bool := Consts.upstream_waits_ready =? 1.

Definition crun (mutex wait_ready : bool) (c : conn) (sched : list actor) : conn :=
  fold_left (cstep mutex wait_ready) sched c.

(* many client connections: each has its own upstream connection (TcpConnectionContext::new),
   so a step of connection [cid] touches only that connection's state *)
Definition sys := nat -> conn.
Definition sinit : sys := fun _ => cinit.
Definition sstep (wait_ready : bool) (s : sys) (ct : nat * actor) : sys :=
  fun x => if Nat.eqb x (fst ct) then cstep true wait_ready (s (fst ct)) (snd ct) else s x.
Definition srun (wait_ready : bool) (s : sys) (sched : list (nat * actor)) : sys :=
  fold_left (sstep wait_ready) sched s.

(* the response delivered to task t, once it has one *)
Definition delivered (c : conn) (t : nat) : option nat :=
  match pcs c t with PGot r | PDone r => Some r | _ => None end.

(* class predicate of the repaired finding F12 (known_findings.d/C14.json, status fixed): the
   schedule lets some request reach hyper's SendRequest before the connection task has
   signalled readiness after the previous exchange (code before the fix) *)
Definition KnownClass_C14_send_before_ready (sched : list actor) : bool :=
  raced (crun true false cinit sched).

(* ---------------------------------------------------------------------------------------- *)
(* one call for the correspondence check                                                     *)
(* ---------------------------------------------------------------------------------------- *)
(* request leg: method, target, body and header list the host must receive (body given as
   frames; the check passes small bodies only -- large ones are covered by chunking_irrelevant
   plus the byte comparison on the implementation side) *)
Definition c14_request_case (is_admin : Z) (now : bytes) (m path : bytes) (q : option bytes)
           (wire : list (bytes * bytes)) (frames : list bytes) :=
  let a := {| a_logon_id := 0; a_process_id := 0; a_is_admin := is_admin;
              a_destination_ipv4 := 0; a_destination_port := 0 |} in
  match upstream_of zero_mac a now None None
          {| q_method := m; q_uri := {| u_path := path; u_query := q |}; q_wire := wire; q_frames := frames |} with
  | Forwarded out => Some (r_method out, uri_to_string (r_uri out), r_headers out, r_body out)
  | BadGateway => None
  end.

(* response leg: status, header list and body the client must receive *)
Definition c14_response_case (status : N) (wire : list (bytes * bytes)) (frames : list bytes) :=
  let r := client_resp_of {| s_status := status; s_headers := of_wire wire; s_frames := map FData frames;
                           s_aborted := false |} in
  (s_status r, s_headers r, body_of (s_frames r)).
