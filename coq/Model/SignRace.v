(* C10 -- The key id in a signature always names the key that produced the MAC.
   Model of the key-keeper actor's key slot and of the code that reads it to sign a request.
   Definitions only; proofs are in Proofs/SignRaceProofs.v.  The interleaving semantics is the
   generic one of Model/Sched.v (tasks whose only scheduling points are actor calls).

   Mirrors
     proxy_agent/src/shared_state/key_keeper_wrapper.rs
        the actor loop of KeyKeeperSharedState::start_new (`let mut key = None`; messages
        KeyKeeperAction::SetKey / GetKey), set_key / get_key (one mpsc send + one oneshot reply =
        ONE actor round trip), update_key = SetKey(Some k), clear_key = SetKey(None),
        get_current_key_value / get_current_key_guid (each a get_key round trip followed by a field
        projection), get_current_key_guid_and_value (both fields from ONE round trip; added by the
        repair of finding F5, /repo commit a01dbe0);
     proxy_agent/src/proxy/proxy_server.rs  handle_request_with_signature
     proxy_agent/src/host_clients/wire_server_client.rs  get_goalstate / get_shared_config /
        send_telemetry_data
     proxy_agent/src/host_clients/imds_client.rs  get_imds_instance_info
     proxy_agent/src/common/hyper_client.rs  build_request (`if let (Some(key), Some(key_guid))`)
     proxy_agent/src/key_keeper.rs  poll_secure_channel_status: update_key (x2), clear_key.

   GHOST STATE.  The world keeps the whole history of the key slot and every reply carries the
   number of SetKey messages processed so far (the "epoch").  Programs only STORE epochs, they
   never branch on them; the real replies carry no such number.  The epochs are what the
   statements talk about: "a SetKey was processed between the two reads of one signing
   operation" is "the two recorded epochs differ". *)
From Coq Require Import List Arith.
Import ListNotations.
From GPA Require Export Bytes AList Sched.

(* key_keeper/key.rs `struct Key`: only the two fields that reach a signature.  [value] is the
   hex-encoded secret (`key`), [guid] the key id. *)
Record key := Key { guid : bytes; value : bytes }.

(* ---------------- the actor ---------------- *)
(* `let mut key = None;` in start_new, plus the ghost history: [past] = earlier contents of the
   slot, newest first. *)
Record world := World { cur : option key; past : list (option key) }.

Definition epoch (w : world) : nat := length (past w).
(* contents of the slot, oldest first; position = epoch *)
Definition history (w : world) : list (option key) := rev (cur w :: past w).
Definition key_at (w : world) (n : nat) : option (option key) := nth_error (history w) n.

Inductive amsg :=
| SetKey (k : option key)     (* KeyKeeperAction::SetKey { key, .. } *)
| GetKey.                     (* KeyKeeperAction::GetKey { .. } *)

(* reply: GetKey answers `key.clone()`; SetKey answers `()` (modelled as the new content, which
   nobody looks at).  Second component: ghost epoch. *)
Definition areply : Type := option key * nat.

(* one iteration of the actor loop; the sender's task id is not looked at *)
Definition handle (_ : nat) (w : world) (m : amsg) : world * areply :=
  match m with
  | SetKey k => let w' := World k (cur w :: past w) in (w', (k, epoch w'))
  | GetKey => (w, (cur w, epoch w))
  end.

(* the agent starts with an empty slot; the theorems allow any initial content *)
Definition w_init (k0 : option key) : world := World k0 [].

(* ---------------- signing code ---------------- *)
(* one actor round trip of a signer, named after the accessor that makes it *)
Inductive read :=
| RdValue      (* get_current_key_value().await.unwrap_or(None) *)
| RdGuid       (* get_current_key_guid().await.unwrap_or(None) *)
| RdWhole.     (* get_current_key_guid_and_value().await.unwrap_or(None): both fields of ONE reply *)

(* a signer's locals: the last value / guid it was given (None = accessor not called; a build_request
   argument that is the literal `None` is the same thing) with the ghost epoch of that reply *)
Record loc := Loc {
  lv : option (option bytes * nat);
  lg : option (option bytes * nat);
}.
Definition loc0 : loc := Loc None None.

Definition absorb (r : read) (rep : areply) (l : loc) : loc :=
  match r with
  | RdValue => Loc (Some (option_map value (fst rep), snd rep)) (lg l)
  | RdGuid => Loc (lv l) (Some (option_map guid (fst rep), snd rep))
  | RdWhole => Loc (Some (option_map value (fst rep), snd rep)) (Some (option_map guid (fst rep), snd rep))
  end.

Definition task := prog amsg areply loc.

(* straight-line reader: one GetKey round trip per element, then the (synchronous) signing *)
Fixpoint signer (rds : list read) (l : loc) : task :=
  match rds with
  | [] => Ret l
  | r :: tl => Call GetKey (fun rep => signer tl (absorb r rep l))
  end.
Definition signer0 (rds : list read) : task := signer rds loc0.

(* the key keeper: update_key / clear_key at arbitrary points *)
Fixpoint keeper (ops : list (option key)) : task :=
  match ops with
  | [] => Ret loc0
  | o :: tl => Call (SetKey o) (fun _ => keeper tl)
  end.

(* `if let (Some(key), Some(key_guid)) = (..)` in handle_request_with_signature / build_request:
   the header is produced only when both are present; it announces [g] and is computed under [v] *)
Definition hdr (l : loc) : option (bytes * bytes) :=
  match lv l, lg l with
  | Some (Some v, _), Some (Some g, _) => Some (g, v)
  | _, _ => None
  end.

(* the authorization header `Azure-HMAC-SHA256 <guid> <mac value input>`; [mac] = compute_signature
   (HMAC-SHA256 of the canonical string under the hex-decoded secret) -- an arbitrary function *)
Definition header {M : Type} (mac : bytes -> bytes -> M) (input : bytes) (l : loc) : option (bytes * M) :=
  option_map (fun gv => (fst gv, mac (snd gv) input)) (hdr l).

(* the property for one finished signer: the announced id and the signing secret are the two fields
   of one key that has been in the slot *)
Definition paired (hist : list (option key)) (l : loc) : Prop :=
  forall g v, hdr l = Some (g, v) -> exists k, In (Some k) hist /\ guid k = g /\ value k = v.

(* KnownClass_C10: a SetKey was processed between the read that supplied the secret and the read
   that supplied the id (recorded epochs differ) *)
Definition setkey_between_reads (l : loc) : bool :=
  match lv l, lg l with
  | Some (_, a), Some (_, b) => negb (Nat.eqb a b)
  | _, _ => false
  end.

(* a program whose LAST round trip is the whole-key read takes both fields from that one reply *)
Fixpoint ends_whole (rds : list read) : bool :=
  match rds with
  | [] => false
  | r :: tl => match tl with
               | [] => match r with RdWhole => true | _ => false end
               | _ => ends_whole tl
               end
  end.

(* ---------------- the signing call sites ---------------- *)
Inductive route :=
| ProxiedRequest      (* proxy_server.rs handle_request_with_signature *)
| WsGoalState         (* wire_server_client.rs get_goalstate *)
| WsSharedConfig      (* wire_server_client.rs get_shared_config *)
| ImdsInstanceInfo    (* imds_client.rs get_imds_instance_info *)
| WsTelemetry.        (* wire_server_client.rs send_telemetry_data: build_request(.., None, None) *)

(* the code before the repair of finding F5: two accessors, two round trips; the proxied route
   reads the secret first, the host clients the id first (argument order of hyper_client::get) *)
Definition two_read_route (r : route) : list read :=
  match r with
  | ProxiedRequest => [RdValue; RdGuid]
  | WsGoalState | WsSharedConfig | ImdsInstanceInfo => [RdGuid; RdValue]
  | WsTelemetry => []
  end.

(* the repaired code (commit a01dbe0): one get_current_key_guid_and_value() round trip *)
Definition single_read_route (r : route) : list read :=
  match r with
  | WsTelemetry => []
  | _ => [RdWhole]
  end.

(* THE MAIN MODEL: what /repo's working tree does now.  The correspondence check compares the
   number of actor round trips each real call site makes with [length (route_reads r)] and the
   emitted (id, secret) pair with this program's result, schedule by schedule. *)
Definition route_reads (r : route) : list read := single_read_route r.

(* One signing operation = one request.  hyper_client::get / send_request send the request once and
   return whatever the host answers (an error status, a closed connection) to the caller;
   wire_server_client.rs, imds_client.rs and handle_request_with_signature call them once per call.
   The host's answer is therefore NOT an input of a signer program: there is no retry that could
   re-sign with fields kept from an earlier attempt.  The correspondence check answers the real
   calls with 401/403/5xx/closed connections while the key changes and compares the number of
   requests each call produces with this constant (and judges every one of them). *)
Definition route_requests (_ : route) : nat := 1.

(* ---------------- what leaves the agent ---------------- *)
(* compute_signature hex-decodes the secret and FAILS when it is not hex ([usable v = false]; only keys
   acquired from the host are checked for that before they are latched, a key file is loaded as it
   is).  handle_request_with_signature logs the failure and forwards the request WITHOUT an
   authorization header; build_request (the agent's own calls) propagates the error: NO request is
   sent.  Nothing is ever signed with another key's secret instead. *)
Inductive outcome :=
| Sent (h : option (bytes * bytes))    (* request sent; its authorization header (id, secret used) if any *)
| NotSent.                             (* the call failed before sending anything *)

Definition route_outcome (usable : bytes -> bool) (r : route) (l : loc) : outcome :=
  match hdr l with
  | Some (g, v) =>
      if usable v then Sent (Some (g, v))
      else match r with ProxiedRequest => Sent None | _ => NotSent end
  | None => Sent None
  end.

(* proxied route: `proxy_request.headers_mut().insert(AUTHORIZATION_HEADER, value)` -- HeaderMap::insert
   REPLACES every value the client supplied under that name; without a header of its own the agent
   forwards the client's values like any other header (C05's subject) *)
Definition forwarded_auth {X : Type} (client : list X) (own : option X) : list X :=
  match own with Some h => [h] | None => client end.

(* ---------------- where the SetKey arguments come from (key_keeper.rs loop_poll) ---------------- *)
(* Pairing can also be lost at LATCH time: the slot must only ever receive WHOLE key documents.
   The key folder maps a file name (the <guid> of <guid>.key) to the key document stored in it. *)
Definition folder := list (bytes * key).

(* fetch_key / fetch_local_key: the file is SELECTED by the guid the host reports as latched; the key
   handed back is the document found in it (serde_json::from_str::<Key>), whole -- also when the
   document's guid is not the guid asked for *)
Definition fetch_local (f : folder) (asked : bytes) : option key := alookup beq asked f.

Inductive latch :=
| LatchLocal (asked : bytes)   (* "key latched before and search the key locally first": update_key(fetch_key(dir, guid)) *)
| LatchAcquired (doc : key)    (* acquire_key, store_key, check_key, attest_key, update_key(key): the host's document, whole *)
| LatchClear.                  (* secure channel disabled: clear_key *)

Definition latch_arg (f : folder) (l : latch) : list (option key) :=
  match l with
  | LatchLocal g => match fetch_local f g with Some d => [Some d] | None => [] end
  | LatchAcquired d => [Some d]
  | LatchClear => [None]
  end.

(* store_key writes an acquired document under ITS OWN guid *)
Definition folder_after (f : folder) (l : latch) : folder :=
  match l with LatchAcquired d => (guid d, d) :: f | _ => f end.

(* the SetKey arguments of a sequence of polls *)
Fixpoint latch_ops (f : folder) (ls : list latch) : list (option key) :=
  match ls with
  | [] => []
  | l :: tl => latch_arg f l ++ latch_ops (folder_after f l) tl
  end.

(* content of the slot after each poll (executable, used by the correspondence check) *)
Fixpoint latch_run (f : folder) (c : option key) (ls : list latch) : list (option (bytes * bytes)) :=
  match ls with
  | [] => []
  | l :: tl => let c' := last (latch_arg f l) c in
               option_map (fun k => (guid k, value k)) c' :: latch_run (folder_after f l) c' tl
  end.

(* ---------------- executable run used by the correspondence check ---------------- *)
(* tasks: 0 = the keeper performing [ops] in order, i+1 = signer i.  The given schedule is run,
   then every signer is run to completion in index order (the keeper is NOT: the driver performs
   only the keeper operations named in the schedule). *)
Definition sim_config (k0 : option key) (progs : list (list read)) (ops : list (option key)) :
  config world amsg areply loc :=
  init (w_init k0) (keeper ops :: map signer0 progs).

Fixpoint completion (i : nat) (progs : list (list read)) : list nat :=
  match progs with
  | [] => []
  | p :: tl => repeat (S i) (length p) ++ completion (S i) tl
  end.

Definition obs (l : loc) : option (bytes * bytes) * bool * (option nat * option nat) :=
  (hdr l, setkey_between_reads l, (option_map snd (lv l), option_map snd (lg l))).

Definition sim (k0 : option key) (progs : list (list read)) (ops : list (option key)) (sched : list nat) :
  list (option (option (bytes * bytes) * bool * (option nat * option nat))) :=
  let c := run handle (sim_config k0 progs ops) (sched ++ completion 0 progs) in
  map (fun i => option_map obs (result_of c (S i))) (seq 0 (length progs)).

(* the same per call site, with the outcome that leaves the agent *)
Definition sim_routes (usable : bytes -> bool) (k0 : option key) (rs : list route) (ops : list (option key))
  (sched : list nat) : list (option (outcome * bool * (option nat * option nat))) :=
  let progs := map route_reads rs in
  let c := run handle (sim_config k0 progs ops) (sched ++ completion 0 progs) in
  map (fun ir => option_map (fun l => (route_outcome usable (snd ir) l, setkey_between_reads l,
                                        (option_map snd (lv l), option_map snd (lg l))))
                            (result_of c (S (fst ir))))
      (combine (seq 0 (length rs)) rs).
