(* C17 -- the file-system view used by the setup-tool model (Model/Setup.v).

   A file system is a finite map  location -> (mode, content)  kept as an association list
   (Base/AList.v).  Locations are the twelve paths the tool computes (proxy_agent_setup/src/
   linux.rs, setup.rs, backup.rs, running.rs; proxy_agent_shared/src/linux.rs) plus two open
   classes for "anything else below the backup folder" and "any other absolute path".
   [render] gives the concrete path string of a location for a given setup directory (the
   directory of the running proxy_agent_setup executable), built from the regenerated constants;
   the correspondence check lays out / reads back the real tree through it.

   Directories are not modelled: a path is present iff a regular file is there.  (fs::copy in
   the tool is always preceded by try_create_folder(parent) except for the unit file, whose
   parent /usr/lib/systemd/system exists on every systemd machine and in the harness.)
   Definitions only; lemmas are in Proofs/SetupProofs.v.  This is NOT the crash-oriented
   Base/Fs.v of DESIGN 2.3 (no partial writes, no crash points: C17 is about completed
   commands). *)
From GPA Require Export Bytes AList Consts.

Inductive loc :=
| SysExe | SysCfg | SysEbpf | SysUnit      (* the installed agent: the four system paths *)
| PkgExe | PkgCfg | PkgEbpf | PkgUnit      (* the package beside the setup tool *)
| BakExe | BakCfg | BakEbpf | BakUnit      (* the backup written by `backup` *)
| BakTmp                                   (* Backup/Package/azure-proxy-agent.tmp: the executable while it is being saved *)
| BakOther (rel : bytes)                   (* any other entry below <setup>/ProxyAgent/Backup/ *)
| Outside (abs : bytes).                   (* any other absolute path *)

Definition loc_eqb (a b : loc) : bool :=
  match a, b with
  | SysExe, SysExe | SysCfg, SysCfg | SysEbpf, SysEbpf | SysUnit, SysUnit
  | PkgExe, PkgExe | PkgCfg, PkgCfg | PkgEbpf, PkgEbpf | PkgUnit, PkgUnit
  | BakExe, BakExe | BakCfg, BakCfg | BakEbpf, BakEbpf | BakUnit, BakUnit | BakTmp, BakTmp => true
  | BakOther x, BakOther y => beq x y
  | Outside x, Outside y => beq x y
  | _, _ => false
  end.

Definition is_sys (l : loc) : bool :=
  match l with SysExe | SysCfg | SysEbpf | SysUnit => true | _ => false end.
Definition in_backup (l : loc) : bool :=
  match l with BakExe | BakCfg | BakEbpf | BakUnit | BakTmp | BakOther _ => true | _ => false end.
(* the locations a command may alter: system paths and the backup folder (the tool's own log is
   not a location of the model; see Setup.v [wtool]) *)
Definition allowed (l : loc) : bool := is_sys l || in_backup l.

Definition sys_locs : list loc := [SysExe; SysCfg; SysEbpf; SysUnit].
Definition pkg_locs : list loc := [PkgExe; PkgCfg; PkgEbpf; PkgUnit].
Definition bak_locs : list loc := [BakExe; BakCfg; BakEbpf; BakUnit].
Definition fixed_locs : list loc := sys_locs ++ pkg_locs ++ bak_locs.

(* a file: permission bits and content (fs::copy reproduces both) *)
Definition file := (N * bytes)%type.
Definition fmode (f : file) : N := fst f.
Definition fdata (f : file) : bytes := snd f.

Definition fs := list (loc * file).
Definition fs_get (l : loc) (m : fs) : option file := alookup loc_eqb l m.
Definition fs_set (l : loc) (f : file) (m : fs) : fs := ainsert loc_eqb l f m.
Definition fs_del (l : loc) (m : fs) : fs := aremove loc_eqb l m.
(* fs::remove_dir_all on a folder: every entry of the class disappears *)
Definition fs_del_where (p : loc -> bool) (m : fs) : fs :=
  filter (fun kv => negb (p (fst kv))) m.
Definition fs_has (l : loc) (m : fs) : bool :=
  match fs_get l m with Some _ => true | None => false end.

(* ---- concrete paths ---------------------------------------------------------------- *)
Definition slash : N := 47.
Fixpoint ends_with_slash (s : bytes) : bool :=
  match s with [] => false | [c] => c =? slash | _ :: t => ends_with_slash t end.
(* PathBuf::join for a relative second component *)
Definition pjoin (a b : bytes) : bytes :=
  if ends_with_slash a then a ++ b else a ++ slash :: b.

Definition dot_service : bytes := [46; 115; 101; 114; 118; 105; 99; 101].   (* ".service" *)
Definition unit_file_name : bytes := Consts.setup_service_name ++ dot_service.
Definition dot_tmp : bytes := [46; 116; 109; 112].   (* ".tmp": linux.rs backup_files "azure-proxy-agent.tmp" *)

(* setup.rs proxy_agent_folder_in_setup; backup.rs *)
Definition package_dir (sd : bytes) : bytes := pjoin sd Consts.setup_package_folder.
Definition backup_dir (sd : bytes) : bytes := pjoin (package_dir sd) Consts.setup_backup_folder.
Definition backup_package_dir (sd : bytes) : bytes :=
  pjoin (backup_dir sd) Consts.setup_backup_package_folder.

Definition render (sd : bytes) (l : loc) : bytes :=
  match l with
  | SysExe => pjoin Consts.shared_exe_folder_path Consts.setup_exe_name
  | SysCfg => Consts.setup_config_path
  | SysEbpf => Consts.setup_ebpf_path
  | SysUnit => pjoin Consts.shared_service_config_folder_path unit_file_name
  | PkgExe => pjoin (package_dir sd) Consts.setup_exe_name
  | PkgCfg => pjoin (package_dir sd) Consts.setup_config_file
  | PkgEbpf => pjoin (package_dir sd) Consts.setup_ebpf_file
  | PkgUnit => pjoin sd unit_file_name
  | BakExe => pjoin (backup_package_dir sd) Consts.setup_exe_name
  | BakCfg => pjoin (backup_package_dir sd) Consts.setup_config_file
  | BakEbpf => pjoin (backup_package_dir sd) Consts.setup_ebpf_file
  | BakUnit => pjoin (backup_dir sd) Consts.setup_service_config_file_name
  | BakTmp => pjoin (backup_package_dir sd) (Consts.setup_exe_name ++ dot_tmp)
  | BakOther rel => pjoin (backup_dir sd) rel
  | Outside abs => abs
  end.

(* the tool's own log files: <setup dir>/setup.log* (logger.rs, rolling_logger.rs) *)
Definition tool_log_prefix (sd : bytes) : bytes := pjoin sd Consts.setup_logger_key.

Fixpoint nodupb (l : list bytes) : bool :=
  match l with [] => true | x :: t => negb (existsb (beq x) t) && nodupb t end.

(* the twelve computed paths are pairwise distinct, the package and system paths lie outside
   the backup folder and none of them is a tool log: checked by computation for the setup
   directory the harness uses (Props/C17.v) *)
Definition layout_ok (sd : bytes) : bool :=
  nodupb (map (render sd) (BakTmp :: fixed_locs)) &&
  forallb (fun l => negb (starts_with (render sd l) (backup_dir sd ++ [slash]))) (sys_locs ++ pkg_locs) &&
  forallb (fun l => starts_with (render sd l) (backup_dir sd ++ [slash])) (BakTmp :: bak_locs) &&
  forallb (fun l => negb (starts_with (render sd l) (tool_log_prefix sd))) fixed_locs.

(* an open-class location is well-formed when its path does not alias a computed one *)
Definition wf_loc (sd : bytes) (l : loc) : bool :=
  match l with
  | BakOther rel =>
      negb (existsb (beq (render sd l)) (map (render sd) (BakTmp :: bak_locs))) &&
      match rel with [] => false | c :: _ => negb (c =? slash) end
  | Outside abs =>
      negb (existsb (beq abs) (map (render sd) fixed_locs)) &&
      negb (starts_with abs (backup_dir sd ++ [slash])) &&
      negb (starts_with abs (tool_log_prefix sd))
  | _ => true
  end.
