(* C17 -- model of the setup tool proxy_agent_setup (Linux code paths).

   Mirrors, statement by statement:
     proxy_agent_setup/src/main.rs    main (command dispatch), copy_proxy_agent, backup_proxy_agent,
                                      restore_proxy_agent, stop_service, setup_service,
                                      check_backup_exists, uninstall_service, delete_package,
                                      delete_backup_folder
     proxy_agent_setup/src/linux.rs   backup_files, copy_files, delete_files, setup_service,
                                      copy_file (a failed copy of a missing source is logged and
                                      ignored), delete_file
     proxy_agent_setup/src/running.rs proxy_agent_version_target_folder (runs `<exe> --version`;
                                      panics when that fails)
     proxy_agent_shared/src/service.rs + service/linux_service.rs
                                      stop_service, start_service, install_or_update_service
                                      (unmask, daemon-reload, enable), stop_and_delete_service
                                      (stop, disable, remove the unit file, daemon-reload if removed)
     proxy_agent_shared/src/misc_helpers.rs execute_command (the exit status of systemctl is NOT
                                      examined: only a failure to spawn is an error).  A systemctl
                                      invocation may FAIL (oracle [fails]): it is then logged, has
                                      no effect on the service, and -- as in the code -- the tool
                                      carries on regardless.

   World = file system (SetupFs.v) + service state (running, enabled: the ASSUMED behaviour of
   systemd, which the harness' stand-in `systemctl` implements literally) + one ordered log of
   systemctl calls and file mutations + the tool's own log (which commands wrote their banner).
   A command is a static list of primitive operations ([script]); an operation can end the
   process (panic / process::exit), which drops the rest of the list.
   Definitions only; proofs in Proofs/SetupProofs.v. *)
From GPA Require Export SetupFs.

Inductive verb := VStop | VStart | VEnable | VDisable | VUnmask | VDaemonReload.

Inductive event :=
| ECall (v : verb)            (* `systemctl <verb> [azure-proxy-agent]` has RETURNED: the code waits for
                                 Command::output(), so an invocation is one atomic event of the log; the
                                 correspondence run checks that on the real tool nothing happens between
                                 the begin and the end of an invocation (stand-in: B / E lines) *)
| EWrite (l : loc)            (* fs::copy created / replaced the file at l *)
| ERemove (l : loc)           (* fs::remove_file removed the file at l *)
| ERemoveBackupDir.           (* fs::remove_dir_all(<setup>/ProxyAgent/Backup) *)

Inductive umode := UService | UPackage.

Inductive cmd :=
| Backup
| Install
| Restore (delete_backup : bool)
| Uninstall (m : umode)
| Purge
| BadArgs.      (* a command line clap rejects (exit 2 before anything is done) *)

Record world := {
  wfs : fs;
  wrunning : bool;          (* systemd: the service is active *)
  wenabled : bool;          (* systemd: the service is enabled *)
  wlog : list event;        (* ordered call / write log, oldest first *)
  wtool : list cmd;         (* the tool's own log: one banner per command that parsed *)
}.

Definition set_fs (m : fs) (w : world) : world :=
  {| wfs := m; wrunning := wrunning w; wenabled := wenabled w; wlog := wlog w; wtool := wtool w |}.
Definition emit (e : event) (w : world) : world :=
  {| wfs := wfs w; wrunning := wrunning w; wenabled := wenabled w; wlog := wlog w ++ [e]; wtool := wtool w |}.
Definition clear_log (w : world) : world :=
  {| wfs := wfs w; wrunning := wrunning w; wenabled := wenabled w; wlog := []; wtool := wtool w |}.
Definition log_tool (c : cmd) (w : world) : world :=
  {| wfs := wfs w; wrunning := wrunning w; wenabled := wenabled w; wlog := wlog w; wtool := wtool w ++ [c] |}.

(* ---- primitive operations ---------------------------------------------------------- *)
Inductive op :=
| OCall (v : verb)                 (* misc_helpers::execute_command("systemctl", ..) *)
| OCopy (src dst : loc)            (* linux.rs copy_file / backup_service_config_file: errors ignored *)
| ORemove (l : loc)                (* linux.rs delete_file: errors ignored *)
| ORequireRunnable (l : loc)       (* running.rs proxy_agent_version_target_folder: panic (101) *)
| ORequire (l : loc)               (* linux.rs copy_service_config_file failing: process::exit(1) *)
| OMoveIf (guard src dst : loc)    (* linux.rs backup_files: fs::rename(src, dst) when the copy from [guard] succeeded *)
| ORemoveUnitReload                (* linux_service.rs delete_service_config_file *)
| ORemoveBackupDir.                (* main.rs delete_backup_folder *)

Section WithOracle.
(* does executing this file with `--version` succeed (spawn ok, exit status 0)?  The theorems
   hold for every such oracle; the correspondence run instantiates it with [standin_runnable]. *)
Context (runnable : file -> bool).
(* does this systemctl invocation fail (non-zero exit, no effect on the service)?  It may depend on
   the verb and on everything logged so far.  Arbitrary in the theorems; [fails_of] in the runs. *)
Context (fails : verb -> list event -> bool).

(* the assumed service manager: what `systemctl <verb> azure-proxy-agent` does *)
Definition call (v : verb) (w : world) : world :=
  let unit_present := fs_has SysUnit (wfs w) in
  let w' := emit (ECall v) w in
  if fails v (wlog w) then w' else
  match v with
  | VStop => {| wfs := wfs w'; wrunning := false; wenabled := wenabled w'; wlog := wlog w'; wtool := wtool w' |}
  | VStart => {| wfs := wfs w'; wrunning := if unit_present then true else wrunning w';
                 wenabled := wenabled w'; wlog := wlog w'; wtool := wtool w' |}
  | VEnable => {| wfs := wfs w'; wrunning := wrunning w';
                  wenabled := if unit_present then true else wenabled w'; wlog := wlog w'; wtool := wtool w' |}
  | VDisable => {| wfs := wfs w'; wrunning := wrunning w'; wenabled := false; wlog := wlog w'; wtool := wtool w' |}
  | VUnmask | VDaemonReload => w'
  end.

(* fs::copy(src, dst): content and permission bits; a missing source changes nothing *)
Definition copy (src dst : loc) (w : world) : world :=
  match fs_get src (wfs w) with
  | Some f => emit (EWrite dst) (set_fs (fs_set dst f (wfs w)) w)
  | None => w
  end.

Definition remove (l : loc) (w : world) : world :=
  match fs_get l (wfs w) with
  | Some _ => emit (ERemove l) (set_fs (fs_del l (wfs w)) w)
  | None => w
  end.

(* fs::rename(src, dst): atomic; dst replaced, src gone *)
Definition move (src dst : loc) (w : world) : world :=
  match fs_get src (wfs w) with
  | Some f => emit (EWrite dst) (set_fs (fs_set dst f (fs_del src (wfs w))) w)
  | None => w
  end.

Definition remove_backup_dir (w : world) : world :=
  emit ERemoveBackupDir (set_fs (fs_del_where in_backup (wfs w)) w).

Definition version_ok (l : loc) (w : world) : bool :=
  match fs_get l (wfs w) with Some f => runnable f | None => false end.

(* None = the process ends here (nothing else happens) *)
Definition step_op (o : op) (w : world) : option world :=
  match o with
  | OCall v => Some (call v w)
  | OCopy s d => Some (copy s d w)
  | ORemove l => Some (remove l w)
  | ORequireRunnable l => if version_ok l w then Some w else None
  | ORequire l => if fs_has l (wfs w) then Some w else None
  | OMoveIf g s d => if fs_has g (wfs w) then Some (move s d w) else Some w
  | ORemoveUnitReload =>
      if fs_has SysUnit (wfs w) then Some (call VDaemonReload (remove SysUnit w)) else Some w
  | ORemoveBackupDir => Some (remove_backup_dir w)
  end.

Definition abort_code (o : op) : N :=
  match o with ORequireRunnable _ => 101 | ORequire _ => 1 | _ => 0 end.

Fixpoint run_ops (ops : list op) (w : world) : world :=
  match ops with
  | [] => w
  | o :: t => match step_op o w with Some w' => run_ops t w' | None => w end
  end.

Fixpoint rc_ops (ops : list op) (w : world) : N :=
  match ops with
  | [] => 0
  | o :: t => match step_op o w with Some w' => rc_ops t w' | None => abort_code o end
  end.

(* ---- the commands ------------------------------------------------------------------ *)
(* main.rs setup_service (linux): linux::setup_service copies <dir>/azure-proxy-agent.service to
   /usr/lib/systemd/system/ (exit 1 on failure), service::install_service = unmask,
   daemon-reload, enable; service::start_service *)
Definition setup_service_ops (unit_src : loc) : list op :=
  [ORequire unit_src; OCopy unit_src SysUnit;
   OCall VUnmask; OCall VDaemonReload; OCall VEnable; OCall VStart].

(* linux.rs copy_files(src_folder) *)
Definition copy_files_ops (exe cfg ebpf : loc) : list op :=
  [OCopy exe SysExe; OCopy cfg SysCfg; OCopy ebpf SysEbpf].

(* linux.rs backup_files: configuration, eBPF object, unit file; the executable -- the file
   check_backup_exists takes as the sign of a backup -- LAST, copied to azure-proxy-agent.tmp and
   renamed onto its final name only if that copy succeeded *)
Definition backup_ops : list op :=
  [OCopy SysCfg BakCfg; OCopy SysEbpf BakEbpf; OCopy SysUnit BakUnit; OCopy SysExe BakTmp; OMoveIf SysExe BakTmp BakExe].

(* main.rs Command::Install: stop_service; copy_proxy_agent (version of the packaged agent
   first); setup_service(.., current exe dir) *)
Definition install_ops : list op :=
  [OCall VStop; ORequireRunnable PkgExe] ++ copy_files_ops PkgExe PkgCfg PkgEbpf ++ setup_service_ops PkgUnit.

(* main.rs Command::Restore past check_backup_exists: stop_service; restore_proxy_agent (version
   of the backed-up agent first); setup_service(.., backup folder); delete_backup_folder *)
Definition restore_ops (delete_backup : bool) : list op :=
  [OCall VStop; ORequireRunnable BakExe] ++ copy_files_ops BakExe BakCfg BakEbpf ++ setup_service_ops BakUnit
  ++ (if delete_backup then [ORemoveBackupDir] else []).

(* main.rs Command::Uninstall: service::stop_and_delete_service; delete_package -> linux.rs delete_files *)
Definition uninstall_ops (m : umode) : list op :=
  [OCall VStop; OCall VDisable; ORemoveUnitReload] ++
  match m with UPackage => [ORemove SysExe; ORemove SysCfg; ORemove SysEbpf] | UService => [] end.

(* main.rs check_backup_exists *)
Definition backup_exists (w : world) : bool := fs_has BakExe (wfs w).

Definition script (c : cmd) (w : world) : list op :=
  match c with
  | Backup => backup_ops
  | Install => install_ops
  | Restore d => if backup_exists w then restore_ops d else []
  | Uninstall m => uninstall_ops m
  | Purge => [ORemoveBackupDir]
  | BadArgs => []
  end.

Definition banner (c : cmd) (w : world) : world :=
  match c with BadArgs => w | _ => log_tool c w end.

Definition exec (c : cmd) (w : world) : world := run_ops (script c w) (banner c w).
Definition exit_code (c : cmd) (w : world) : N :=
  match c with BadArgs => 2 | _ => rc_ops (script c w) (banner c w) end.

Definition run (cmds : list cmd) (w : world) : world := fold_left (fun w c => exec c w) cmds w.

(* CRASH POINTS INSIDE BACKUP (process death: SIGKILL, OOM, extension time-out).  `backup` is four
   fs::copy calls and one rename; the tool can die between any two of them -- [backup_crash j]: the
   first j operations are complete -- or inside a copy, which leaves the copy's destination created
   but empty, filled but with the creation mode, or complete -- [inflight l f]: an arbitrary file f
   sits at the destination l of the copy in progress (never the final name of the executable: that
   one only ever appears by rename). *)
Definition backup_crash (j : nat) (w : world) : world := run_ops (firstn j backup_ops) (banner Backup w).
Definition inflight (l : loc) (f : file) (w : world) : world := set_fs (fs_set l f (wfs w)) w.

(* what a command appended to the call / write log *)
Definition step_events (c : cmd) (w : world) : list event := wlog (exec c (clear_log w)).
Definition history_events (cmds : list cmd) (w : world) : list event := wlog (run cmds (clear_log w)).

(* ---- state predicates used by the theorems ------------------------------------------ *)
(* a version is installed: the four files are there and the agent executable answers --version *)
Definition installed (w : world) : bool :=
  forallb (fun l => fs_has l (wfs w)) sys_locs && version_ok SysExe w.
Definition four_present (w : world) : bool := forallb (fun l => fs_has l (wfs w)) sys_locs.
(* KNOWN FINDING C17-K1 (known_findings.d/C17.json): all four files are installed but the agent
   executable does not answer `--version`.  `restore` runs the backed-up copy of it AFTER
   `systemctl stop` and panics when that fails (running.rs proxy_agent_version_target_folder), so
   the newer files stay and the service stays stopped. *)
Definition KnownClass_C17_agent_not_runnable (w : world) : bool :=
  four_present w && negb (version_ok SysExe w).
(* no backup entry at the four computed backup locations *)
Definition no_backup (w : world) : bool := forallb (fun l => negb (fs_has l (wfs w))) bak_locs.
(* a complete package sits beside the tool *)
Definition package_complete (w : world) : bool :=
  forallb (fun l => fs_has l (wfs w)) pkg_locs && version_ok PkgExe w.

End WithOracle.

(* ---- ordering of calls and file mutations ------------------------------------------- *)
Definition sys_mutation (e : event) : bool :=
  match e with EWrite l | ERemove l => is_sys l | _ => false end.

(* "the service may be running" after the calls seen so far, starting from r: a stop clears it,
   a start sets it (pessimistically: even when the start fails) *)
Fixpoint log_state (r : bool) (l : list event) : bool :=
  match l with
  | [] => r
  | ECall VStop :: t => log_state false t
  | ECall VStart :: t => log_state true t
  | _ :: t => log_state r t
  end.

(* every mutation of a system path happens while the last stop/start call was a stop *)
Fixpoint log_safe (r : bool) (l : list event) : bool :=
  match l with
  | [] => true
  | ECall VStop :: t => log_safe false t
  | ECall VStart :: t => log_safe true t
  | e :: t => (if sys_mutation e then negb r else true) && log_safe r t
  end.

(* every file mutation in the log targets an allowed location *)
Definition event_allowed (e : event) : bool :=
  match e with EWrite l | ERemove l => allowed l | _ => true end.

(* ---- observation functions for the correspondence run (printable terms only) ----------- *)
Definition verb_code (v : verb) : N :=
  match v with VStop => 0 | VStart => 1 | VEnable => 2 | VDisable => 3 | VUnmask => 4 | VDaemonReload => 5 end.
Definition loc_code (l : loc) : N :=
  match l with
  | SysExe => 0 | SysCfg => 1 | SysEbpf => 2 | SysUnit => 3
  | PkgExe => 4 | PkgCfg => 5 | PkgEbpf => 6 | PkgUnit => 7
  | BakExe => 8 | BakCfg => 9 | BakEbpf => 10 | BakUnit => 11
  | BakOther _ => 12 | Outside _ => 13 | BakTmp => 14
  end.
Definition event_code (e : event) : N * N :=
  match e with
  | ECall v => (0, verb_code v)
  | EWrite l => (1, loc_code l)
  | ERemove l => (2, loc_code l)
  | ERemoveBackupDir => (3, 0)
  end.

Definition observe (watch : list loc) (w : world) : list (option file) * bool * bool :=
  (map (fun l => fs_get l (wfs w)) watch, wrunning w, wenabled w).

(* the fault oracle of the runs: the k-th systemctl call of a command fails iff the k-th entry of
   the command's fault list says so (the log is cleared before each command in [run_obs_ix]) *)
Definition count_calls (l : list event) : nat :=
  length (filter (fun e => match e with ECall _ => true | _ => false end) l).
Definition fails_of (fl : list bool) (v : verb) (log : list event) : bool := nth (count_calls log) fl false.
Definition never_fails (v : verb) (log : list event) : bool := false.

(* the same with every file printed as its index in a pool of known files (the commands only copy
   and delete, so every file ever present is one of the initial ones); keeps the printed terms small *)
Definition file_eqb (a b : file) : bool := (fst a =? fst b) && beq (snd a) (snd b).
Fixpoint file_index (pool : list file) (f : file) (i : N) : N :=
  match pool with
  | [] => 999999
  | g :: t => if file_eqb f g then i else file_index t f (i + 1)
  end.
Definition observe_ix (pool : list file) (watch : list loc) (w : world) : list (option N) * bool * bool :=
  (map (fun l => option_map (fun f => file_index pool f 0) (fs_get l (wfs w))) watch, wrunning w, wenabled w).
Fixpoint run_obs_ix (runnable : file -> bool) (pool : list file) (watch : list loc)
    (cmds : list (cmd * list bool)) (w : world)
  : list (N * (list (option N) * bool * bool) * list (N * N)) :=
  match cmds with
  | [] => []
  | (c, fl) :: t =>
      let w' := exec runnable (fails_of fl) c (clear_log w) in
      (exit_code runnable (fails_of fl) c (clear_log w), observe_ix pool watch w', map event_code (wlog w'))
        :: run_obs_ix runnable pool watch t w'
  end.
Definition mk_world (files : list (loc * file)) (running enabled : bool) : world :=
  {| wfs := fold_left (fun m kv => fs_set (fst kv) (snd kv) m) files [];
     wrunning := running; wenabled := enabled; wlog := []; wtool := [] |}.

(* the harness' fake agent executables: a file "runs" iff some execute bit is set (the tool runs
   as root) and it is the /bin/sh script that prints a version and exits 0 *)
Definition standin_magic : bytes :=
  [35; 33; 47; 98; 105; 110; 47; 115; 104; 10; 101; 99; 104; 111; 32].   (* "#!/bin/sh\necho " *)
Definition standin_runnable (f : file) : bool :=
  negb (N.land (fmode f) 73 =? 0) && starts_with (fdata f) standin_magic.   (* 73 = 0o111 *)

Definition run_scenario (files : list (loc * file)) (extra_watch : list loc) (running enabled : bool)
    (cmds : list (cmd * list bool)) :=
  run_obs_ix standin_runnable (map snd files) (fixed_locs ++ BakTmp :: extra_watch) cmds (mk_world files running enabled).


(* the crash states of `backup` from a given tree, for the correspondence run: the four backup
   locations and the temporary name after 0..5 completed operations *)
Definition crash_scenario (files : list (loc * file)) : list (list (option N)) :=
  let w := mk_world files true true in
  map (fun j => fst (fst (observe_ix (map snd files) (bak_locs ++ [BakTmp]) (backup_crash standin_runnable never_fails j w))))
      [0; 1; 2; 3; 4; 5]%nat.
