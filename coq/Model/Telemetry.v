(* C18 -- model of the telemetry upload path.  Definitions only; proofs are in
   Proofs/TelemetryProofs.v.

   Mirrors (proxy_agent/src unless said otherwise):
     common/helpers.rs            xml_escape
     telemetry/telemetry_event.rs TelemetryEvent::{from_event_log, to_xml_event},
                                  TelemetryData::{new, to_xml, get_size, add_event,
                                  remove_last_event, event_count}
     telemetry/event_reader.rs    EventReader::{process_events, process_events_and_clean,
                                  send_events, send_data_to_wire_server, clean_files},
                                  MAX_MESSAGE_SIZE
     host_clients/wire_server_client.rs  send_telemetry_data (one POST per attempt; Ok iff 2xx)
     proxy_agent_shared/src/misc_helpers.rs search_files (regex + sort), json_read_from_file

   Rust Strings are byte strings ([bytes] = list N) holding valid UTF-8.  Every character the
   code treats specially is ASCII and bytes of multi-byte UTF-8 sequences are >= 0x80, so
   [str::replace(char, &str)] on characters is the byte-wise replacement below. *)
From Coq Require Import Ascii String.
From GPA Require Export Bytes Consts.

(* ------------------------------------------------------------------------------------ *)
(* literals (normalised to explicit byte lists)                                          *)
(* ------------------------------------------------------------------------------------ *)
Definition amp_e  : bytes := Eval vm_compute in B"&amp;".
Definition apos_e : bytes := Eval vm_compute in B"&apos;".
Definition quot_e : bytes := Eval vm_compute in B"&quot;".
Definition lt_e   : bytes := Eval vm_compute in B"&lt;".
Definition gt_e   : bytes := Eval vm_compute in B"&gt;".

(* ------------------------------------------------------------------------------------ *)
(* helpers.rs: xml_escape                                                                *)
(*   s.replace(AMP, "&amp;").replace(APOS, "&apos;").replace(QUOT, "&quot;")             *)
(*    .replace(LT, "&lt;").replace(GT, "&gt;")      (AMP = U+0026, APOS = U+0027,        *)
(*                                                   QUOT = U+0022, LT = U+003C, GT = U+003E) *)
(* ------------------------------------------------------------------------------------ *)
(* String::replace(c, r) for an ASCII character c *)
Definition replace_byte (c : N) (r : bytes) (s : bytes) : bytes :=
  flat_map (fun b => if b =? c then r else [b]) s.

Definition xml_escape (s : bytes) : bytes :=
  replace_byte 62 gt_e
    (replace_byte 60 lt_e
      (replace_byte 34 quot_e
        (replace_byte 39 apos_e
          (replace_byte 38 amp_e s)))).

(* the single-pass description (proved equal to the five sequential replacements) *)
Definition esc_byte (b : N) : bytes :=
  if b =? 38 then amp_e else
  if b =? 39 then apos_e else
  if b =? 34 then quot_e else
  if b =? 60 then lt_e else
  if b =? 62 then gt_e else [b].
Definition escape1 (s : bytes) : bytes := flat_map esc_byte s.

(* what an XML parser does with the five predefined entity references; any other '&' is kept
   (the well-formedness checker below rejects those separately).  Fuel = input length. *)
Fixpoint unescape_f (fuel : nat) (s : bytes) : bytes :=
  match fuel with
  | O => []
  | S f =>
      match s with
      | [] => []
      | x :: t =>
          if starts_with s amp_e then 38 :: unescape_f f (skipn 5 s) else
          if starts_with s apos_e then 39 :: unescape_f f (skipn 6 s) else
          if starts_with s quot_e then 34 :: unescape_f f (skipn 6 s) else
          if starts_with s lt_e then 60 :: unescape_f f (skipn 4 s) else
          if starts_with s gt_e then 62 :: unescape_f f (skipn 4 s) else
          x :: unescape_f f t
      end
  end.
Definition unescape (s : bytes) : bytes := unescape_f (length s) s.

(* every '&' begins one of the five entity references *)
Definition entity_at (s : bytes) : bool :=
  starts_with s amp_e || starts_with s apos_e || starts_with s quot_e ||
  starts_with s lt_e || starts_with s gt_e.
Fixpoint amp_ok (s : bytes) : bool :=
  match s with
  | [] => true
  | x :: t => (if x =? 38 then entity_at s else true) && amp_ok t
  end.
Definition no_byte (c : N) (s : bytes) : bool := forallb (fun b => negb (b =? c)) s.
Definition cdata_end : bytes := Eval vm_compute in B"]]>".

(* ------------------------------------------------------------------------------------ *)
(* data                                                                                  *)
(* ------------------------------------------------------------------------------------ *)
(* proxy_agent_shared/src/telemetry.rs: struct Event (all fields are Strings) *)
Record event := mk_event {
  ev_level : bytes;      (* EventLevel *)
  ev_message : bytes;    (* Message *)
  ev_version : bytes;    (* Version *)
  ev_task : bytes;       (* TaskName *)
  ev_pid : bytes;        (* EventPid *)
  ev_tid : bytes;        (* EventTid *)
  ev_opid : bytes;       (* OperationId *)
  ev_ts : bytes;         (* TimeStamp *)
}.

(* event_reader.rs: struct VmMetaData *)
Record vmmeta := mk_vm {
  vm_container_id : bytes;
  vm_tenant_name : bytes;
  vm_role_name : bytes;
  vm_role_instance_name : bytes;
  vm_subscription_id : bytes;
  vm_resource_group_name : bytes;
  vm_vm_id : bytes;
  vm_image_origin : N;
}.

(* what from_event_log reads from the machine: helpers::get_long_os_version(),
   CURRENT_KEYWORD_NAME, helpers::get_ram_in_mb(), helpers::get_cpu_count() *)
Record envinfo := mk_env {
  env_os_version : bytes;
  env_keyword_name : bytes;
  env_ram : N;
  env_processors : N;
}.

(* telemetry_event.rs: struct TelemetryEvent *)
Record tevent := mk_tevent {
  t_event_pid : N; t_event_tid : N;
  t_ga_version : bytes; t_container_id : bytes; t_task_name : bytes; t_opcode_name : bytes;
  t_keyword_name : bytes; t_os_version : bytes; t_execution_mode : bytes;
  t_ram : N; t_processors : N;
  t_tenant_name : bytes; t_role_name : bytes; t_role_instance_name : bytes;
  t_subscription_id : bytes; t_resource_group_name : bytes; t_vm_id : bytes;
  t_image_origin : N;
  t_event_name : bytes; t_capability_used : bytes;
  t_context1 : bytes; t_context2 : bytes; t_context3 : bytes;
}.

(* str::parse::<u64>(): optional '+', then one or more ASCII digits, value <= u64::MAX *)
Definition u64_max : N := 18446744073709551615.
Definition parse_u64 (s : bytes) : option N :=
  let digits := match s with 43 :: t => t | _ => s end in
  match undec digits with
  | Some n => if n <=? u64_max then Some n else None
  | None => None
  end.
Definition parse_u64_or0 (s : bytes) : N :=
  match parse_u64 s with Some n => n | None => 0 end.

Definition execution_mode_lit : bytes := Eval vm_compute in B"ProxyAgent".
Definition event_name_lit : bytes := Eval vm_compute in B"MicrosoftAzureGuestProxyAgent".

(* TelemetryEvent::from_event_log *)
Definition from_event_log (e : event) (vm : vmmeta) (env : envinfo) : tevent :=
  {| t_event_pid := parse_u64_or0 (ev_pid e);
     t_event_tid := parse_u64_or0 (ev_tid e);
     t_ga_version := ev_version e;
     t_task_name := ev_task e;
     t_opcode_name := ev_ts e;
     t_capability_used := ev_level e;
     t_context1 := ev_message e;
     t_context2 := ev_ts e;
     t_context3 := ev_opid e;
     t_execution_mode := execution_mode_lit;
     t_event_name := event_name_lit;
     t_os_version := env_os_version env;
     t_keyword_name := env_keyword_name env;
     t_ram := env_ram env;
     t_processors := env_processors env;
     t_container_id := vm_container_id vm;
     t_tenant_name := vm_tenant_name vm;
     t_role_name := vm_role_name vm;
     t_role_instance_name := vm_role_instance_name vm;
     t_subscription_id := vm_subscription_id vm;
     t_resource_group_name := vm_resource_group_name vm;
     t_vm_id := vm_vm_id vm;
     t_image_origin := vm_image_origin vm |}.

(* ------------------------------------------------------------------------------------ *)
(* telemetry_event.rs: to_xml_event / to_xml / get_size                                  *)
(* ------------------------------------------------------------------------------------ *)
Inductive pval := PStr (s : bytes) | PNum (n : N).

(* the 23 push_str(format!("<Param Name=\"..\" Value=\"{}\" T=\"..\" />", ..)) statements of
   to_xml_event, in source order; PStr values go through helpers::xml_escape, PNum values are
   formatted with Display (decimal) *)
Definition tev_params (t : tevent) : list (bytes * pval) :=
  [ (B"OpcodeName", PStr (t_opcode_name t));
    (B"KeywordName", PStr (t_keyword_name t));
    (B"TaskName", PStr (t_task_name t));
    (B"TenantName", PStr (t_tenant_name t));
    (B"RoleName", PStr (t_role_name t));
    (B"RoleInstanceName", PStr (t_role_instance_name t));
    (B"ContainerId", PStr (t_container_id t));
    (B"ResourceGroupName", PStr (t_resource_group_name t));
    (B"SubscriptionId", PStr (t_subscription_id t));
    (B"VMId", PStr (t_vm_id t));
    (B"EventPid", PNum (t_event_pid t));
    (B"EventTid", PNum (t_event_tid t));
    (B"ImageOrigin", PNum (t_image_origin t));
    (B"ExecutionMode", PStr (t_execution_mode t));
    (B"OSVersion", PStr (t_os_version t));
    (B"GAVersion", PStr (t_ga_version t));
    (B"RAM", PNum (t_ram t));
    (B"Processors", PNum (t_processors t));
    (B"EventName", PStr (t_event_name t));
    (B"CapabilityUsed", PStr (t_capability_used t));
    (B"Context1", PStr (t_context1 t));
    (B"Context2", PStr (t_context2 t));
    (B"Context3", PStr (t_context3 t)) ].

Definition wstr_lit : bytes := Eval vm_compute in B"mt:wstr".
Definition uint64_lit : bytes := Eval vm_compute in B"mt:uint64".
Definition pval_wire (v : pval) : bytes :=
  match v with PStr s => xml_escape s | PNum n => dec n end.
Definition pval_raw (v : pval) : bytes :=
  match v with PStr s => s | PNum n => dec n end.
Definition pval_type (v : pval) : bytes :=
  match v with PStr _ => wstr_lit | PNum _ => uint64_lit end.

Definition param_open : bytes := Eval vm_compute in B"<Param Name=""".
Definition param_value : bytes := Eval vm_compute in B""" Value=""".
Definition param_type : bytes := Eval vm_compute in B""" T=""".
Definition param_close : bytes := Eval vm_compute in B""" />".
Definition param_xml (p : bytes * pval) : bytes :=
  param_open ++ fst p ++ param_value ++ pval_wire (snd p) ++ param_type ++
  pval_type (snd p) ++ param_close.

Definition event_open : bytes := Eval vm_compute in B"<Event id=""7""><![CDATA[".
Definition event_close : bytes := Eval vm_compute in B"]]></Event>".
Definition event_inner (t : tevent) : bytes := flat_map param_xml (tev_params t).
(* TelemetryEvent::to_xml_event *)
Definition to_xml_event (t : tevent) : bytes := event_open ++ event_inner t ++ event_close.

Definition data_open : bytes := Eval vm_compute in
  B"<?xml version=""1.0""?><TelemetryData version=""1.0""><Provider id=""FFF0196F-EE4C-4EAF-9AA5-776F622DEB4F"">".
Definition data_close : bytes := Eval vm_compute in B"</Provider></TelemetryData>".

(* TelemetryData { events: Vec<TelemetryEvent> } *)
Definition tdata := list tevent.
(* TelemetryData::to_xml *)
Definition to_xml (td : tdata) : bytes := data_open ++ flat_map to_xml_event td ++ data_close.
Definition blen (s : bytes) : N := N.of_nat (length s).
(* TelemetryData::get_size = self.to_xml().len() *)
Definition get_size (td : tdata) : N := blen (to_xml td).
Definition add_event (td : tdata) (t : tevent) : tdata := td ++ [t].
Definition remove_last_event (td : tdata) : tdata := removelast td.
Definition event_count (td : tdata) : N := N.of_nat (length td).

Definition max_message_size : N := Consts.max_message_size.

(* ------------------------------------------------------------------------------------ *)
(* event_reader.rs: send_events / send_data_to_wire_server                               *)
(* ------------------------------------------------------------------------------------ *)
Section Send.
Context (vm : vmmeta) (env : envinfo).

(* The inner `while !events.is_empty() && add_more_events` loop.  [st] is the Vec<Event> as a
   stack: its head is the vector's LAST element (events.pop() / events.push()).  Result:
   the telemetry data, the remaining stack, the event logged as too large (if any). *)
Fixpoint fill (st : list event) (td : tdata) : tdata * list event * list event :=
  match st with
  | [] => (td, [], [])
  | e :: st' =>                                             (* events.pop() *)
      let td1 := add_event td (from_event_log e vm env) in
      if max_message_size <=? get_size td1 then             (* get_size() >= MAX_MESSAGE_SIZE *)
        let td2 := remove_last_event td1 in
        if event_count td2 =? 0
        then (td2, st', [e])                                (* "Event data too large", dropped *)
        else (td2, e :: st', [])                            (* events.push(event) *)
                                                            (* add_more_events = false *)
      else fill st' td1
  end.

(* send_data_to_wire_server: nothing for an empty batch, else up to 5 POSTs of to_xml(), stop at
   the first Ok.  The upload oracle is the list of outcomes of the successive POSTs (true =
   the host answered 2xx); when the list is exhausted the host answers 2xx. *)
Definition oracle := list bool.
Definition next_outcome (o : oracle) : bool * oracle :=
  match o with [] => (true, []) | b :: r => (b, r) end.
Fixpoint upload (n : nat) (td : tdata) (o : oracle) : list (bytes * bool) * oracle :=
  match n with
  | O => ([], o)
  | S k =>
      let body := to_xml td in                              (* rendered anew for every attempt *)
      let (ok, o') := next_outcome o in
      if ok then ([(body, true)], o')                       (* Ok(()) => break *)
      else let (l, o'') := upload k td o' in ((body, false) :: l, o'')   (* sleep 15 s, retry *)
  end.
Definition send_data (td : tdata) (o : oracle) : list (bytes * bool) * oracle :=
  if event_count td =? 0 then ([], o) else upload 5 td o.

Record round := mk_round {
  r_batch : tdata;                       (* telemetry_data handed to send_data_to_wire_server *)
  r_dropped : list event;                (* logged "Event data too large. Not sending" *)
  r_attempts : list (bytes * bool);      (* POST bodies in order, with the host's answer *)
}.

(* the outer `while !events.is_empty()` loop; None = out of fuel *)
Fixpoint send_loop (fuel : nat) (st : list event) (o : oracle) : option (list round * oracle) :=
  match st with
  | [] => Some ([], o)
  | _ :: _ =>
      match fuel with
      | O => None
      | S f =>
          let '(td, st', dr) := fill st [] in
          let (atts, o') := send_data td o in
          match send_loop f st' o' with
          | None => None
          | Some (rs, o'') => Some (mk_round td dr atts :: rs, o'')
          end
      end
  end.

(* send_events(events: Vec<Event>, ..): the vector in file order; pop() takes from the end *)
Definition send_events (evs : list event) (o : oracle) : option (list round * oracle) :=
  send_loop (length evs) (rev evs) o.

(* ------------------------------------------------------------------------------------ *)
(* event_reader.rs: process_events / process_events_and_clean / clean_files              *)
(* ------------------------------------------------------------------------------------ *)
Inductive fcontent :=
| FEvents (evs : list event)            (* json_read_from_file::<Vec<Event>> succeeds *)
| FUnreadable.                          (* it fails: warning only *)
Definition file := (bytes * fcontent)%type.    (* file name, content *)

Record file_result := mk_fres {
  f_name : bytes;
  f_rounds : option (list round);        (* None for an unreadable file *)
}.

(* for file in files { read; send_events; clean_files(file) }.
   Result: per-file outcome, the files removed (in order), events counted, oracle left. *)
Fixpoint process_files (files : list file) (o : oracle)
  : option (list file_result * list bytes * N * oracle) :=
  match files with
  | [] => Some ([], [], 0, o)
  | (name, c) :: rest =>
      match c with
      | FEvents evs =>
          match send_events evs o with
          | None => None
          | Some (rs, o') =>
              match process_files rest o' with
              | None => None
              | Some (frs, removed, n, o'') =>
                  Some (mk_fres name (Some rs) :: frs, name :: removed,
                        N.of_nat (length evs) + n, o'')
              end
          end
      | FUnreadable =>
          match process_files rest o with
          | None => None
          | Some (frs, removed, n, o'') =>
              Some (mk_fres name None :: frs, name :: removed, n, o'')
          end
      end
  end.

(* misc_helpers::search_files(dir, r"^(.*\.json)$"): regular files whose name ends in ".json",
   sorted (PathBuf order within one directory = byte order of the names) *)
Definition json_suffix : bytes := Eval vm_compute in B".json".
Definition is_json_name (name : bytes) : bool := starts_with (rev name) (rev json_suffix).
Definition file_ltb (a b : file) : bool := bytes_ltb (fst a) (fst b).
Definition search_files (dir : list file) : list file :=
  isort file_ltb (filter (fun f => is_json_name (fst f)) dir).

(* process_events: one pass of the reader over the event directory.
   Result: per-file outcomes, directory afterwards, events counted, oracle left. *)
Definition name_in (n : bytes) (l : list bytes) : bool := existsb (beq n) l.
Definition process_events (dir : list file) (o : oracle)
  : option (list file_result * list file * N * oracle) :=
  match process_files (search_files dir) o with
  | None => None
  | Some (frs, removed, n, o') =>
      Some (frs, filter (fun f => negb (name_in (fst f) removed)) dir, n, o')
  end.
End Send.

(* ------------------------------------------------------------------------------------ *)
(* evaluation-only variant: the batch size is carried along instead of re-rendering the whole  *)
(* batch for every added event.  Proved equal to the faithful definitions above                *)
(* (TelemetryProofs.process_events_fast_eq); used by the correspondence check for speed.       *)
(* ------------------------------------------------------------------------------------ *)
Section SendFast.
Context (vm : vmmeta) (env : envinfo).
Fixpoint fill_fast (st : list event) (td : tdata) (sz : N) : tdata * list event * list event :=
  match st with
  | [] => (td, [], [])
  | e :: st' =>
      let t := from_event_log e vm env in
      let sz1 := sz + blen (to_xml_event t) in
      if max_message_size <=? sz1 then
        if event_count td =? 0 then (td, st', [e]) else (td, e :: st', [])
      else fill_fast st' (add_event td t) sz1
  end.
Fixpoint send_loop_fast (fuel : nat) (st : list event) (o : oracle) : option (list round * oracle) :=
  match st with
  | [] => Some ([], o)
  | _ :: _ =>
      match fuel with
      | O => None
      | S f =>
          let '(td, st', dr) := fill_fast st [] (get_size []) in
          let (atts, o') := send_data td o in
          match send_loop_fast f st' o' with
          | None => None
          | Some (rs, o'') => Some (mk_round td dr atts :: rs, o'')
          end
      end
  end.
Definition send_events_fast (evs : list event) (o : oracle) := send_loop_fast (length evs) (rev evs) o.
Fixpoint process_files_fast (files : list file) (o : oracle)
  : option (list file_result * list bytes * N * oracle) :=
  match files with
  | [] => Some ([], [], 0, o)
  | (name, c) :: rest =>
      match c with
      | FEvents evs =>
          match send_events_fast evs o with
          | None => None
          | Some (rs, o') =>
              match process_files_fast rest o' with
              | None => None
              | Some (frs, removed, n, o'') =>
                  Some (mk_fres name (Some rs) :: frs, name :: removed,
                        N.of_nat (length evs) + n, o'')
              end
          end
      | FUnreadable =>
          match process_files_fast rest o with
          | None => None
          | Some (frs, removed, n, o'') =>
              Some (mk_fres name None :: frs, name :: removed, n, o'')
          end
      end
  end.
Definition process_events_fast (dir : list file) (o : oracle)
  : option (list file_result * list file * N * oracle) :=
  match process_files_fast (search_files dir) o with
  | None => None
  | Some (frs, removed, n, o') =>
      Some (frs, filter (fun f => negb (name_in (fst f) removed)) dir, n, o')
  end.
End SendFast.

(* ------------------------------------------------------------------------------------ *)
(* what the host has seen when the reader is stopped (EventReader::start: tokio::select! drops   *)
(* loop_reader at an await point when the cancellation token fires, then only reports STOPPED):  *)
(* a prefix of the POST sequence.  An upload is accepted when the host answered 2xx.            *)
(* ------------------------------------------------------------------------------------ *)
Definition round_posts (r : round) : list (tdata * bool) :=
  map (fun a => (r_batch r, snd a)) (r_attempts r).
Definition post_trace (rs : list round) : list (tdata * bool) := flat_map round_posts rs.
Definition accepted (tr : list (tdata * bool)) : list tevent := flat_map fst (filter snd tr).
(* stopped after the first n POSTs *)
Definition stopped_after (n : nat) (rs : list round) : list (tdata * bool) := firstn n (post_trace rs).

(* ------------------------------------------------------------------------------------ *)
(* a small parser for exactly the document shape emitted (used to state well-formedness) *)
(* ------------------------------------------------------------------------------------ *)
Fixpoint strip_prefix (p s : bytes) : option bytes :=
  match p, s with
  | [], _ => Some s
  | y :: p', x :: s' => if x =? y then strip_prefix p' s' else None
  | _ :: _, [] => None
  end.

(* a CDATA section ends at the FIRST "]]>": split there *)
Fixpoint cdata_split (s : bytes) : option (bytes * bytes) :=
  if starts_with s cdata_end then Some ([], skipn 3 s)
  else match s with
       | [] => None
       | x :: t => match cdata_split t with
                   | Some (a, b) => Some (x :: a, b)
                   | None => None
                   end
       end.

(* an attribute value ends at the first double quote (byte 34); its characters must be legal
   there: no less-than sign, no
   control character (tab, CR and LF would be legal XML but are normalised to spaces, so they do
   not survive as data), '&' only as the start of a predefined entity reference *)
Fixpoint attr_split (s : bytes) : option (bytes * bytes) :=
  match s with
  | [] => None
  | x :: t =>
      if x =? 34 then Some ([], t)
      else match attr_split t with
           | Some (a, b) => Some (x :: a, b)
           | None => None
           end
  end.
Definition attr_char_ok (b : N) : bool := (32 <=? b) && negb (b =? 60) && negb (b =? 34).
Definition attr_value_ok (v : bytes) : bool := forallb attr_char_ok v && amp_ok v.

(* one `<Param Name="n" Value="v" T="t" />` element: (n, v, t) with entity references expanded *)
Definition name_attr : bytes := Eval vm_compute in B"<Param Name=""".
Definition value_attr : bytes := Eval vm_compute in B" Value=""".
Definition type_attr : bytes := Eval vm_compute in B" T=""".
Definition elem_end : bytes := Eval vm_compute in B" />".
Definition parse_attr (intro s : bytes) : option (bytes * bytes) :=
  match strip_prefix intro s with
  | None => None
  | Some r =>
      match attr_split r with
      | None => None
      | Some (v, r') => if attr_value_ok v then Some (unescape v, r') else None
      end
  end.
Definition parse_param (s : bytes) : option ((bytes * bytes * bytes) * bytes) :=
  match parse_attr name_attr s with
  | None => None
  | Some (n, r1) =>
      match parse_attr value_attr r1 with
      | None => None
      | Some (v, r2) =>
          match parse_attr type_attr r2 with
          | None => None
          | Some (t, r3) =>
              match strip_prefix elem_end r3 with
              | None => None
              | Some r4 => Some ((n, v, t), r4)
              end
          end
      end
  end.
(* the content of one CDATA section: a sequence of Param elements and nothing else *)
Fixpoint parse_params_f (fuel : nat) (s : bytes) : option (list (bytes * bytes * bytes)) :=
  match s with
  | [] => Some []
  | _ :: _ =>
      match fuel with
      | O => None
      | S f =>
          match parse_param s with
          | None => None
          | Some (p, r) =>
              match parse_params_f f r with
              | None => None
              | Some ps => Some (p :: ps)
              end
          end
      end
  end.
Definition parse_params (s : bytes) : option (list (bytes * bytes * bytes)) :=
  parse_params_f (length s) s.

(* the document: prolog, TelemetryData/Provider start tags, Event elements each holding exactly
   one CDATA section, end tags, end of input.  Result: the CDATA contents. *)
Fixpoint parse_events_f (fuel : nat) (s : bytes) : option (list bytes) :=
  if beq s data_close then Some []
  else
    match fuel with
    | O => None
    | S f =>
        match strip_prefix event_open s with
        | None => None
        | Some r1 =>
            match cdata_split r1 with
            | None => None
            | Some (c, r2) =>
                match strip_prefix (skipn 3 event_close) r2 with      (* "</Event>" *)
                | None => None
                | Some r3 =>
                    match parse_events_f f r3 with
                    | None => None
                    | Some cs => Some (c :: cs)
                    end
                end
            end
        end
    end.
Definition parse_doc (s : bytes) : option (list bytes) :=
  match strip_prefix data_open s with
  | None => None
  | Some r => parse_events_f (length r) r
  end.

(* document -> for every event, its parameters as (name, value as data, type) *)
Fixpoint all_some {A} (l : list (option A)) : option (list A) :=
  match l with
  | [] => Some []
  | None :: _ => None
  | Some x :: t => match all_some t with Some r => Some (x :: r) | None => None end
  end.
Definition parse_batch (s : bytes) : option (list (list (bytes * bytes * bytes))) :=
  match parse_doc s with
  | None => None
  | Some cs => all_some (map parse_params cs)
  end.

(* what the receiver should read back for one event *)
Definition tev_fields (t : tevent) : list (bytes * bytes * bytes) :=
  map (fun p => (fst p, pval_raw (snd p), pval_type (snd p))) (tev_params t).

(* the text the property quantifies over: no control characters (bytes below 0x20; the C1
   controls U+0080..U+009F are legal XML 1.0 characters and are not excluded) *)
Definition text_ok (s : bytes) : bool := forallb (fun b => 32 <=? b) s.
Definition event_text_ok (e : event) : bool :=
  text_ok (ev_level e) && text_ok (ev_message e) && text_ok (ev_version e) &&
  text_ok (ev_task e) && text_ok (ev_opid e) && text_ok (ev_ts e).
Definition vm_text_ok (vm : vmmeta) : bool :=
  text_ok (vm_container_id vm) && text_ok (vm_tenant_name vm) && text_ok (vm_role_name vm) &&
  text_ok (vm_role_instance_name vm) && text_ok (vm_subscription_id vm) &&
  text_ok (vm_resource_group_name vm) && text_ok (vm_vm_id vm).
Definition env_text_ok (env : envinfo) : bool :=
  text_ok (env_os_version env) && text_ok (env_keyword_name env).

(* position-sensitive checksum used by the correspondence check to compare large bodies
   without printing them *)
Definition cksum (s : bytes) : N * N :=
  fold_left (fun ab x => let a := fst ab + x in (a, snd ab + a)) s (0, 0).

(* observable summary of a run (what the mock host and the directory listing show) *)
Definition round_view (r : round) :=
  (map t_context3 (r_batch r), map ev_opid (r_dropped r),
   map (fun a => (blen (fst a), cksum (fst a), snd a)) (r_attempts r)).
Definition file_view (f : file_result) :=
  (f_name f, match f_rounds f with None => None | Some rs => Some (map round_view rs) end).
