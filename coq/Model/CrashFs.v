(* A file system with crash semantics (DESIGN 2.3), used by C08.
   A file system is a map path -> option content.  The primitive effects the code uses are
   events; a write is a sequence of single-byte appends, so that "a crash after any prefix of the
   event list" covers a crash between any two calls AND inside a write at every byte (whatever
   chunking the implementation uses, the bytes on disk after a partial write are a prefix).
   The crash model is process death: completed events persist.  Definitions only. *)
From GPA Require Export Bytes.

Definition path := bytes.
Definition fsys := path -> option bytes.

Definition fs_empty : fsys := fun _ => None.

Definition fs_set (f : fsys) (p : path) (v : option bytes) : fsys :=
  fun q => if beq q p then v else f q.

Inductive fs_event :=
| FCreate (p : path)            (* open(O_WRONLY|O_CREAT|O_TRUNC) *)
| FWrite (p : path) (b : N)     (* one more byte appended through the open descriptor *)
| FRename (p q : path)          (* rename(2): atomic replace of q *)
| FRemove (p : path).

Definition fs_apply (f : fsys) (e : fs_event) : fsys :=
  match e with
  | FCreate p => fs_set f p (Some [])
  | FWrite p b => match f p with Some c => fs_set f p (Some (c ++ [b])) | None => f end
  | FRename p q => match f p with Some c => fs_set (fs_set f p None) q (Some c) | None => f end
  | FRemove p => fs_set f p None
  end.

Definition fs_run (f : fsys) (es : list fs_event) : fsys := fold_left fs_apply es f.

(* File::create + write_all *)
Definition write_events (p : path) (content : bytes) : list fs_event :=
  FCreate p :: map (FWrite p) content.

(* misc_helpers::json_write_to_file: temp file, then rename over the final name *)
Definition atomic_write_events (tmp final : path) (content : bytes) : list fs_event :=
  write_events tmp content ++ [FRename tmp final].

(* the state after a crash at point n of a run *)
Definition crash_at (f : fsys) (es : list fs_event) (n : nat) : fsys := fs_run f (firstn n es).
