(* SystemWire -- System.v / SystemSeq.v following the code since /repo c9df24c ("do not sign a
   transfer-encoding header that is not sent", finding F3d of C04, found by the System leg).

   Model/Relay.v, Limit.v, Trailers.v and LimitSeq.v -- and therefore System.v / SystemSeq.v, which are
   composed from them -- are stated over Headers.proxy_forward, the forwarding function BEFORE that
   repair.  The repaired handler drops the transfer-encoding header of the head once the collected body
   is empty, BEFORE it signs (Canon.hyper_wire; Headers.proxy_forward_c9 is the repaired forwarding
   function, agents C04/C05).  Nothing else changed: gate, handler decision, collection, exemption, key
   read, response leg and summaries are System.v's.  So the repaired system is System.v with the written
   request RECOMPUTED by [proxy_forward_c9] on the same collected request ([system_step_c9]); the two
   coincide unless a signed request has an empty body (SystemWireProofs.c9_same_unless_empty_signed), and
   the repaired one never writes where System.v does not (c9_no_new_writes) -- which is how the 39
   theorems of Props/System.v carry over.  Definitions only. *)
From GPA.Model Require Export SystemSeq.

Section Wire.
Context (authz : bytes -> N -> claims -> url -> option computed -> auth_result).
Context (mac : bytes -> bytes -> bytes).

(* the request the repaired code writes for a step in which System.v writes one *)
Definition forward_c9 (u : upstream) (E : sys_env) (q : sys_request) : fwd :=
  proxy_forward_c9 mac (audit_of_upstream u) (se_now E) (key_value (se_key E)) (key_guid (se_key E))
                   (collected (sq_req q)).

Definition system_step_c9 (E : sys_env) (C : conn_info) (q : sys_request) : sys_result :=
  let res := system_step_gen authz mac E C q in
  match fst (handled authz E C q), sy_upstream res with
  | Relay u, (ip, port, _) :: _ =>
      match forward_c9 u E q with
      | Forwarded o9 =>
          {| sy_client := sy_client res; sy_upstream := [(ip, port, o9)]; sy_effects := sy_effects res |}
      | BadGateway =>
          (* the authorization value over the repaired head is not a HeaderValue: 502, nothing written *)
          {| sy_client := CLocal status_bad_gateway; sy_upstream := [];
             sy_effects := non_write (snd (handled authz E C q)) |}
      end
  | _, _ => res
  end.

Definition serve_request_c9 (C : conn_state) (r : seq_request) : seq_outcome :=
  let res := system_step_c9 (rq_env r) C (rq_sys r) in
  {| so_result := res; so_upstream := map (with_trailers (rq_trailers r)) (sy_upstream res) |}.

Definition serve_conn_c9 (C : conn_state) (rs : list seq_request) : list seq_outcome :=
  map (serve_request_c9 C) rs.
End Wire.

(* is there anything for the repair to drop: a signed (not exempt) request whose collected body is empty *)
Definition empty_signed (q : sys_request) : bool :=
  negb (should_skip_sig (q_method (sq_req q)) (q_uri (sq_req q))) &&
  match concat (q_frames (sq_req q)) with [] => true | _ => false end.

(* one call for the correspondence check: SystemSeq.seq_case for the repaired code *)
Definition seq_case_c9 (os : os_view) (fail_remove : bool) (m : audit_map) (port : N) (client_ip cmd : bytes)
           (rs : list seq_request) :=
  let C := {| ci_ctx := fst (accept os fail_remove m port); ci_client_ip := client_ip; ci_cmd := cmd |} in
  map (fun ro => outcome_code C (fst ro) (snd ro))
      (combine rs (serve_conn_c9 authorize_at zero_mac C rs)).
