(* C16 -- Provisioning status is truthful under any arrival order.
   Executable model of the provisioning state machinery.  Definitions only; the proofs are in
   Proofs/ProvisionProofs.v, the property theorems in Props/C16.v.  Interleaving semantics: the
   generic Model/Sched.v (tasks whose only scheduling points are actor calls).

   Mirrors
     proxy_agent/src/shared_state/provision_wrapper.rs   the actor loop of ProvisionSharedState::start_new:
        locals provision_state / provision_event_log_threads_initialized / provision_finished_time_tick,
        messages UpdateState (|=), ResetState (&= !), GetState, Set/GetEventLogThreadsInitialized,
        SetProvisionFinished (tick := if finished { now } else { 0 }), GetProvisionFinished;
     proxy_agent/src/provision.rs   update_provision_state (redirector_ready / key_latched /
        listener_started), reset_provision_state (key_latch_ready_state_reset), provision_timeup,
        start_event_threads (only its two actor calls; the tasks it spawns are not modelled),
        write_provision_state, get_provision_failed_state_message, get_provision_state_internal;
     proxy_agent/src/proxy/proxy_server.rs   handle_provision_state_check_request:
        finished := finished_time_tick >= query_time_tick || is_secure_channel_latched();
     proxy_agent/src/shared_state/agent_status_wrapper.rs   get_module_status = GetState + GetStatusMessage
        (two actor calls) and the cut at MAX_STATUS_MESSAGE_LENGTH;
     proxy_agent/src/shared_state/key_keeper_wrapper.rs   Get/SetSecureChannelState,
        update_current_secure_channel_state (read, compare, set).

   THE WORLD is the three actors, the wall clock and the three files of the keys directory.  Every
   processed message is an instant: the clock advances by 4 on each (so that tick-1 / tick+1 are
   never instants of other events).  Time and ticks are Z (the code uses i128 nanoseconds; query
   ticks may be any integer, also <= 0).

   VARIANTS.  [v_atomic]: the actor stamps / zeroes the tick inside UpdateState / ResetState and the
   clients no longer send SetProvisionFinished from those two paths (patches/fix-C16-atomic-tick.diff).
   [v_guard]: the query answers finished only when the tick is non-zero
   (patches/fix-C16-zero-tick-not-finished.diff).  [v_lock]: write_provision_state holds a process-wide
   mutex from before the open of status.tag.tmp until after the rename
   (patches/fix-C16-status-tag-writers.diff); modelled as "the open IS the acquisition, the rename IS
   the release": an open attempted while another writer holds the lock does nothing and the task
   stops there (a blocked waiter is simply a task the scheduler does not run until the lock is free,
   so every real execution is a model execution in which no attempt is refused; the refused attempts
   are extra, harmless behaviours).  [repaired_code] (all three) is the code as it is now and the
   model the check compares with; [original_code] is the tree before the repairs, kept for the
   refutation lemmas.

   GHOST STATE (never read by the modelled code): [w_hist] the history of the flags and of the
   deadline stamps, [w_stale] "a SetProvisionFinished(true) sent by update_provision_state was
   processed while the flags were not ALL_READY" (finding F10), and for the files [w_owner],
   [w_intent], [w_overlap] "a second writer opened status.tag.tmp while another had not renamed it
   yet" (finding F11), [w_pub] the last complete content published by a rename. *)
From Coq Require Import List NArith ZArith Bool Arith.
Import ListNotations.
From GPA Require Export Bytes Consts Sched.

(* ------------------------------------------------------------------------------------------ *)
(* flags                                                                                        *)
(* ------------------------------------------------------------------------------------------ *)
Definition F_R : N := Consts.provision_flag_redirector_ready.
Definition F_K : N := Consts.provision_flag_key_latch_ready.
Definition F_L : N := Consts.provision_flag_listener_ready.
Definition F_ALL : N := Consts.provision_flag_all_ready.

(* bitflags `contains` *)
Definition fcontains (fl m : N) : bool := N.eqb (N.land fl m) m.

Inductive module := MRedirector | MKeyKeeper | MProxyServer.

Definition module_eqb (a b : module) : bool :=
  match a, b with
  | MRedirector, MRedirector | MKeyKeeper, MKeyKeeper | MProxyServer, MProxyServer => true
  | _, _ => false
  end.

(* the flag each line of get_provision_failed_state_message tests, its text, the module it reads *)
Definition mod_flag (m : module) : N :=
  match m with MRedirector => F_R | MKeyKeeper => F_K | MProxyServer => F_L end.
Definition mod_prefix (m : module) : bytes :=
  match m with
  | MRedirector => Consts.provision_line_prefix_redirector_ready
  | MKeyKeeper => Consts.provision_line_prefix_key_latch_ready
  | MProxyServer => Consts.provision_line_prefix_listener_ready
  end.
Definition mod_suffix (m : module) : bytes :=
  match m with
  | MRedirector => Consts.provision_line_suffix_redirector_ready
  | MKeyKeeper => Consts.provision_line_suffix_key_latch_ready
  | MProxyServer => Consts.provision_line_suffix_listener_ready
  end.
Definition all_modules : list module := [MRedirector; MKeyKeeper; MProxyServer].

(* the three `if !provision_state.contains(X)` blocks, in code order *)
Definition missing (fl : N) : list module :=
  filter (fun m => negb (fcontains fl (mod_flag m))) all_modules.

(* get_module_status: message cut at MAX_STATUS_MESSAGE_LENGTH with "..." appended (bytes) *)
Definition cut_message (s : bytes) : bytes :=
  if (Consts.max_status_message_length <? N.of_nat (length s))%N
  then firstn (N.to_nat Consts.max_status_message_length) s ++ [46; 46; 46]%N
  else s.

Definition line (m : module) (status_message : bytes) : bytes :=
  mod_prefix m ++ cut_message status_message ++ mod_suffix m.

(* helpers::xml_escape: ampersand, apostrophe, double quote, less-than, greater-than (the ampersand is replaced first, so it is a per-byte map) *)
Definition escape_byte (b : N) : bytes :=
  if (b =? 38)%N then [38; 97; 109; 112; 59]%N
  else if (b =? 39)%N then [38; 97; 112; 111; 115; 59]%N
  else if (b =? 34)%N then [38; 113; 117; 111; 116; 59]%N
  else if (b =? 60)%N then [38; 108; 116; 59]%N
  else if (b =? 62)%N then [38; 103; 116; 59]%N
  else [b].
Definition xml_escape (s : bytes) : bytes := flat_map escape_byte s.

(* ProvisionStateInternal::is_secure_channel_latched *)
Definition latched (chan : bytes) : bool :=
  negb (beq chan Consts.kk_disable_state) && negb (beq chan Consts.kk_unknown_state).

(* ------------------------------------------------------------------------------------------ *)
(* messages, replies, results                                                                   *)
(* ------------------------------------------------------------------------------------------ *)
Inductive origin := OUpdate | OReset | OTimeup.   (* ghost: which code path sent SetProvisionFinished *)

Inductive msg :=
(* provision actor *)
| UpdateState (f : N) | ResetState (f : N) | GetState
| SetEvtInit | GetEvtInit
| SetFinished (b : bool) (o : origin) | GetFinished
(* agent status actor *)
| GetModState (m : module) | GetModMsg (m : module) | SetModMsg (m : module) (s : bytes)
(* key keeper actor *)
| GetChan | SetChan (c : bytes)
(* the wall clock (ProvisionQuery::new) *)
| ClockRead
(* the kernel: the syscalls of write_provision_state.  std::fs::write = open(O_CREAT|O_TRUNC) +
   write_all + close; write_all is modelled byte by byte (the finest granularity a crash or another
   thread can observe); the buffer is registered with the open file (FsOpenTmp carries it) and
   FsWriteNext writes its next byte at the file offset of THIS descriptor. *)
| FsCreateProvisioned
| FsOpenTmp (content : bytes)
| FsWriteNext (fd : N)
| FsRenameTmpTag.

Inductive reply :=
| RFlags (f : N) | RTick (t : Z) | RBool (b : bool) | RUnit | RBytes (s : bytes) | RFd (fd : N).

Definition as_flags (r : reply) : N := match r with RFlags f => f | _ => 0%N end.
Definition as_tick (r : reply) : Z := match r with RTick t => t | _ => 0%Z end.
Definition as_bool (r : reply) : bool := match r with RBool b => b | _ => false end.
Definition as_bytes (r : reply) : bytes := match r with RBytes s => s | _ => [] end.
Definition as_fd (r : reply) : N := match r with RFd n => n | _ => 0%N end.

(* what a task returns.  RQuery: the answer of a /provision query (finished, errorMessage) plus
   what the query saw (ghost: query tick, finished tick, flags snapshot, latched) *)
Inductive result :=
| RDone
| RQuery (fin : bool) (err : bytes) (q tk : Z) (fl : N) (la : bool).

Record variant := { v_atomic : bool; v_guard : bool; v_lock : bool }.
(* the pinned tree before the three C16 repairs (kept for the refutation lemmas) *)
Definition original_code : variant := {| v_atomic := false; v_guard := false; v_lock := false |}.
(* the code as it is now: /repo e68ce38 (atomic tick), b4d0508 (zero tick never finished),
   3666d88 (writers of status.tag.tmp serialized) -- THE model the check compares the code with *)
Definition repaired_code : variant := {| v_atomic := true; v_guard := true; v_lock := true |}.

(* ------------------------------------------------------------------------------------------ *)
(* the world                                                                                    *)
(* ------------------------------------------------------------------------------------------ *)
Definition hentry : Type := (Z * N * bool)%type.   (* instant, flags from then on, deadline stamp? *)

Record files := {
  f_prov : bool;                       (* provisioned.tag exists *)
  f_tmp : option N;                    (* inode named status.tag.tmp *)
  f_tag : option N;                    (* inode named status.tag *)
  f_data : list (N * bytes);           (* inode -> content *)
  f_fds : list (N * (N * nat * bytes)); (* open descriptor -> inode, offset, buffer being written *)
  f_next : N;                          (* next fresh inode / descriptor number *)
}.

Record world := {
  (* provision actor locals *)
  w_flags : N; w_tick : Z; w_evt : bool;
  (* agent status actor: status messages of the three modules *)
  w_msg : module -> bytes;
  (* key keeper actor: current_secure_channel_state *)
  w_chan : bytes;
  (* clock *)
  w_now : Z;
  (* kernel *)
  w_fs : files;
  (* ghost *)
  w_hist : list hentry;                (* newest first *)
  w_stale : bool;
  w_owner : option nat; w_intent : bytes; w_overlap : bool; w_pub : option bytes;
}.

Fixpoint lookupN {X} (k : N) (l : list (N * X)) : option X :=
  match l with
  | [] => None
  | (k', x) :: tl => if N.eqb k k' then Some x else lookupN k tl
  end.

Definition file_content (fs : files) (name : option N) : option bytes :=
  match name with Some i => lookupN i (f_data fs) | None => None end.
Definition tag_content (w : world) : option bytes := file_content (w_fs w) (f_tag (w_fs w)).
Definition tmp_content (w : world) : option bytes := file_content (w_fs w) (f_tmp (w_fs w)).

(* pwrite of one byte at an offset: overwrite, append, or zero-fill the gap *)
Definition write_at (d : bytes) (off : nat) (b : N) : bytes :=
  if Nat.ltb off (length d) then firstn off d ++ b :: skipn (S off) d
  else d ++ repeat 0%N (off - length d)%nat ++ [b].

Definition set_msg (f : module -> bytes) (m : module) (s : bytes) : module -> bytes :=
  fun m' => if module_eqb m m' then s else f m'.

(* initial world: nothing reported, every status message "Status unknown.", channel state Unknown,
   status.tag optionally present from an earlier run *)
Definition init_files (tag0 : option bytes) : files :=
  match tag0 with
  | Some c => {| f_prov := false; f_tmp := None; f_tag := Some 0%N; f_data := [(0%N, c)];
                 f_fds := []; f_next := 1%N |}
  | None => {| f_prov := false; f_tmp := None; f_tag := None; f_data := []; f_fds := []; f_next := 1%N |}
  end.

Definition init_world (evt : bool) (msgs : module -> bytes) (chan : bytes) (tag0 : option bytes) : world :=
  {| w_flags := 0%N; w_tick := 0%Z; w_evt := evt; w_msg := msgs; w_chan := chan; w_now := 0%Z;
     w_fs := init_files tag0; w_hist := []; w_stale := false;
     w_owner := None; w_intent := []; w_overlap := false; w_pub := tag0 |}.

Definition default_msgs : module -> bytes := fun _ => Consts.unknown_status_message.
Definition world0 : world := init_world false default_msgs Consts.kk_unknown_state None.

(* ------------------------------------------------------------------------------------------ *)
(* the handler: one message, processed atomically                                               *)
(* ------------------------------------------------------------------------------------------ *)
Section Handler.
  Context (v : variant).

  (* provision actor *)
  Definition h_update (w : world) (t : Z) (f : N) : world * reply :=
    let fl := N.lor (w_flags w) f in
    let tk := if v_atomic v && fcontains fl F_ALL then t else w_tick w in
    ({| w_flags := fl; w_tick := tk; w_evt := w_evt w; w_msg := w_msg w; w_chan := w_chan w;
        w_now := t; w_fs := w_fs w; w_hist := (t, fl, false) :: w_hist w; w_stale := w_stale w;
        w_owner := w_owner w; w_intent := w_intent w; w_overlap := w_overlap w; w_pub := w_pub w |},
     RFlags fl).

  Definition h_reset (w : world) (t : Z) (f : N) : world * reply :=
    let fl := N.ldiff (w_flags w) f in
    let tk := if v_atomic v && negb (fcontains fl F_ALL) then 0%Z else w_tick w in
    ({| w_flags := fl; w_tick := tk; w_evt := w_evt w; w_msg := w_msg w; w_chan := w_chan w;
        w_now := t; w_fs := w_fs w; w_hist := (t, fl, false) :: w_hist w; w_stale := w_stale w;
        w_owner := w_owner w; w_intent := w_intent w; w_overlap := w_overlap w; w_pub := w_pub w |},
     RFlags fl).

  Definition is_update (o : origin) : bool := match o with OUpdate => true | _ => false end.
  Definition is_timeup (o : origin) : bool := match o with OTimeup => true | _ => false end.

  Definition h_set_finished (w : world) (t : Z) (b : bool) (o : origin) : world * reply :=
    let tk := if b then t else 0%Z in
    ({| w_flags := w_flags w; w_tick := tk; w_evt := w_evt w; w_msg := w_msg w; w_chan := w_chan w;
        w_now := t; w_fs := w_fs w;
        w_hist := (t, w_flags w, b && is_timeup o) :: w_hist w;
        w_stale := w_stale w || (b && is_update o && negb (fcontains (w_flags w) F_ALL));
        w_owner := w_owner w; w_intent := w_intent w; w_overlap := w_overlap w; w_pub := w_pub w |},
     RTick tk).

  (* anything that only changes the small actors / reads *)
  Definition w_with (w : world) (t : Z) (evt : bool) (msgs : module -> bytes) (chan : bytes) : world :=
    {| w_flags := w_flags w; w_tick := w_tick w; w_evt := evt; w_msg := msgs; w_chan := chan;
       w_now := t; w_fs := w_fs w; w_hist := w_hist w; w_stale := w_stale w;
       w_owner := w_owner w; w_intent := w_intent w; w_overlap := w_overlap w; w_pub := w_pub w |}.
  Definition w_time (w : world) (t : Z) : world := w_with w t (w_evt w) (w_msg w) (w_chan w).

  (* kernel *)
  Definition w_files (w : world) (t : Z) (fs : files) (owner : option nat) (intent : bytes)
             (overlap : bool) (pub : option bytes) : world :=
    {| w_flags := w_flags w; w_tick := w_tick w; w_evt := w_evt w; w_msg := w_msg w; w_chan := w_chan w;
       w_now := t; w_fs := fs; w_hist := w_hist w; w_stale := w_stale w;
       w_owner := owner; w_intent := intent; w_overlap := overlap; w_pub := pub |}.

  Fixpoint set_data (i : N) (d : bytes) (l : list (N * bytes)) : list (N * bytes) :=
    match l with
    | [] => [(i, d)]
    | (k, x) :: tl => if N.eqb i k then (i, d) :: tl else (k, x) :: set_data i d tl
    end.

  Definition h_open_tmp (tid : nat) (w : world) (t : Z) (content : bytes) : world * reply :=
    if v_lock v && match w_owner w with Some _ => true | None => false end
    then (w_time w t, RBool false)       (* the mutex is held by another writer *)
    else
    let fs := w_fs w in
    let fd := f_next fs in
    let '(ino, next) := match f_tmp fs with Some i => (i, (fd + 1)%N) | None => ((fd + 1)%N, (fd + 2)%N) end in
    let fs' := {| f_prov := f_prov fs; f_tmp := Some ino; f_tag := f_tag fs;
                  f_data := set_data ino [] (f_data fs);
                  f_fds := (fd, (ino, O, content)) :: f_fds fs; f_next := next |} in
    (w_files w t fs' (Some tid) content
             (w_overlap w || match w_owner w with Some _ => true | None => false end) (w_pub w),
     RFd fd).

  Definition h_write_next (w : world) (t : Z) (fd : N) : world * reply :=
    let fs := w_fs w in
    match lookupN fd (f_fds fs) with
    | Some (ino, off, buf) =>
        match nth_error buf off with
        | Some b =>
            let d := match lookupN ino (f_data fs) with Some d => d | None => [] end in
            let fs' := {| f_prov := f_prov fs; f_tmp := f_tmp fs; f_tag := f_tag fs;
                          f_data := set_data ino (write_at d off b) (f_data fs);
                          f_fds := (fd, (ino, S off, buf)) :: f_fds fs; f_next := f_next fs |} in
            (w_files w t fs' (w_owner w) (w_intent w) (w_overlap w) (w_pub w), RUnit)
        | None => (w_time w t, RUnit)
        end
    | None => (w_time w t, RUnit)
    end.

  Definition h_rename (w : world) (t : Z) : world * reply :=
    let fs := w_fs w in
    match f_tmp fs with
    | Some i =>
        let fs' := {| f_prov := f_prov fs; f_tmp := None; f_tag := Some i; f_data := f_data fs;
                      f_fds := f_fds fs; f_next := f_next fs |} in
        (w_files w t fs' None (w_intent w) (w_overlap w) (Some (w_intent w)), RBool true)
    | None => (w_files w t fs None (w_intent w) (w_overlap w) (w_pub w), RBool false)   (* ENOENT *)
    end.

  Definition handle (tid : nat) (w : world) (m : msg) : world * reply :=
    let t := (w_now w + 4)%Z in
    match m with
    | UpdateState f => h_update w t f
    | ResetState f => h_reset w t f
    | GetState => (w_time w t, RFlags (w_flags w))
    | SetEvtInit => (w_with w t true (w_msg w) (w_chan w), RUnit)
    | GetEvtInit => (w_time w t, RBool (w_evt w))
    | SetFinished b o => h_set_finished w t b o
    | GetFinished => (w_time w t, RTick (w_tick w))
    | GetModState _ => (w_time w t, RUnit)
    | GetModMsg md => (w_time w t, RBytes (w_msg w md))
    | SetModMsg md s => (w_with w t (w_evt w) (set_msg (w_msg w) md s) (w_chan w), RBool (negb (beq (w_msg w md) s)))
    | GetChan => (w_time w t, RBytes (w_chan w))
    | SetChan c => (w_with w t (w_evt w) (w_msg w) c, RUnit)
    | ClockRead => (w_time w t, RTick t)
    | FsCreateProvisioned =>
        let fs := w_fs w in
        (w_files w t {| f_prov := true; f_tmp := f_tmp fs; f_tag := f_tag fs; f_data := f_data fs;
                        f_fds := f_fds fs; f_next := f_next fs |}
                 (w_owner w) (w_intent w) (w_overlap w) (w_pub w), RUnit)
    | FsOpenTmp content => h_open_tmp tid w t content
    | FsWriteNext fd => h_write_next w t fd
    | FsRenameTmpTag => h_rename w t
    end.
End Handler.

(* file system syscalls are not await points: a hand-polled future runs through them *)
Definition is_sync (m : msg) : bool :=
  match m with
  | FsCreateProvisioned | FsOpenTmp _ | FsWriteNext _ | FsRenameTmpTag => true
  | _ => false
  end.

(* ------------------------------------------------------------------------------------------ *)
(* the client code                                                                              *)
(* ------------------------------------------------------------------------------------------ *)
Notation pprog := (prog msg reply result).

Section Programs.
  Context (v : variant).

  (* provision.rs start_event_threads: GetEventLogsThreadsInitialized; if not yet, (spawn the event
     logger / reader / status tasks -- not modelled) SetEventLogThreadsInitialized *)
  Definition p_start_event_threads (k : pprog) : pprog :=
    Call GetEvtInit (fun r => if as_bool r then k else Call SetEvtInit (fun _ => k)).

  (* the lines of get_provision_failed_state_message for the modules in [ms] *)
  Fixpoint p_lines (ms : list module) (acc : bytes) (k : bytes -> pprog) : pprog :=
    match ms with
    | [] => k acc
    | m :: ms' =>
        Call (GetModState m) (fun _ =>
        Call (GetModMsg m) (fun r => p_lines ms' (acc ++ line m (as_bytes r)) k))
    end.

  (* provision.rs get_provision_failed_state_message: ONE flags snapshot, then the lines *)
  Definition p_failed_msg (k : N -> bytes -> pprog) : pprog :=
    Call GetState (fun r => let fl := as_flags r in p_lines (missing fl) [] (k fl)).

  Fixpoint p_write_loop (fd : N) (n : nat) (k : pprog) : pprog :=
    match n with
    | O => Call FsRenameTmpTag (fun _ => k)
    | S n' => Call (FsWriteNext fd) (fun _ => p_write_loop fd n' k)
    end.

  (* provision.rs write_provision_state *)
  Definition p_write_state (k : pprog) : pprog :=
    Call FsCreateProvisioned (fun _ =>
    p_failed_msg (fun _ m =>
      let content := match m with [] => [] | _ => xml_escape m end in
      Call (FsOpenTmp content) (fun r =>
        match r with
        | RFd fd => p_write_loop fd (length content) k
        | _ => Ret RDone          (* lock not obtained: see [v_lock] above *)
        end))).

  (* provision.rs update_provision_state (redirector_ready / key_latched / listener_started) *)
  Definition p_update (f : N) : pprog :=
    Call (UpdateState f) (fun r =>
      if fcontains (as_flags r) F_ALL then
        let rest := p_write_state (p_start_event_threads (Ret RDone)) in
        if v_atomic v then rest else Call (SetFinished true OUpdate) (fun _ => rest)
      else Ret RDone).

  (* provision.rs key_latch_ready_state_reset = reset_provision_state(KEY_LATCH_READY) *)
  Definition p_reset : pprog :=
    Call (ResetState F_K) (fun r =>
      if v_atomic v then Ret RDone
      else Call (SetFinished (fcontains (as_flags r) F_ALL) OReset) (fun _ => Ret RDone)).

  (* provision.rs provision_timeup *)
  Definition p_timeup : pprog :=
    Call GetState (fun r =>
      if fcontains (as_flags r) F_ALL then Ret RDone
      else Call (SetFinished true OTimeup) (fun _ => p_write_state (Ret RDone))).

  (* proxy_server.rs handle_provision_state_check_request over provision.rs get_provision_state_internal *)
  Definition finished_formula (tk q : Z) (la : bool) : bool :=
    ((if v_guard v then negb (tk =? 0)%Z else true) && (q <=? tk)%Z) || la.

  Definition p_query_body (q : Z) : pprog :=
    Call GetFinished (fun r1 => let tk := as_tick r1 in
    p_failed_msg (fun fl err =>
    Call GetChan (fun r3 => let la := latched (as_bytes r3) in
    Ret (RQuery (finished_formula tk q la) err q tk fl la)))).

  (* how the query tick is chosen: a given integer, the clock at creation (ProvisionQuery::new), or
     the current finished tick plus an offset (boundary probes) *)
  Inductive qkind := QConst (q : Z) | QNow | QTick (d : Z).

  Definition p_query (k : qkind) : pprog :=
    match k with
    | QConst q => Call ClockRead (fun _ => p_query_body q)
    | QNow => Call ClockRead (fun r => p_query_body (as_tick r))
    | QTick d => Call GetFinished (fun r => p_query_body (as_tick r + d)%Z)
    end.

  (* key_keeper_wrapper.rs update_current_secure_channel_state *)
  Definition p_setchan (c : bytes) : pprog :=
    Call GetChan (fun r => if beq (as_bytes r) c then Ret RDone else Call (SetChan c) (fun _ => Ret RDone)).

  (* agent_status_wrapper.rs set_module_status_message *)
  Definition p_setmsg (m : module) (s : bytes) : pprog :=
    Call (SetModMsg m s) (fun _ => Ret RDone).

  Inductive op :=
  | OpReport (f : N)      (* redirector_ready = OpReport F_R, key_latched = F_K, listener_started = F_L *)
  | OpReset               (* key_latch_ready_state_reset *)
  | OpTimeup              (* provision_timeup *)
  | OpQuery (k : qkind)
  | OpSetChan (c : bytes)
  | OpSetMsg (m : module) (s : bytes).

  Definition prog_of (o : op) : pprog :=
    match o with
    | OpReport f => p_update f
    | OpReset => p_reset
    | OpTimeup => p_timeup
    | OpQuery k => p_query k
    | OpSetChan c => p_setchan c
    | OpSetMsg m s => p_setmsg m s
    end.
End Programs.

(* ------------------------------------------------------------------------------------------ *)
(* systems and what is observed of them                                                         *)
(* ------------------------------------------------------------------------------------------ *)
Notation pconfig := (config world msg reply result).

Definition start (v : variant) (w : world) (ops : list op) : pconfig := init w (map (prog_of v) ops).

Definition prun (v : variant) (c : pconfig) (sched : list nat) : pconfig := run (handle v) c sched.

(* a bound on the synchronous calls inside one poll that is never reached: a status message is cut
   at MAX_STATUS_MESSAGE_LENGTH, escaping multiplies by at most 6 *)
Definition poll_bound : positive := 65536%positive.

Definition ppoll (v : variant) (c : pconfig) (t : nat) : pconfig := fst (poll_p (handle v) is_sync poll_bound c t).

(* snapshots (flags, tick, clock) after each hand-polled step *)
Fixpoint poll_snapshots (v : variant) (c : pconfig) (sched : list nat) : list (N * Z * Z) * pconfig :=
  match sched with
  | [] => ([], c)
  | t :: tl =>
      let c' := ppoll v c t in
      let '(l, cf) := poll_snapshots v c' tl in
      ((w_flags (shared c'), w_tick (shared c'), w_now (shared c')) :: l, cf)
  end.

(* number of await points (asynchronous calls) task t went through *)
Definition awaits_of (t : nat) (tr : list (event msg reply)) : nat :=
  length (filter (fun e => Nat.eqb (ev_tid e) t && negb (is_sync (ev_msg e))) tr).

Record observation := {
  o_snaps : list (N * Z * Z);
  o_results : list (option result);
  o_awaits : list nat;
  o_prov : bool; o_tmp : option bytes; o_tag : option bytes;
  o_evt : bool; o_stale : bool; o_overlap : bool;
}.

Definition observe (v : variant) (w : world) (ops : list op) (sched : list nat) : observation :=
  let '(snaps, c) := poll_snapshots v (start v w ops) sched in
  {| o_snaps := snaps;
     o_results := map (fun t => result_of c t) (seq 0 (length ops));
     o_awaits := map (fun t => awaits_of t (trace c)) (seq 0 (length ops));
     o_prov := f_prov (w_fs (shared c)); o_tmp := tmp_content (shared c); o_tag := tag_content (shared c);
     o_evt := w_evt (shared c); o_stale := w_stale (shared c); o_overlap := w_overlap (shared c) |}.

(* ------------------------------------------------------------------------------------------ *)
(* the history predicates the property talks about                                              *)
(* ------------------------------------------------------------------------------------------ *)
(* flags in effect at instant t *)
Fixpoint flags_at (h : list hentry) (t : Z) : N :=
  match h with
  | [] => 0%N
  | (t0, fl, _) :: h' => if (t0 <=? t)%Z then fl else flags_at h' t
  end.

(* "the redirector, key latch and listener have all reported ready" holds at instant t *)
Definition all_ready_at (h : list hentry) (t : Z) : bool := fcontains (flags_at h t) F_ALL.

(* "the provisioning deadline passed": the deadline handler stamped at instant t *)
Definition timeup_at (h : list hentry) (t : Z) : bool :=
  existsb (fun e => Z.eqb (fst (fst e)) t && snd e) h.

(* the property's condition for a query naming instant q, evaluated in world w *)
Definition justified_since (w : world) (q : Z) : Prop :=
  exists t, (q <= t <= w_now w)%Z /\ (all_ready_at (w_hist w) t = true \/ timeup_at (w_hist w) t = true).

Definition truthful (w : world) (r : result) : Prop :=
  match r with
  | RQuery true _ q _ _ la => la = true \/ justified_since w q
  | _ => True
  end.

(* the error text the property demands for a flags snapshot and the status messages read *)
Definition error_text (fl : N) (status : module -> bytes) : bytes :=
  flat_map (fun m => line m (status m)) (missing fl).

(* ------------------------------------------------------------------------------------------ *)
(* known-finding classes (DESIGN 1.4): computed by the model's ghost state on an input          *)
(* ------------------------------------------------------------------------------------------ *)
(* F10: some update_provision_state stamped the tick after a reset had already cleared a flag *)
Definition KnownClass_C16_stale_stamp (v : variant) (w : world) (ops : list op) (sched : list nat) : bool :=
  w_stale (shared (prun v (start v w ops) sched)).
(* F12: the query names an instant at or before the epoch (missing / unparsable header = 0) *)
Definition KnownClass_C16_nonpositive_query_tick (q : Z) : bool := (q <=? 0)%Z.
(* F11: two writers of status.tag.tmp overlapped *)
Definition KnownClass_C16_overlapping_writers (v : variant) (w : world) (ops : list op) (sched : list nat) : bool :=
  w_overlap (shared (prun v (start v w ops) sched)).
