(* C05 -- model of the "Add required headers" block of the proxy listener and of the header
   maps it works on.  Definitions only; proofs are in Proofs/HeadersProofs.v.

   Mirrors, statement by statement:
     proxy_agent/src/proxy.rs                Claims::from_audit_entry   (runAsElevated: entry.is_admin == 1)
     proxy_agent/src/proxy/proxy_server.rs   handle_new_http_request, from "Add required headers"
                                             to the should_skip_sig branch (two HeaderMap::insert
                                             calls, HeaderValue::from_str failures answer 502),
                                             then convert_request+send (exempt) or
                                             handle_request_with_signature (Canon.sign_and_forward)

   Built on Model/Canon.v (agent C04): [headers], [hm_insert], [hm_get_all], [request], [relay],
   [sign_and_forward], [should_skip_sig], [header_value_ok], [auth_header], [auth_value].

   Library behaviour that is modelled, not verified (DESIGN 2.5) -- ASSUMPTIONS, tied by execution:
   * hyper's server parser lower-cases every header name (http::HeaderName) and appends the
     fields to an http::HeaderMap in wire order ([of_wire]); a HeaderMap iterates name by name
     in order of first insertion, all values of one name together ([hm_append_g]);
   * HeaderMap::insert(name, v) removes every value stored under the name and stores exactly
     one, at the position of the first ([Canon.hm_insert]);
   * hyper's client writes the map in iteration order. *)
From GPA Require Export Canon.

(* ---------------------------------------------------------------------------------------- *)
(* the attribution record and the claims text                                                *)
(* ---------------------------------------------------------------------------------------- *)
(* redirector::AuditEntry as delivered by lookup_audit (the eBPF program wrote it at connect()
   time; the client cannot influence it through the request) *)
Record audit := {
  a_logon_id : N;
  a_process_id : N;
  a_is_admin : Z;               (* i32 *)
  a_destination_ipv4 : N;
  a_destination_port : N;
}.

(* Claims::from_audit_entry: runAsElevated: entry.is_admin == 1 *)
Definition run_as_elevated (a : audit) : bool := Z.eqb (a_is_admin a) 1.

(* Rust's Display for bool *)
Definition bool_text (b : bool) : bytes :=
  if b then [116; 114; 117; 101] else [102; 97; 108; 115; 101].

(* format!("{{ \"{}\": \"{}\"}}", constants::CLAIMS_IS_ROOT, claims.runAsElevated) *)
Definition claims_text (elevated : bool) : bytes :=
  [123; 32; 34] ++ Consts.claims_is_root ++ [34; 58; 32; 34] ++ bool_text elevated ++ [34; 125].

Definition claims_header : bytes := Consts.claims_header.
Definition date_header : bytes := Consts.date_header.

(* the three names the proxy owns on the request leg *)
Definition owned (n : bytes) : bool :=
  beq n claims_header || beq n date_header || beq n auth_header.

(* ---------------------------------------------------------------------------------------- *)
(* the header map hyper builds from the client's header lines                                *)
(* ---------------------------------------------------------------------------------------- *)
(* HeaderMap::append seen through iteration order: a further value of a name that is already
   present is listed after the last value of that name, a new name goes to the end *)
Fixpoint hm_append_g (n v : bytes) (hs : headers) : headers :=
  match hs with
  | [] => [(n, v)]
  | h :: t =>
      if beq n (fst h) && negb (existsb (fun x => beq n (fst x)) t)
      then h :: (n, v) :: t
      else h :: hm_append_g n v t
  end.

(* wire header lines (name in the client's letter case, value) -> HeaderMap *)
Definition of_wire (wire : list (bytes * bytes)) : headers :=
  fold_left (fun hs h => hm_append_g (lower (fst h)) (snd h) hs) wire [].

(* the values the client sent under a name, any letter case, in wire order *)
Definition wire_values (n : bytes) (wire : list (bytes * bytes)) : list bytes :=
  map snd (filter (fun h => beq n (lower (fst h))) wire).

(* ---------------------------------------------------------------------------------------- *)
(* "Add required headers"                                                                    *)
(* ---------------------------------------------------------------------------------------- *)
(* the two inserts; [now] is misc_helpers::get_date_time_rfc1123_string().  A value that is not
   a legal HeaderValue answers 502 before anything is sent (None). *)
Definition add_required_headers (elevated : bool) (now : bytes) (hs : headers) : option headers :=
  if header_value_ok (claims_text elevated) then
    let hs1 := hm_insert claims_header (claims_text elevated) hs in
    if header_value_ok now then Some (hm_insert date_header now hs1) else None
  else None.

(* appending instead of inserting -- NOT what the code does; kept to show that the theorems
   distinguish the two (HeadersProofs.append_would_duplicate) *)
Definition add_required_headers_append (elevated : bool) (now : bytes) (hs : headers) : headers :=
  hm_append_g date_header now (hm_append_g claims_header (claims_text elevated) hs).

(* a client request as the handler receives it from hyper *)
Record client_request := {
  c_method : bytes;
  c_uri : uri;
  c_wire : list (bytes * bytes);     (* header lines as sent *)
  c_body : bytes;                    (* the collected body *)
}.

Section Forward.
Context (mac : bytes -> bytes -> bytes).

(* handle_new_http_request from "Add required headers" on, for an authorized request whose
   attribution record is [a]:  the request that goes upstream, or 502.
   [key_value]/[key_guid]: get_current_key_value / get_current_key_guid. *)
Definition proxy_forward (a : audit) (now : bytes) (key_value key_guid : option bytes)
           (c : client_request) : fwd :=
  match add_required_headers (run_as_elevated a) now (of_wire (c_wire c)) with
  | None => BadGateway
  | Some hs =>
      relay mac key_value key_guid
            {| r_method := c_method c; r_uri := c_uri c; r_headers := hs; r_body := c_body c |}
  end.

(* the request is signed: not exempt, both key parts present, the key decodes *)
Definition is_signed (key_value key_guid : option bytes) (c : client_request) : bool :=
  negb (should_skip_sig (c_method c) (c_uri c)) &&
  match key_value, key_guid with
  | Some k, Some _ => match hex_decode k with Some _ => true | None => false end
  | _, _ => false
  end.
End Forward.

(* ---------------------------------------------------------------------------------------- *)
(* one call for the correspondence check: the header list the host must receive (owned
   names with the proxy's values; the MAC itself is checked by C04, here the authorization
   value is reported as scheme/guid only)                                                    *)
(* ---------------------------------------------------------------------------------------- *)
Definition zero_mac (_ _ : bytes) : bytes := [].

(* ---------------------------------------------------------------------------------------- *)
(* the code since /repo c9df24c ("do not sign a transfer-encoding header that is not sent")   *)
(* ---------------------------------------------------------------------------------------- *)
(* handle_request_with_signature now drops the transfer-encoding header of the head once the
   collected body is empty, BEFORE it signs (Canon.hyper_wire, agent C04's finding F3d: hyper's
   client does not write that header for an empty body, so the signed string named a header the
   host never received).  The exempt branch (convert_request) is unchanged.  [proxy_forward]
   above is the code before that repair and is kept because Relay / Limit / System are stated
   over it; the two differ only in that one framing header of an empty-bodied non-exempt request
   and hence in the string that is signed (HeadersWireProofs). *)
Section ForwardC9.
Context (mac : bytes -> bytes -> bytes).

Definition relay_c9 (key_value key_guid : option bytes) (req : request) : fwd :=
  if should_skip_sig (r_method req) (r_uri req) then Forwarded req
  else sign_and_forward mac key_value key_guid (hyper_wire req).

Definition proxy_forward_c9 (a : audit) (now : bytes) (key_value key_guid : option bytes)
           (c : client_request) : fwd :=
  match add_required_headers (run_as_elevated a) now (of_wire (c_wire c)) with
  | None => BadGateway
  | Some hs =>
      relay_c9 key_value key_guid
               {| r_method := c_method c; r_uri := c_uri c; r_headers := hs; r_body := c_body c |}
  end.
End ForwardC9.

Definition c05_case (is_admin : Z) (now : bytes) (key_value key_guid : option bytes)
           (m path : bytes) (q : option bytes) (wire : list (bytes * bytes)) (body : bytes) :=
  let a := {| a_logon_id := 0; a_process_id := 0; a_is_admin := is_admin;
              a_destination_ipv4 := 0; a_destination_port := 0 |} in
  let u := {| u_path := path; u_query := q |} in
  let c := {| c_method := m; c_uri := u; c_wire := wire; c_body := body |} in
  match proxy_forward_c9 zero_mac a now key_value key_guid c with
  | Forwarded out =>
      Some (r_headers out, is_signed key_value key_guid c,
            (* the string the proxy MACs when it signs: the request with the two required
               headers in place and, for an empty body, without its transfer-encoding header
               (HeadersWireProofs.c9_auth_replaced_when_signed) *)
            if is_signed key_value key_guid c then
              match add_required_headers (run_as_elevated a) now (of_wire wire) with
              | Some hs => request_sig_input (hyper_wire {| r_method := m; r_uri := u; r_headers := hs; r_body := body |})
              | None => []
              end
            else [])
  | BadGateway => None
  end.
