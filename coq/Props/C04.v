(* C04 -- Relayed requests carry a valid HMAC over exactly what the host receives.
   Property theorems only: each is closed by [exact lemma] and followed by Print Assumptions.
   Model: Model/Canon.v (tied to proxy_agent/src/common/hyper_client.rs, helpers.rs and
   proxy/proxy_server.rs by the correspondence check tools/checks/c04.py).
   [mac] is HMAC-SHA256 as an arbitrary function: nothing is assumed about it. *)
From GPA Require Import Canon CanonProofs.
From Coq Require Import Permutation.

(* ---------------------------------------------------------------------------------------- *)
(* sign what you send                                                                        *)
(* ---------------------------------------------------------------------------------------- *)

(* proxied route: whatever handle_request_with_signature forwards has the same canonical
   string as the request whose string was MAC'd; method, target and body go out unchanged *)
Theorem C04_signed_is_sent :
  forall (mac : bytes -> bytes -> bytes) (key_value key_guid : option bytes) (req out : request),
  sign_and_forward mac key_value key_guid req = Forwarded out ->
  request_sig_input out = request_sig_input req /\
  r_method out = r_method req /\ r_uri out = r_uri req /\ r_body out = r_body req.
Proof. exact signed_is_sent. Qed.
Print Assumptions C04_signed_is_sent.

(* with a latched (hex) key the forwarded request carries exactly one authorization header,
   `Azure-HMAC-SHA256 <guid> <hex MAC>`, and the MAC is over the canonical string of the
   request AS FORWARDED *)
Theorem C04_header_shape :
  forall (mac : bytes -> bytes -> bytes) (key guid kb : bytes) (req out : request),
  sign_and_forward mac (Some key) (Some guid) req = Forwarded out ->
  hex_decode key = Some kb ->
  hm_get_all auth_header (r_headers out) =
  [auth_scheme ++ [32] ++ guid ++ [32] ++ hex_encode (mac kb (request_sig_input out))].
Proof. exact header_shape. Qed.
Print Assumptions C04_header_shape.

(* the same for the handler's current form, which reads (guid, value) as ONE pair from the key
   keeper (/repo a01dbe0) *)
Theorem C04_signed_is_sent_pair :
  forall (mac : bytes -> bytes -> bytes) (key : option (bytes * bytes)) (req out : request),
  sign_and_forward_pair mac key req = Forwarded out ->
  request_sig_input out = request_sig_input req /\
  r_method out = r_method req /\ r_uri out = r_uri req /\ r_body out = r_body req.
Proof. exact signed_is_sent_pair. Qed.
Print Assumptions C04_signed_is_sent_pair.

Theorem C04_header_shape_pair :
  forall (mac : bytes -> bytes -> bytes) (guid key kb : bytes) (req out : request),
  sign_and_forward_pair mac (Some (guid, key)) req = Forwarded out ->
  hex_decode key = Some kb ->
  hm_get_all auth_header (r_headers out) =
  [auth_scheme ++ [32] ++ guid ++ [32] ++ hex_encode (mac kb (request_sig_input out))].
Proof. exact header_shape_pair. Qed.
Print Assumptions C04_header_shape_pair.

(* what is signed is what the host RECEIVES, framing included: hyper's client writes a request with an empty body
   without its transfer-encoding header ([hyper_wire]); the repaired handler (patches/fix-C04-empty-chunked-body)
   drops that header before signing, so the forwarded request is a fixed point of [hyper_wire] and the one
   authorization header is a MAC over the canonical string of the request as it arrives *)
Theorem C04_signed_is_received :
  forall (mac : bytes -> bytes -> bytes) (key : option (bytes * bytes)) (req out : request),
  handle_signed mac key req = Forwarded out ->
  hyper_wire out = out /\ request_sig_input out = request_sig_input (hyper_wire req).
Proof. exact handle_signed_is_received. Qed.
Print Assumptions C04_signed_is_received.

Theorem C04_received_header_shape :
  forall (mac : bytes -> bytes -> bytes) (guid key kb : bytes) (req out : request),
  handle_signed mac (Some (guid, key)) req = Forwarded out ->
  hex_decode key = Some kb ->
  hm_get_all auth_header (r_headers (hyper_wire out)) =
  [auth_scheme ++ [32] ++ guid ++ [32] ++ hex_encode (mac kb (request_sig_input (hyper_wire out)))].
Proof. exact handle_signed_shape. Qed.
Print Assumptions C04_received_header_shape.

(* the defect that was repaired: signing the head as it came ([sign_and_forward_pair] without the drop) leaves a
   request whose wire form has a DIFFERENT canonical string -- chunked framing, empty body *)
Theorem C04_unrepaired_empty_chunked_refuted :
  exists (req out : request),
    sign_and_forward_pair (fun _ _ => []) (Some ([103], [48; 48])) req = Forwarded out /\
    request_sig_input (hyper_wire out) <> request_sig_input out.
Proof.
  exists {| r_method := [80]; r_uri := {| u_path := [47]; u_query := None |};
            r_headers := [(transfer_encoding_header, [99])]; r_body := [] |}.
  eexists. split; [vm_compute; reflexivity|]. vm_compute. discriminate.
Qed.
Print Assumptions C04_unrepaired_empty_chunked_refuted.

(* every other header is forwarded as it came *)
Theorem C04_other_headers_untouched :
  forall (mac : bytes -> bytes -> bytes) (key_value key_guid : option bytes) (req out : request)
         (n : bytes),
  sign_and_forward mac key_value key_guid req = Forwarded out -> beq n auth_header = false ->
  hm_get_all n (r_headers out) = hm_get_all n (r_headers req).
Proof. exact forward_other_headers. Qed.
Print Assumptions C04_other_headers_untouched.

(* a non-exempt request is always handed to the signing step; an exempt one is never touched *)
Theorem C04_relay_signs_unless_exempt :
  forall (mac : bytes -> bytes -> bytes) (key_value key_guid : option bytes) (req : request),
  (should_skip_sig (r_method req) (r_uri req) = false ->
   relay mac key_value key_guid req = sign_and_forward mac key_value key_guid req) /\
  (should_skip_sig (r_method req) (r_uri req) = true ->
   relay mac key_value key_guid req = Forwarded req).
Proof. intros. split; [apply relay_not_exempt|apply relay_exempt]. Qed.
Print Assumptions C04_relay_signs_unless_exempt.

(* the agent's own calls (build_request): one authorization header of the same shape, MAC over
   the canonical string of the request as built, provided the caller's header map does not
   itself name the authorization header (Builder::header appends) *)
Theorem C04_own_calls_signed_as_sent :
  forall (mac : bytes -> bytes -> bytes) (now m host : bytes) (u : uri) (hs : headers)
         (body : option bytes) (g k kb : bytes) (out : request),
  build_request mac now m host u hs body (Some g) (Some k) = Some out ->
  hex_decode k = Some kb ->
  hm_get_all auth_header (own_base_headers now host body ++ map header_entry hs) = [] ->
  hm_get_all auth_header (r_headers out) =
    [auth_value g (hex_encode (mac kb (request_sig_input out)))] /\
  r_method out = m /\ r_uri out = u /\
  r_body out = match body with Some x => x | None => [] end.
Proof. exact build_request_signed. Qed.
Print Assumptions C04_own_calls_signed_as_sent.

(* ---------------------------------------------------------------------------------------- *)
(* exemptions                                                                                *)
(* ---------------------------------------------------------------------------------------- *)
(* re-proved against the (method, url) pairs regenerated from should_skip_sig's source *)
Theorem C04_exemptions_exact :
  forall (m : bytes) (u : uri),
  should_skip_sig m u = true <->
  (m = Lit.lit_PUT /\ lower (uri_to_string u) = Lit.lit_vmagentlog) \/
  (m = Lit.lit_POST /\ lower (uri_to_string u) = Lit.lit_telemetrydata).
Proof. exact Lit.exemptions_exact. Qed.
Print Assumptions C04_exemptions_exact.

(* ---------------------------------------------------------------------------------------- *)
(* the two signing routes                                                                    *)
(* ---------------------------------------------------------------------------------------- *)
Theorem C04_two_routes_agree :
  forall (m b : bytes) (hs : headers) (u : uri),
  request_to_sign_input {| b_method := Some m; b_headers := Some hs; b_uri := Some u |} (Some b)
    = Some (as_sig_input m b hs u) /\
  request_to_sign_input {| b_method := Some m; b_headers := Some hs; b_uri := Some u |} None
    = Some (as_sig_input m [] hs u).
Proof. intros. split; [apply routes_agree|apply routes_agree_no_body]. Qed.
Print Assumptions C04_two_routes_agree.

(* the one place where they differ is the `None => LF` branch (a builder without headers) ... *)
Theorem C04_two_routes_differ_without_headers :
  forall (m b : bytes) (u : uri),
  request_to_sign_input {| b_method := Some m; b_headers := None; b_uri := Some u |} (Some b)
  <> Some (as_sig_input m b [] u).
Proof. exact routes_differ_without_headers. Qed.
Print Assumptions C04_two_routes_differ_without_headers.

(* ... which the agent's own calls never reach: build_request always sets four headers *)
Theorem C04_own_calls_always_have_headers :
  forall (mac : bytes -> bytes -> bytes) (now m host : bytes) (u : uri) (hs : headers)
         (body kg k : option bytes) (out : request),
  build_request mac now m host u hs body kg k = Some out ->
  In Consts.date_header (map fst (r_headers out)) /\
  In host_header (map fst (r_headers out)) /\
  In Consts.claims_header (map fst (r_headers out)) /\
  In content_length_header (map fst (r_headers out)).
Proof. exact own_calls_always_have_headers. Qed.
Print Assumptions C04_own_calls_always_have_headers.

(* ---------------------------------------------------------------------------------------- *)
(* the canonical string does not depend on presentation                                      *)
(* ---------------------------------------------------------------------------------------- *)
(* headers: any order (when no signed name is repeated), any name case, any surrounding
   blanks / tabs -- for every value, valid UTF-8 or not *)
Theorem C04_canon_headers_permutation_invariant :
  forall (m b : bytes) (u : uri) (hs hs' hs'' : headers),
  repeated_header_name hs = false ->
  Permutation hs hs' ->
  Forall2 (fun h h' => lower (fst h) = lower (fst h') /\ padded (snd h) (snd h')) hs' hs'' ->
  as_sig_input m b hs u = as_sig_input m b hs'' u.
Proof. exact sig_input_headers_invariant. Qed.
Print Assumptions C04_canon_headers_permutation_invariant.

(* known finding F3(b): with a repeated name the order matters (only the last value is signed) *)
Theorem C04_canon_headers_order_refuted :
  exists hs hs' : headers,
    KnownClass_C04_repeated_header_name hs = true /\
    Permutation hs hs' /\ canon_headers hs <> canon_headers hs'.
Proof. exact Lit.header_order_refuted. Qed.
Print Assumptions C04_canon_headers_order_refuted.

(* query: any two query strings whose parameters agree as multisets of (lower key, value) --
   any order, any key case, empty segments, `k` vs `k=` -- give the same string, when no two
   sort keys lower(key)++value collide *)
Theorem C04_canon_query_permutation_invariant :
  forall (m b : bytes) (hs : headers) (p : bytes) (q q' : option bytes),
  kv_collision (query_pairs q) = false ->
  Permutation (qnorm_multiset (query_pairs q)) (qnorm_multiset (query_pairs q')) ->
  as_sig_input m b hs {| u_path := p; u_query := q |} =
  as_sig_input m b hs {| u_path := p; u_query := q' |}.
Proof. exact sig_input_query_invariant. Qed.
Print Assumptions C04_canon_query_permutation_invariant.

(* known finding F3(a): ?a=bc&ab=c signs ab=c, ?ab=c&a=bc signs a=bc *)
Theorem C04_canon_query_order_refuted :
  exists q q' : option bytes,
    KnownClass_C04_kv_collision q = true /\
    Permutation (query_pairs q) (query_pairs q') /\
    canon_query (query_pairs q) <> canon_query (query_pairs q').
Proof. exact Lit.query_order_refuted. Qed.
Print Assumptions C04_canon_query_order_refuted.

(* ---------------------------------------------------------------------------------------- *)
(* coverage, component by component                                                          *)
(* ---------------------------------------------------------------------------------------- *)
Theorem C04_covers_method :
  forall (m m' b : bytes) (hs : headers) (u : uri),
  as_sig_input m b hs u = as_sig_input m' b hs u -> m = m'.
Proof. exact covers_method. Qed.
Print Assumptions C04_covers_method.

Theorem C04_covers_body :
  forall (m b b' : bytes) (hs : headers) (u : uri),
  as_sig_input m b hs u = as_sig_input m b' hs u -> b = b'.
Proof. exact covers_body. Qed.
Print Assumptions C04_covers_body.

Theorem C04_covers_path :
  forall (m b : bytes) (hs : headers) (p p' : bytes) (q : option bytes),
  as_sig_input m b hs {| u_path := p; u_query := q |} =
  as_sig_input m b hs {| u_path := p'; u_query := q |} -> p = p'.
Proof. exact covers_path. Qed.
Print Assumptions C04_covers_path.

(* path and query jointly (a Uri path holds no line feed) *)
Theorem C04_covers_path_and_query :
  forall (m b : bytes) (hs : headers) (p p' : bytes) (q q' : option bytes),
  ~ In 10 p -> ~ In 10 p' ->
  as_sig_input m b hs {| u_path := p; u_query := q |} =
  as_sig_input m b hs {| u_path := p'; u_query := q' |} ->
  p = p' /\ canon_query (query_pairs q) = canon_query (query_pairs q').
Proof. exact covers_path_and_query. Qed.
Print Assumptions C04_covers_path_and_query.

(* headers: full statement refuted (known finding F3(b)) ... *)
Theorem C04_covers_headers_refuted :
  exists hs hs' : headers,
    KnownClass_C04_repeated_header_name hs = true /\
    wf_headers hs = true /\ wf_headers hs' = true /\
    canon_headers hs = canon_headers hs' /\
    ~ Permutation (hnorm_multiset hs) (hnorm_multiset hs').
Proof. exact Lit.covers_headers_refuted. Qed.
Print Assumptions C04_covers_headers_refuted.

(* a value that is not valid UTF-8 is signed as U+FFFD per maximal invalid subpart (since /repo
   0528025; it used to panic): different byte strings, one canonical string (known finding F3c) *)
Theorem C04_covers_headers_refuted_not_utf8 :
  exists hs hs' : headers,
    KnownClass_C04_header_value_not_utf8 hs = true /\
    KnownClass_C04_repeated_header_name hs = false /\ KnownClass_C04_repeated_header_name hs' = false /\
    wf_headers hs = true /\ wf_headers hs' = true /\
    canon_headers hs = canon_headers hs' /\
    ~ Permutation (hnorm_multiset hs) (hnorm_multiset hs').
Proof. exact Lit.covers_headers_refuted_not_utf8. Qed.
Print Assumptions C04_covers_headers_refuted_not_utf8.

(* ... and true outside the classes: equal strings => equal multisets of (lower name, value as
   received up to surrounding blanks) *)
Theorem C04_covers_headers_partial :
  forall (m b : bytes) (hs hs' : headers) (u : uri),
  wf_headers hs = true -> wf_headers hs' = true ->
  KnownClass_C04_repeated_header_name hs = false ->
  KnownClass_C04_repeated_header_name hs' = false ->
  KnownClass_C04_header_value_not_utf8 hs = false ->
  KnownClass_C04_header_value_not_utf8 hs' = false ->
  as_sig_input m b hs u = as_sig_input m b hs' u ->
  Permutation (hnorm_multiset hs) (hnorm_multiset hs').
Proof. exact covers_headers_partial. Qed.
Print Assumptions C04_covers_headers_partial.

(* without the UTF-8 hypothesis: the string still determines WHAT IS SIGNED of every header *)
Theorem C04_covers_signed_headers :
  forall (m b : bytes) (hs hs' : headers) (u : uri),
  wf_headers hs = true -> wf_headers hs' = true ->
  KnownClass_C04_repeated_header_name hs = false ->
  KnownClass_C04_repeated_header_name hs' = false ->
  as_sig_input m b hs u = as_sig_input m b hs' u ->
  Permutation (hsigned_multiset hs) (hsigned_multiset hs').
Proof. exact covers_signed_headers. Qed.
Print Assumptions C04_covers_signed_headers.

(* valid UTF-8 values are signed byte for byte (after trimming) *)
Theorem C04_valid_utf8_signed_verbatim :
  forall v : bytes, utf8_valid v = true -> hval v = trim_u v.
Proof. exact hval_valid. Qed.
Print Assumptions C04_valid_utf8_signed_verbatim.

(* query: full statement refuted (known finding F3(a)): colliding sort keys, exact duplicates *)
Theorem C04_covers_query_refuted :
  exists q q' : option bytes,
    KnownClass_C04_kv_collision q = true /\
    canon_query (query_pairs q) = canon_query (query_pairs q') /\
    ~ Permutation (qnorm_multiset (query_pairs q)) (qnorm_multiset (query_pairs q')).
Proof. exact Lit.covers_query_refuted_collision. Qed.
Print Assumptions C04_covers_query_refuted.

Theorem C04_covers_query_refuted_duplicate :
  exists q q' : option bytes,
    KnownClass_C04_kv_collision q = true /\
    canon_query (query_pairs q) = canon_query (query_pairs q') /\
    ~ Permutation (qnorm_multiset (query_pairs q)) (qnorm_multiset (query_pairs q')).
Proof. exact Lit.covers_query_refuted_duplicate. Qed.
Print Assumptions C04_covers_query_refuted_duplicate.

(* ... and true outside the class, for every pair of raw query strings *)
Theorem C04_covers_query_partial :
  forall (m b : bytes) (hs : headers) (p : bytes) (q q' : option bytes),
  KnownClass_C04_kv_collision q = false -> KnownClass_C04_kv_collision q' = false ->
  as_sig_input m b hs {| u_path := p; u_query := q |} =
  as_sig_input m b hs {| u_path := p; u_query := q' |} ->
  Permutation (qnorm_multiset (query_pairs q)) (qnorm_multiset (query_pairs q')).
Proof. exact covers_query_partial. Qed.
Print Assumptions C04_covers_query_partial.

(* ---------------------------------------------------------------------------------------- *)
(* encoding                                                                                  *)
(* ---------------------------------------------------------------------------------------- *)
Theorem C04_hex_injective :
  forall a b : bytes, wf_bytes a = true -> wf_bytes b = true -> hex_encode a = hex_encode b -> a = b.
Proof. exact hex_injective. Qed.
Print Assumptions C04_hex_injective.

Theorem C04_hex_roundtrip :
  forall s : bytes, wf_bytes s = true -> hex_decode (hex_encode s) = Some s.
Proof. exact hex_roundtrip. Qed.
Print Assumptions C04_hex_roundtrip.

(* the body sits between two pieces that do not depend on it (used by the check to assemble
   the expected string for large bodies) *)
Theorem C04_sig_input_body_split :
  forall (m b : bytes) (hs : headers) (u : uri),
  as_sig_input m b hs u = sig_input_prefix m ++ b ++ sig_input_suffix hs u.
Proof. exact sig_input_body_split. Qed.
Print Assumptions C04_sig_input_body_split.

(* ---------------------------------------------------------------------------------------- *)
(* non-vacuity                                                                               *)
(* ---------------------------------------------------------------------------------------- *)
Module Witness.
Import Coq.Strings.String.
Local Open Scope string_scope.

Definition w_mac (k m : bytes) : bytes := [1; 2; 255].
Definition w_req : request :=
  {| r_method := B"GET";
     r_uri := {| u_path := B"/machine"; u_query := Some (B"comp=goalstate&B=2&b=1") |};
     r_headers := [(B"x-ms-version", B" 2012-11-30 "); (B"host", B"168.63.129.16");
                   (auth_header, B"client supplied")];
     r_body := [0; 10; 255] |}.

(* a signed forward exists, its single authorization header has the stated shape, and the
   client-supplied one is gone; without a key and with a non-hex key the request is untouched *)
Example C04_nonvacuous :
  (exists out, sign_and_forward w_mac (Some (B"00ff")) (Some (B"guid")) w_req = Forwarded out /\
               hm_get_all auth_header (r_headers out) = [B"Azure-HMAC-SHA256 guid 0102ff"] /\
               request_sig_input out =
                 (B"GET" ++ [10; 0; 10; 255; 10] ++ B"host:168.63.129.16" ++ [10] ++
                  B"x-ms-version:2012-11-30" ++ [10] ++ B"/machine" ++ [10] ++ B"b=1&b=2&comp=goalstate")%list) /\
  sign_and_forward w_mac None (Some (B"guid")) w_req = Forwarded w_req /\
  sign_and_forward w_mac (Some (B"zz")) (Some (B"guid")) w_req = Forwarded w_req /\
  sign_and_forward w_mac (Some (B"00ff")) (Some [10]) w_req = BadGateway /\
  should_skip_sig (B"PUT") {| u_path := B"/vmAgentLog"; u_query := None |} = true /\
  should_skip_sig (B"PUT") {| u_path := B"/vmAgentLog"; u_query := Some [] |} = false /\
  should_skip_sig (B"put") {| u_path := B"/vmAgentLog"; u_query := None |} = false /\
  should_skip_sig (B"POST") {| u_path := B"/machine/"; u_query := Some (B"comp=telemetryData") |} = true /\
  KnownClass_C04_kv_collision (Some (B"a=bc&ab=c")) = true /\
  KnownClass_C04_kv_collision (Some (B"a=1&a=2&ab=&A")) = false /\
  KnownClass_C04_repeated_header_name (r_headers w_req) = false /\
  hval [32; 195; 169; 194; 160; 9] = [195; 169] /\           (* " \u00e9\u00a0\t" -> "\u00e9" *)
  hval [97; 226; 130; 32] = [97; 239; 191; 189] /\           (* truncated 3-byte sequence -> U+FFFD *)
  KnownClass_C04_header_value_not_utf8 [(B"x", [97; 128])] = true /\
  KnownClass_C04_header_value_not_utf8 [(B"x", [240; 159; 152; 128])] = false.
Proof.
  split; [eexists; split; [vm_compute; reflexivity|split; vm_compute; reflexivity]|].
  vm_compute. repeat split.
Qed.

(* the agent's own calls: the three header sets in use satisfy the premise of
   C04_own_calls_signed_as_sent, and a signed request is produced *)
Example C04_own_calls_nonvacuous :
  forall now host body,
  hm_get_all auth_header (own_base_headers now host body ++ map header_entry [(B"x-ms-version", B"2012-11-30")])%list = [] /\
  hm_get_all auth_header (own_base_headers now host body ++ map header_entry [(B"Metadata", B"true")])%list = [] /\
  hm_get_all auth_header (own_base_headers now host body ++ map header_entry [(B"x-ms-azure-host-metadata", B"True ")])%list = [] /\
  exists out, build_request w_mac now (B"POST") host {| u_path := B"/k"; u_query := None |}
                            [(B"Metadata", B"True ")] None (Some (B"g")) (Some (B"00")) = Some out.
Proof.
  intros. repeat split; try (apply own_headers_no_auth; vm_compute; reflexivity).
  eexists. unfold build_request. cbv zeta. rewrite routes_agree_no_body. reflexivity.
Qed.
End Witness.
