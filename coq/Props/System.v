(* System -- the per-property models are views of ONE end-to-end model of the request path.
   Property theorems only: each is closed by [exact lemma] and followed by Print Assumptions.

   Model: Model/System.v -- [system_step_gen authz mac E C q] is ONE client request [q] on an accepted
   connection whose context is [ci_ctx C], in the environment [E] (actors' answers, clock, key slot,
   upstream state, host answer), composed from Limit.serve (C15: gate, collect) instantiated with
   Server.handle_gen (C01; policy = Authorizer/Rbac, C02/C03), Headers.add_required_headers (C05),
   Canon.relay / sign_and_forward (C04) with the key read as one pair (C10), Relay.upstream_of /
   client_resp_of (C14) and the summary effects (C11); [system_step] is its instance with the policy
   of Model/Authorizer.v; [system_conn] a keep-alive connection; [decided_result] a request of an
   arbitrary history of connections (Model/Accept.v, C07).  It is tied to the code by the end-to-end
   correspondence leg tools/checks/system.py (run inside C01's check).

   Reading guide.  [sy_upstream res] lists (destination ip, port, request as written) for every
   request written on the upstream connection; [sy_client res] is what the client gets:
   [CLocal s] (the proxy's own answer, nothing written), [CRelayed r] (the host's response as
   handed on), [CUpstreamFailed s] (written, no response: the proxy's 502/503); [sy_effects res]
   are Server.v's effects in code order.  [gate_open q]: the RequestBodyLimitLayer chosen for the
   request admits its declared length.  [mac] is HMAC-SHA256 as an arbitrary function, [authz] ANY
   authorization function (so the statements hold for the pinned and the repaired policy alike). *)
From GPA.Model Require Import System.
From GPA.Proofs Require Import SystemProofs.
From GPA Require Import ServerProofs SummaryProofs HeadersProofs AcceptProofs.
From Coq Require Import Permutation.

(* ============================================================================================ *)
(* I. Where two models describe the same thing, they agree                                        *)
(* ============================================================================================ *)

(* the request target.  Server.v's handler view ([url_of], [has_traversal], [is_provision]) of an
   origin-form target reads the very path and query Canon.v signs and Limit.v classifies, and
   hyper_client::query_pairs -- modelled once in Rbac.v for Privilege::is_match and once in Canon.v
   for the canonical string -- is one function: the RBAC decision sees the parameters the MAC covers *)
Theorem System_target_views_agree : forall q : framed_request,
  url_of (server_request q) =
    {| Rbac.u_path := Canon.u_path (q_uri q);
       Rbac.u_query := match Canon.u_query (q_uri q) with Some s => s | None => [] end |} /\
  has_traversal (server_request q) = contains (Canon.u_path (q_uri q)) DOTDOT /\
  (is_provision (server_request q) = true <->
   Canon.u_path (q_uri q) = Consts.provision_url_path /\
   (Canon.u_query (q_uri q) = None \/ Canon.u_query (q_uri q) = Some [])) /\
  Rbac.query_pairs (Rbac.u_query (url_of (server_request q))) = Canon.query_pairs (Canon.u_query (q_uri q)).
Proof.
  intros q. split; [exact (url_of_server_request q)|]. split; [exact (traversal_of_server_request q)|].
  split; [exact (provision_of_server_request q)|exact (rbac_sees_signed_parameters q)].
Qed.
Print Assumptions System_target_views_agree.

(* the kernel's record.  Server.audit_entry and Headers.audit are one record; the elevation bit the
   authorizers test (Claims.runAsElevated) is the bit Headers.v prints into the claims header; and
   Headers.v / Relay.v / Limit.v read the record through that bit only *)
Theorem System_record_views_agree :
  (forall e, run_as_elevated (audit_view e) = elevated_of_audit (ae_is_admin e)) /\
  (forall os e c, claims_of_entry os e = Some c -> k_elevated c = run_as_elevated (audit_view e)) /\
  (forall mac a a' now kv kg c, run_as_elevated a = run_as_elevated a' ->
     proxy_forward mac a now kv kg c = proxy_forward mac a' now kv kg c) /\
  (forall mac a a' now kv kg up q d b, run_as_elevated a = run_as_elevated a' ->
     Limit.serve mac (PreProceed a) now kv kg up q d b = Limit.serve mac (PreProceed a') now kv kg up q d b).
Proof.
  split; [exact elevation_views_agree|]. split; [exact claims_elevation_is_headers_elevation|].
  split; [exact proxy_forward_elevation_only|exact serve_elevation_only].
Qed.
Print Assumptions System_record_views_agree.

(* the key.  Canon/Headers/Limit take the key as two options, the handler reads ONE (guid, value)
   pair (Canon.sign_and_forward_pair), SignRace.v models that read as one actor round trip: fed the
   content [k] of the slot, the three agree; the round trip yields [key_pair] of the slot with both
   fields at one epoch; and Headers.is_signed = "SignRace's outcome of the proxied route carries a
   header, and the pair is not exempt" *)
Theorem System_key_views_agree :
  (forall mac k req,
     relay mac (key_value k) (key_guid k) req =
     if should_skip_sig (r_method req) (r_uri req) then Forwarded req
     else sign_and_forward_pair mac (key_pair k) req) /\
  (forall (t : nat) (w : SignRace.world),
     SignRace.route_reads SignRace.ProxiedRequest = [SignRace.RdWhole] /\
     let rep := snd (SignRace.handle t w SignRace.GetKey) in
     SignRace.hdr (SignRace.absorb SignRace.RdWhole rep SignRace.loc0) = key_pair (SignRace.cur w) /\
     SignRace.setkey_between_reads (SignRace.absorb SignRace.RdWhole rep SignRace.loc0) = false) /\
  (forall k n c,
     is_signed (key_value k) (key_guid k) c =
     negb (should_skip_sig (c_method c) (c_uri c)) &&
     match SignRace.route_outcome hex_usable SignRace.ProxiedRequest
             (SignRace.absorb SignRace.RdWhole (k, n) SignRace.loc0) with
     | SignRace.Sent (Some _) => true
     | _ => false
     end).
Proof.
  split; [exact relay_reads_key_as_pair|]. split; [exact key_read_is_whole|exact is_signed_is_route_outcome].
Qed.
Print Assumptions System_key_views_agree.

(* the handler's early returns.  Limit.v lists them by kind ([early_kind], input of Limit.serve),
   Server.v computes them: every status the handler answers before the forward step is the status of
   one of Limit.v's kinds, so [pre_of] loses nothing *)
Theorem System_early_kinds_are_handler_refusals : forall authz e cx r s,
  fst (handle_gen authz e cx r) = Resp s ->
  exists k, early_with_status s = Some k /\ early_status k = s.
Proof. exact handler_resp_is_early. Qed.
Print Assumptions System_early_kinds_are_handler_refusals.

(* the upstream write.  Server.v's [UpstreamWrite] effect means "the forward step is entered";
   Limit.v / Relay.v say what is really written (nothing when a header value is illegal, the body
   fails or exceeds the limit, or the upstream connection is closed).  The second refines the first:
   every real write carries the handler's effect for this very request and destination -- the
   direction mediation needs.  (The converse fails: Example System_nonvacuous_relay_without_write.) *)
Theorem System_write_refines_handler_write : forall authz mac E C q ip port out,
  In (ip, port, out) (sy_upstream (system_step_gen authz mac E C q)) ->
  exists u, In (UpstreamWrite u) (snd (handled authz E C q)) /\
            In (UpstreamWrite u) (sy_effects (system_step_gen authz mac E C q)) /\
            up_ip u = ip /\ up_port u = port /\ up_request u = server_request (sq_req q).
Proof. exact write_refines_handler_write. Qed.
Print Assumptions System_write_refines_handler_write.

(* ============================================================================================ *)
(* II. The per-property models are views of system_step                                           *)
(* ============================================================================================ *)

(* C15's model: the client-answer kind and the written requests of a step ARE Limit.serve's, with
   "what the handler decided" instantiated by Server.handle_gen -- so every theorem of Props/C15.v
   speaks about the system *)
Theorem System_limit_view : forall authz mac E C q,
  limit_view (system_step_gen authz mac E C q) =
  Limit.serve mac (pre_of (se_provision E) (fst (handled authz E C q))) (se_now E)
              (key_value (se_key E)) (key_guid (se_key E)) (se_up E)
              (sq_req q) (sq_declared q) (sq_broken q).
Proof. exact limit_view_is_serve. Qed.
Print Assumptions System_limit_view.

(* C01's / C11's model: for a request the gate admits, the effects are the handler's own summaries
   (Server.handle_gen's, in order) followed by nothing, by the 502 summary of a closed upstream
   connection, or by the write and the summary forward_response logs *)
Theorem System_handler_view : forall authz mac E C q,
  gate_open q = true ->
  exists tail,
    sy_effects (system_step_gen authz mac E C q) = non_write (snd (handled authz E C q)) ++ tail /\
    (tail = [] \/
     (exists st, tail = [Summary st] /\ sy_upstream (system_step_gen authz mac E C q) = []) \/
     (exists u st, tail = [UpstreamWrite u; Summary st] /\ fst (handled authz E C q) = Relay u /\
                   sy_upstream (system_step_gen authz mac E C q) <> [])).
Proof. exact effects_shape. Qed.
Print Assumptions System_handler_view.

(* C11's model: the actor messages of a step are Summary.msgs_of's for this request, then at most
   the connection summary of the forward step -- so the counting theorems of Props/C11.v apply *)
Theorem System_summary_view : forall mac E C q,
  gate_open q = true ->
  exists tail,
    sys_msgs C (system_step mac E C q) =
      msgs_of {| rv_env := se_env E; rv_conn := C; rv_req := server_request (sq_req q) |} ++ tail /\
    (tail = [] \/ exists st, tail = [AddOk (summary_of C st)]).
Proof. exact sys_msgs_are_handlers. Qed.
Print Assumptions System_summary_view.

(* C14's response leg: whatever the client is "relayed" is Relay.client_resp_of of the host's answer
   to a request that was written: status, headers, body bytes, truncation preserved, marker added *)
Theorem System_response_leg_view : forall authz mac E C q r',
  sy_client (system_step_gen authz mac E C q) = CRelayed r' ->
  exists r, se_host E = HostResponse r /\ r' = client_resp_of r /\
            sy_upstream (system_step_gen authz mac E C q) <> [] /\
            s_status r' = s_status r /\ s_aborted r' = s_aborted r /\
            hm_get_all auth_header (s_headers r') = [marker_value] /\
            (forall n, beq n auth_header = false -> hm_get_all n (s_headers r') = hm_get_all n (s_headers r)) /\
            (wf_frames (s_frames r) = true -> body_of (s_frames r') = body_of (s_frames r)).
Proof. exact response_leg. Qed.
Print Assumptions System_response_leg_view.

(* ============================================================================================ *)
(* III. End-to-end statements                                                                     *)
(* ============================================================================================ *)

(* (a) MEDIATION, end to end (C01 + C15).  Any request written upstream implies: the connection is
   attributed this destination and these claims, every check of the handler passed (no "..", not
   the local endpoint, rules read, policy does not forbid), the gate admitted the request, its body
   is within the limit of its class and is sent whole, the upstream connection is open, and it is
   the only write of this step *)
Theorem System_mediation : forall authz mac E C q ip port out,
  In (ip, port, out) (sy_upstream (system_step_gen authz mac E C q)) ->
  let r := server_request (sq_req q) in
  exists c rs,
    cx_dest (ci_ctx C) = Some (ip, port) /\ cx_claims (ci_ctx C) = Some c /\
    e_counter_ok (se_env E) = true /\ has_traversal r = false /\ is_provision r = false /\
    e_claims_json_ok (se_env E) c = true /\
    rules_for (se_env E) (ipv4_text ip) port = ROk rs /\
    authz (ipv4_text ip) port c (url_of r) rs <> AForbidden /\
    gate_open q = true /\
    total (q_frames (sq_req q)) <= limit_of (q_method (sq_req q)) (q_uri (sq_req q)) /\
    r_body out = concat (q_frames (sq_req q)) /\
    se_up E = true /\ sy_upstream (system_step_gen authz mac E C q) = [(ip, port, out)].
Proof. exact mediation. Qed.
Print Assumptions System_mediation.

(* ... and, with the accept step in front: a record existed under the connection's source port;
   destination, claims and the elevation bit -- also the one the host reads in the claims header --
   are that record's *)
Theorem System_mediation_kernel_record : forall authz mac os fr m p cip cmd E q ip port out,
  In (ip, port, out)
     (sy_upstream (system_step_gen authz mac E
                     {| ci_ctx := fst (accept os fr m p); ci_client_ip := cip; ci_cmd := cmd |} q)) ->
  exists rec c,
    alookup N.eqb p m = Some rec /\ ip = ae_ip rec /\ port = ae_port rec /\
    claims_of_entry os rec = Some c /\ k_elevated c = run_as_elevated (audit_view rec) /\
    hm_get_all claims_header (r_headers out) = [claims_text (run_as_elevated (audit_view rec))].
Proof. exact mediation_kernel_record. Qed.
Print Assumptions System_mediation_kernel_record.

Theorem System_at_most_one_write : forall authz mac E C q,
  (length (sy_upstream (system_step_gen authz mac E C q)) <= 1)%nat.
Proof. exact upstream_at_most_one. Qed.
Print Assumptions System_at_most_one_write.

(* (b) WHAT THE HOST RECEIVES is F(client request, claims, key, now) (C14 + C05 + C04 + C10): it is
   Relay.upstream_of = Headers.proxy_forward on the collected body; method, target and body bytes
   unchanged; headers the proxy does not own unchanged in value and order; exactly one claims header
   (the connection's elevation bit) and one date header (now); with a latched hex key on a pair that
   is not exempt exactly one authorization header, naming that key, whose MAC is over the canonical
   string of THIS forwarded request; otherwise the client's authorization values pass untouched *)
Theorem System_host_receives_F : forall authz mac E C q ip port out,
  In (ip, port, out) (sy_upstream (system_step_gen authz mac E C q)) ->
  let fq := sq_req q in
  exists u,
    fst (handled authz E C q) = Relay u /\ ip = up_ip u /\ port = up_port u /\
    upstream_of mac (audit_of_upstream u) (se_now E) (key_value (se_key E)) (key_guid (se_key E)) fq
      = Forwarded out /\
    r_method out = q_method fq /\ r_uri out = q_uri fq /\ r_body out = concat (q_frames fq) /\
    (forall n, owned n = false -> hm_get_all n (r_headers out) = wire_values n (q_wire fq)) /\
    filter (fname (fun n => negb (owned n))) (r_headers out)
      = filter (fname (fun n => negb (owned n))) (of_wire (q_wire fq)) /\
    hm_get_all claims_header (r_headers out) = [claims_text (k_elevated (up_claims u))] /\
    hm_get_all date_header (r_headers out) = [se_now E] /\
    (forall k kb, se_key E = Some k -> should_skip_sig (q_method fq) (q_uri fq) = false ->
                  hex_decode (SignRace.value k) = Some kb ->
                  hm_get_all auth_header (r_headers out) =
                  [auth_value (SignRace.guid k) (hex_encode (mac kb (request_sig_input out)))]) /\
    (is_signed (key_value (se_key E)) (key_guid (se_key E)) (collected fq) = false ->
     hm_get_all auth_header (r_headers out) = wire_values auth_header (q_wire fq)).
Proof. exact forwarded_is_function. Qed.
Print Assumptions System_host_receives_F.

(* the string under that MAC is the canonical string of the client's method, body bytes and target
   and of the very header list the host receives ... *)
Theorem System_signed_string_is_of_forwarded : forall authz mac E C q ip port out,
  In (ip, port, out) (sy_upstream (system_step_gen authz mac E C q)) ->
  request_sig_input out =
  as_sig_input (q_method (sq_req q)) (concat (q_frames (sq_req q))) (r_headers out) (q_uri (sq_req q)).
Proof. exact signed_string_is_of_forwarded. Qed.
Print Assumptions System_signed_string_is_of_forwarded.

(* ... so C04's coverage applies to what the system forwards: two forwarded requests with equal
   canonical strings agree on the method, on the body, on the path and -- outside the recorded
   known-finding classes of C04, carried as hypotheses exactly as Props/C04.v carries them (F3a
   kv_collision, F3b repeated_header_name, F3c header_value_not_utf8) -- on the query parameters and
   on the signed headers (one component varying at a time, as in C04) *)
Theorem System_signature_covers : forall out out' : Canon.request,
  request_sig_input out = request_sig_input out' ->
  (r_body out = r_body out' -> r_headers out = r_headers out' -> r_uri out = r_uri out' ->
   r_method out = r_method out') /\
  (r_method out = r_method out' -> r_headers out = r_headers out' -> r_uri out = r_uri out' ->
   r_body out = r_body out') /\
  (r_method out = r_method out' -> r_body out = r_body out' -> r_headers out = r_headers out' ->
   ~ In 10 (Canon.u_path (r_uri out)) -> ~ In 10 (Canon.u_path (r_uri out')) ->
   Canon.u_path (r_uri out) = Canon.u_path (r_uri out') /\
   (KnownClass_C04_kv_collision (Canon.u_query (r_uri out)) = false ->
    KnownClass_C04_kv_collision (Canon.u_query (r_uri out')) = false ->
    Permutation (qnorm_multiset (Canon.query_pairs (Canon.u_query (r_uri out))))
                (qnorm_multiset (Canon.query_pairs (Canon.u_query (r_uri out')))))) /\
  (r_method out = r_method out' -> r_body out = r_body out' -> r_uri out = r_uri out' ->
   wf_headers (r_headers out) = true -> wf_headers (r_headers out') = true ->
   KnownClass_C04_repeated_header_name (r_headers out) = false ->
   KnownClass_C04_repeated_header_name (r_headers out') = false ->
   KnownClass_C04_header_value_not_utf8 (r_headers out) = false ->
   KnownClass_C04_header_value_not_utf8 (r_headers out') = false ->
   Permutation (hnorm_multiset (r_headers out)) (hnorm_multiset (r_headers out'))).
Proof. exact signature_covers. Qed.
Print Assumptions System_signature_covers.

(* the converse of (a): when every check passes, the body is within the limit and honestly declared,
   the upstream connection is open and the forwarded head is legal, the request IS written, once, to
   the recorded destination, and the client gets what the host leg gives *)
Theorem System_relayed_when_all_pass : forall authz mac E C q u out,
  fst (handled authz E C q) = Relay u ->
  total (q_frames (sq_req q)) <= limit_of (q_method (sq_req q)) (q_uri (sq_req q)) ->
  sq_declared q = None \/ sq_declared q = Some (total (q_frames (sq_req q))) ->
  sq_broken q = false -> se_up E = true ->
  upstream_of mac (audit_of_upstream u) (se_now E) (key_value (se_key E)) (key_guid (se_key E)) (sq_req q)
    = Forwarded out ->
  sy_upstream (system_step_gen authz mac E C q) = [(up_ip u, up_port u, out)] /\
  sy_client (system_step_gen authz mac E C q) =
    match se_host E with HostResponse r => CRelayed (client_resp_of r) | HostError st => CUpstreamFailed st end.
Proof. exact relayed_when_all_pass. Qed.
Print Assumptions System_relayed_when_all_pass.

(* C15 on the system: nothing of an over-limit body is ever written -- unconditionally -- and the
   client is told with a 4xx whenever the handler would have relayed the request or refused it with
   a 4xx of its own *)
Theorem System_over_limit_never_relayed : forall authz mac E C q,
  limit_of (q_method (sq_req q)) (q_uri (sq_req q)) < total (q_frames (sq_req q)) ->
  sy_upstream (system_step_gen authz mac E C q) = [].
Proof. exact over_limit_never_relayed. Qed.
Print Assumptions System_over_limit_never_relayed.

Theorem System_over_limit_refused : forall authz mac E C q,
  header_value_ok (se_now E) = true ->
  limit_of (q_method (sq_req q)) (q_uri (sq_req q)) < total (q_frames (sq_req q)) ->
  (exists u, fst (handled authz E C q) = Relay u) \/
  (exists s, fst (handled authz E C q) = Resp s /\ is_4xx s = true) ->
  exists s, sy_client (system_step_gen authz mac E C q) = CLocal s /\ is_4xx s = true /\
            sy_upstream (system_step_gen authz mac E C q) = [].
Proof. exact over_limit_refused_system. Qed.
Print Assumptions System_over_limit_refused.

(* a fact no single model shows: a request the 413 gate refuses never reaches the handler -- no
   connection count, no summary, and in particular NO failed-authorization record even if the policy
   would have denied it (C11's "every denial is recorded once" is about requests the gate admits) *)
Theorem System_gate_refusal_is_silent : forall authz mac E C q,
  gate_open q = false ->
  system_step_gen authz mac E C q =
  {| sy_client := CLocal status_payload_too_large; sy_upstream := []; sy_effects := [] |}.
Proof. exact gate_refusal_silent. Qed.
Print Assumptions System_gate_refusal_is_silent.

(* (c) ROOT-ONLY ENDPOINTS AND THE PROXY'S OWN ADDRESS (C03) as corollaries: whatever the rules, the
   request, the key, the body and the upstream state, nothing is written and nothing is relayed *)
Theorem System_root_only_never_relayed : forall mac E C q ip port c,
  cx_dest (ci_ctx C) = Some (ip, port) -> cx_claims (ci_ctx C) = Some c ->
  kind_of (ipv4_text ip) port = KWireServer \/ kind_of (ipv4_text ip) port = KGAPlugin ->
  k_elevated c = false ->
  sy_upstream (system_step mac E C q) = [] /\ forall r, sy_client (system_step mac E C q) <> CRelayed r.
Proof. exact root_only_never_relayed. Qed.
Print Assumptions System_root_only_never_relayed.

Theorem System_self_never_relayed : forall mac E C q ip port c,
  cx_dest (ci_ctx C) = Some (ip, port) -> cx_claims (ci_ctx C) = Some c ->
  kind_of (ipv4_text ip) port = KProxyAgent ->
  sy_upstream (system_step mac E C q) = [] /\ forall r, sy_client (system_step mac E C q) <> CRelayed r.
Proof. exact self_never_relayed. Qed.
Print Assumptions System_self_never_relayed.

(* ... and when such a request is admitted by the gate and reaches the authorization step: 403, one
   failed-authorization record, the connection summary, nothing else *)
Theorem System_root_only_403 : forall mac E C q ip port c rs,
  gate_open q = true ->
  reaches (se_env E) (ci_ctx C) (server_request (sq_req q)) ip port c rs ->
  kind_of (ipv4_text ip) port = KWireServer \/ kind_of (ipv4_text ip) port = KGAPlugin \/
  kind_of (ipv4_text ip) port = KProxyAgent ->
  (kind_of (ipv4_text ip) port <> KProxyAgent -> k_elevated c = false) ->
  system_step mac E C q =
  {| sy_client := CLocal 403; sy_upstream := []; sy_effects := [FailedSummary 403; Summary 403] |}.
Proof. exact root_only_403. Qed.
Print Assumptions System_root_only_403.

(* (d) DENIALS (C11): for every request, the number of failed-authorization records is 1 when the
   gate admits it and the handler records a failure, else 0 -- never 2 ... *)
Theorem System_denial_recorded_once : forall mac E C q,
  failed_effects (sy_effects (system_step mac E C q)) =
  if gate_open q && records_failure (se_env E) (ci_ctx C) (server_request (sq_req q)) then 1%nat else 0%nat.
Proof. exact denial_recorded_once. Qed.
Print Assumptions System_denial_recorded_once.

(* ... enforce mode: 403, no upstream request, exactly that one record ... *)
Theorem System_enforce_blocks : forall mac E C q ip port c rl,
  gate_open q = true ->
  reaches (se_env E) (ci_ctx C) (server_request (sq_req q)) ip port c (Some rl) ->
  builtin_ok (kind_of (ipv4_text ip) port) c = true ->
  c_mode rl = Enforce -> rules_deny rl (server_request (sq_req q)) c = true ->
  system_step mac E C q =
  {| sy_client := CLocal 403; sy_upstream := []; sy_effects := [FailedSummary 403; Summary 403] |}.
Proof. exact enforce_blocks_system. Qed.
Print Assumptions System_enforce_blocks.

(* ... audit mode: the denied request is relayed exactly as under a policy that allows it -- same
   answer to the client, same bytes to the host (headers, signature, body) -- and the effects are
   the allowed request's with one failed-authorization record in front *)
Theorem System_audit_forwards : forall mac E E' C q ip port c rl rs',
  gate_open q = true ->
  se_now E = se_now E' -> se_key E = se_key E' -> se_provision E = se_provision E' ->
  se_up E = se_up E' -> se_host E = se_host E' ->
  reaches (se_env E) (ci_ctx C) (server_request (sq_req q)) ip port c (Some rl) ->
  reaches (se_env E') (ci_ctx C) (server_request (sq_req q)) ip port c rs' ->
  builtin_ok (kind_of (ipv4_text ip) port) c = true ->
  c_mode rl = Audit -> rules_deny rl (server_request (sq_req q)) c = true ->
  match rs' with Some rl' => rules_deny rl' (server_request (sq_req q)) c = false | None => True end ->
  sy_client (system_step mac E C q) = sy_client (system_step mac E' C q) /\
  sy_upstream (system_step mac E C q) = sy_upstream (system_step mac E' C q) /\
  sy_effects (system_step mac E C q) = FailedSummary 403 :: sy_effects (system_step mac E' C q).
Proof. exact audit_forwards_system. Qed.
Print Assumptions System_audit_forwards.

(* a connection without attribution (made directly to the listener, or reusing a consumed port):
   421, nothing written, nothing recorded as failed *)
Theorem System_unattributed_refused : forall authz mac E C q,
  gate_open q = true -> e_counter_ok (se_env E) = true ->
  has_traversal (server_request (sq_req q)) = false -> is_provision (server_request (sq_req q)) = false ->
  cx_dest (ci_ctx C) = None ->
  sy_client (system_step_gen authz mac E C q) = CLocal 421 /\
  sy_upstream (system_step_gen authz mac E C q) = [] /\
  failed_effects (sy_effects (system_step_gen authz mac E C q)) = 0%nat.
Proof. exact unattributed_refused. Qed.
Print Assumptions System_unattributed_refused.

(* (e) KEEP-ALIVE (C07's "every request uses its connection's context").  A connection is the fold of
   [system_step] over its requests with ONE context: the n-th result is the step of the n-th request
   in its own environment (policy, key, clock may change between requests) on that context, and does
   not depend on the requests before it *)
Theorem System_keepalive_same_ctx : forall mac C steps,
  system_conn mac C steps = map (fun s => system_step mac (fst s) C (snd s)) steps /\
  (forall n E q, nth_error steps n = Some (E, q) ->
                 nth_error (system_conn mac C steps) n = Some (system_step mac E C q)) /\
  (forall more, system_conn mac C (steps ++ more) = system_conn mac C steps ++ system_conn mac C more).
Proof.
  intros mac C steps. split; [exact (system_conn_map mac C steps)|].
  split; [exact (system_conn_nth mac C steps)|exact (system_conn_app mac C steps)].
Qed.
Print Assumptions System_keepalive_same_ctx.

(* ... and in ANY history of any number of connections (kernel writes, two-step accepts, requests,
   closes, arbitrarily interleaved: Model/Accept.v), every request of connection c is one
   [system_step] on the context derived from what c's own Lookup found -- the same for all of c's
   requests *)
Theorem System_history_requests_use_conn_ctx :
  forall mac os cip cmd (s : Accept.state audit_entry)
         (h : list (Accept.op audit_entry (sys_env * sys_request))) c E q x,
  Accept.conn_of s c = None ->
  In (Accept.Decided c (E, q) x) (Accept.outs s h) ->
  exists h1 p h2,
    h = h1 ++ Accept.Lookup c p :: h2 /\ Accept.no_lookup_of c h1 = true /\
    x = alookup N.eqb p (Accept.audit (Accept.final s h1)) /\
    decided_result mac os cip cmd (Accept.Decided c (E, q) x) =
      (c, system_step mac E (conn_of_lookup os cip cmd c
                               (alookup N.eqb p (Accept.audit (Accept.final s h1)))) q).
Proof. exact history_request_uses_conn_ctx. Qed.
Print Assumptions System_history_requests_use_conn_ctx.

Theorem System_history_same_conn :
  forall os cip cmd (s : Accept.state audit_entry)
         (h : list (Accept.op audit_entry (sys_env * sys_request))) c E1 q1 x1 E2 q2 x2,
  In (Accept.Decided c (E1, q1) x1) (Accept.outs s h) ->
  In (Accept.Decided c (E2, q2) x2) (Accept.outs s h) ->
  conn_of_lookup os cip cmd c x1 = conn_of_lookup os cip cmd c x2.
Proof. exact history_same_conn. Qed.
Print Assumptions System_history_same_conn.

(* under source-port exclusivity and working map deletes (C07's named hypotheses) that context is the
   kernel's write for this very connection, or none -- and with none nothing is written upstream *)
Theorem System_history_own_record :
  forall mac os cip cmd (h : list (Accept.op audit_entry (sys_env * sys_request))) c E q x,
  Accept.exclusive h = true -> Accept.removes_ok h = true ->
  In (Accept.Decided c (E, q) x) (Accept.outs Accept.init h) ->
  exists p, In (Accept.Lookup c p) h /\
    match x with
    | Some e => In (Accept.KRecord c p e) h
    | None => (forall e, ~ In (Accept.KRecord c p e) h) /\
              sy_upstream (snd (decided_result mac os cip cmd (Accept.Decided c (E, q) x))) = []
    end.
Proof. exact history_own_record. Qed.
Print Assumptions System_history_own_record.

(* ============================================================================================ *)
(* Non-vacuity: concrete steps by computation                                                     *)
(* ============================================================================================ *)
Module System_examples.
  Import Coq.Strings.String.
  Definition os : os_view := fun uid pid =>
    Some (if uid =? 0 then B"root" else B"nobody", [if uid =? 0 then B"root" else B"nogroup"],
          B"curl", B"/usr/bin/curl").
  Definition rec_to (ip port uid : N) : audit_entry :=
    {| ae_logon := uid; ae_pid := 4242; ae_is_admin := if uid =? 0 then 1%Z else 0%Z;
       ae_ip := ip; ae_port := port |}.
  Definition ws := Consts.wire_server_ip_network_byte_order.
  Definition imds := Consts.imds_ip_network_byte_order.
  Definition self := Consts.proxy_agent_ip_network_byte_order.
  Definition m : audit_map :=
    [(40001, rec_to ws 80 0); (40002, rec_to ws 80 1000); (40003, rec_to imds 80 1000);
     (40004, rec_to self 3080 0); (40005, rec_to ws 32526 1000)].
  Definition rules (mode : amode) : rules_result :=
    ROk (Some {| c_default := false; c_mode := mode; c_privs := []; c_assign := []; c_ids := [] |}).
  Definition host_ok : host_reply :=
    HostResponse {| s_status := 200; s_headers := of_wire [(B"ETag", B"x"); (auth_header, B"host-supplied")];
                    s_frames := [FData (B"he"); FData (B"llo")]; s_aborted := false |}.
  Definition env_ (imds_rules : rules_result) (key : option SignRace.key) (up : bool) (host : host_reply) : sys_env :=
    {| se_env := {| e_counter_ok := true; e_claims_json_ok := fun _ => true;
                    e_ws := ROk None; e_ga := ROk None; e_imds := imds_rules |};
       se_now := B"Thu, 01 Oct 2026 21:01:37 GMT"; se_key := key; se_provision := 200;
       se_up := up; se_host := host |}.
  Definition key1 := Some (SignRace.Key (B"guid-1") (B"00ff")).
  Definition E0 := env_ (ROk None) key1 true host_ok.
  Definition req (mth path : bytes) (qy : option bytes) (wire : list (bytes * bytes)) (frames : list bytes)
             (declared : option N) : sys_request :=
    {| sq_req := {| q_method := mth; q_uri := {| Canon.u_path := path; Canon.u_query := qy |};
                    q_wire := wire; q_frames := frames |};
       sq_declared := declared; sq_broken := false |}.
  Definition spoof : list (bytes * bytes) :=
    [(B"Host", B"x"); (B"X-MS-Azure-Host-Claims", claims_text true); (B"accept", B"*/*");
     (B"x-ms-azure-host-DATE", B"yesterday"); (B"X-Ms-Azure-Host-Authorization", B"client")].
  Definition get_gs := req (B"GET") (B"/machine") (Some (B"comp=goalstate")) spoof [] None.
  Definition get_md := req (B"GET") (B"/metadata/instance") None spoof [] None.
  Definition run (E : sys_env) (port : N) (q : sys_request) :=
    system_case os false m port (B"127.0.0.1") (B"curl x") E q.
  Definition conn_ (port : N) : conn_info :=
    {| ci_ctx := fst (accept os false m port); ci_client_ip := B"127.0.0.1"; ci_cmd := B"curl x" |}.
  Definition brief (E : sys_env) (port : N) (q : sys_request) :=
    let res := system_step zero_mac E (conn_ port) q in
    (fst (fst (fst (client_code (sy_client res)))), snd (fst (fst (client_code (sy_client res)))),
     List.length (sy_upstream res), map effect_code (sy_effects res)).

(* root to WireServer, key latched, three spoofed owned headers: relayed once; the host receives one
   claims header (true), one date (now), one authorization header (the proxy's), the other headers as
   sent; the client receives the host's status, headers and body with the marker replacing the
   host-supplied value; effects: the write, then the connection summary with the host's status.
   The premises of System_mediation / System_host_receives_F / System_response_leg_view hold. *)
Example System_nonvacuous_relayed_signed :
  let res := system_step zero_mac E0 (conn_ 40001) get_gs in
  match sy_upstream res, sy_client res with
  | [(ip, port, out)], CRelayed r' =>
      ip = ws /\ port = 80 /\
      r_headers out = [(B"host", B"x"); (claims_header, claims_text true); (B"accept", B"*/*");
                       (date_header, se_now E0); (auth_header, auth_value (B"guid-1") [])] /\
      uri_to_string (r_uri out) = B"/machine?comp=goalstate" /\
      is_signed (key_value (se_key E0)) (key_guid (se_key E0)) (collected (sq_req get_gs)) = true /\
      wf_headers (r_headers out) = true /\
      KnownClass_C04_repeated_header_name (r_headers out) = false /\
      KnownClass_C04_header_value_not_utf8 (r_headers out) = false /\
      KnownClass_C04_kv_collision (Canon.u_query (r_uri out)) = false /\
      s_status r' = 200 /\ body_of (s_frames r') = B"hello" /\
      s_headers r' = [(B"etag", B"x"); (auth_header, marker_value)]
  | _, _ => False
  end /\
  map effect_code (sy_effects res) = [(0, 0); (2, 200)] /\ gate_open get_gs = true.
Proof. vm_compute. repeat split. Qed.

(* (c) not elevated to WireServer / HostGAPlugin, and the proxy's own address even for root: 403, no
   write, one failed record -- with or without rules *)
Example System_nonvacuous_root_only :
  brief E0 40002 get_gs = (0, 403, 0%nat, [(1, 403); (2, 403)]) /\
  brief E0 40005 get_gs = (0, 403, 0%nat, [(1, 403); (2, 403)]) /\
  brief E0 40004 get_gs = (0, 403, 0%nat, [(1, 403); (2, 403)]) /\
  kind_of (ipv4_text ws) 80 = KWireServer /\ kind_of (ipv4_text ws) 32526 = KGAPlugin /\
  kind_of (ipv4_text self) 3080 = KProxyAgent.
Proof. vm_compute. repeat split. Qed.

(* (d) IMDS with a deny-all policy: enforce -> 403, no write, [failed; summary]; audit -> relayed like
   the allowed request, with the failed record in front; disabled / no rules -> relayed, no record;
   a direct connection -> 421 and no failed record *)
Example System_nonvacuous_modes :
  brief (env_ (rules Enforce) key1 true host_ok) 40003 get_md = (0, 403, 0%nat, [(1, 403); (2, 403)]) /\
  brief (env_ (rules Audit) key1 true host_ok) 40003 get_md = (1, 200, 1%nat, [(1, 403); (0, 0); (2, 200)]) /\
  brief (env_ (rules Disabled) key1 true host_ok) 40003 get_md = (1, 200, 1%nat, [(0, 0); (2, 200)]) /\
  brief (env_ (ROk None) key1 true host_ok) 40003 get_md = (1, 200, 1%nat, [(0, 0); (2, 200)]) /\
  sy_upstream (system_step zero_mac (env_ (rules Audit) key1 true host_ok) (conn_ 40003) get_md) =
  sy_upstream (system_step zero_mac (env_ (ROk None) key1 true host_ok) (conn_ 40003) get_md) /\
  brief E0 50000 get_md = (0, 421, 0%nat, [(2, 421)]).
Proof. vm_compute. repeat split. Qed.

(* the 413 gate is in front of the handler: an over-limit declared length on a request the policy
   DENIES is answered 413 with no record at all; the same for an allowed one *)
Example System_nonvacuous_gate_is_silent :
  let big := req (B"POST") (B"/metadata/instance") None spoof [] (Some 102401) in
  gate_open big = false /\
  brief (env_ (rules Enforce) key1 true host_ok) 40003 big = (0, 413, 0%nat, []) /\
  brief E0 40001 big = (0, 413, 0%nat, []) /\
  records_failure (se_env (env_ (rules Enforce) key1 true host_ok)) (ci_ctx (conn_ 40003))
                  (server_request (sq_req big)) = true.
Proof. vm_compute. repeat split. Qed.

(* Server.v's Relay is "the forward step is entered", not "written": a broken body (400), an illegal
   date value (502) and a closed upstream connection (502, with its summary) are relayed by the
   handler and write nothing; a host that drops the connection after the write gives the proxy's 503 *)
Example System_nonvacuous_relay_without_write :
  let broken := {| sq_req := sq_req get_gs; sq_declared := None; sq_broken := true |} in
  fst (result_codes (handled authorize_at E0 (conn_ 40001) broken)) = (2, 0) /\
  brief E0 40001 broken = (0, 400, 0%nat, []) /\
  brief {| se_env := se_env E0; se_now := [10]; se_key := key1; se_provision := 200; se_up := true;
           se_host := host_ok |} 40001 get_gs = (0, 502, 0%nat, []) /\
  brief (env_ (ROk None) key1 false host_ok) 40001 get_gs = (0, 502, 0%nat, [(2, 502)]) /\
  brief (env_ (ROk None) key1 true (HostError 503)) 40001 get_gs = (2, 503, 1%nat, [(0, 0); (2, 503)]).
Proof. vm_compute. repeat split. Qed.

(* the exempt upload: large limit, not signed, the client's authorization value passes; no key: the
   same for an ordinary request; a key that is not hex: forwarded unsigned *)
Example System_nonvacuous_unsigned :
  let put := req (B"PUT") (B"/vmAgentLog") None spoof [B"log "; B"line"] None in
  limit_of (q_method (sq_req put)) (q_uri (sq_req put)) = large_limit /\
  match sy_upstream (system_step zero_mac E0 (conn_ 40001) put) with
  | [(_, _, out)] => hm_get_all auth_header (r_headers out) = [B"client"] /\ r_body out = B"log line" /\
                     hm_get_all claims_header (r_headers out) = [claims_text true]
  | _ => False
  end /\
  match sy_upstream (system_step zero_mac (env_ (ROk None) None true host_ok) (conn_ 40001) get_gs) with
  | [(_, _, out)] => hm_get_all auth_header (r_headers out) = [B"client"]
  | _ => False
  end /\
  match sy_upstream (system_step zero_mac (env_ (ROk None) (Some (SignRace.Key (B"g") (B"zz"))) true host_ok)
                                 (conn_ 40001) get_gs) with
  | [(_, _, out)] => hm_get_all auth_header (r_headers out) = [B"client"]
  | _ => False
  end.
Proof. vm_compute. repeat split. Qed.

(* (e) a keep-alive connection of three requests on ONE context while the policy flips to deny and
   back and the key is rotated in between: relayed+signed under key 1, refused, relayed under key 2 *)
Example System_nonvacuous_keepalive :
  let key2 := Some (SignRace.Key (B"guid-2") (B"abcd")) in
  let rs := system_conn zero_mac (conn_ 40003)
              [(env_ (ROk None) key1 true host_ok, get_md);
               (env_ (rules Enforce) key1 true host_ok, get_md);
               (env_ (ROk None) key2 true host_ok, get_md)] in
  map (fun res => (List.length (sy_upstream res), map effect_code (sy_effects res),
                   flat_map (fun x => hm_get_all auth_header (r_headers (snd x))) (sy_upstream res))) rs =
  [(1%nat, [(0, 0); (2, 200)], [auth_value (B"guid-1") []]);
   (0%nat, [(1, 403); (2, 403)], []);
   (1%nat, [(0, 0); (2, 200)], [auth_value (B"guid-2") []])].
Proof. vm_compute. reflexivity. Qed.

(* ... and a history with interleaved accepts: connection 1 (record for WireServer/root) and
   connection 2 (no record, same port reused after 1's record was consumed) -- 1's two requests are
   decided with its record, 2's with none (421, nothing written) *)
Example System_nonvacuous_history :
  let h : list (Accept.op audit_entry (sys_env * sys_request)) :=
    [Accept.KRecord 1 5000 (rec_to ws 80 0); Accept.Lookup 1 5000; Accept.Remove 1 true;
     Accept.Request 1 (E0, get_gs); Accept.Lookup 2 5000; Accept.Request 2 (E0, get_gs);
     Accept.Request 1 (E0, get_gs); Accept.Close 1] in
  Accept.exclusive h = true /\ Accept.removes_ok h = true /\
  map (fun o => let cr := decided_result zero_mac os (fun _ => B"127.0.0.1") (fun _ => B"curl x") o in
                (fst cr, List.length (sy_upstream (snd cr)), fst (client_code (sy_client (snd cr)))))
      (Accept.outs Accept.init h) =
  [(1, 1%nat, (1, 200, [(B"etag", B"x"); (auth_header, marker_value)]));
   (2, 0%nat, (0, 421, []));
   (1, 1%nat, (1, 200, [(B"etag", B"x"); (auth_header, marker_value)]))].
Proof. vm_compute. repeat split. Qed.
End System_examples.

(* ============================================================================================ *)
(* IV. A connection is a SEQUENCE of requests with head fields, body framing and trailer fields   *)
(* ============================================================================================ *)
(* Model/SystemSeq.v: [serve_conn_gen authz mac C rs] serves the requests [rs] of one connection whose
   state [C] (the attribution: context from the kernel's record, client address, command line) was fixed
   when it was accepted.  Each [seq_request] carries its OWN environment [rq_env] (rules and actors'
   answers, clock, key slot, upstream usable, host answer -- whatever is in force when it is handled),
   its head fields / body frames / declared length ([rq_sys]) and its trailer fields ([rq_trailers]).
   [so_upstream o] lists (destination, [upstream_message] = head + body + trailer section) the host
   receives for a request; [so_result o] is System.v's result.  All statements: every sequence, every
   position [i], every authorization function and [mac]. *)
From GPA.Model Require Import SystemSeq.
From GPA.Proofs Require Import SystemSeqProofs.

(* the outcome at position i depends on the connection state and on request i alone -- not on the
   requests before it nor on their outcomes (relayed, refused, over the limit, host down) *)
Theorem SystemSeq_position_independent : forall authz mac C rs rs' i j,
  nth_error rs i = nth_error rs' j ->
  nth_error (serve_conn_gen authz mac C rs) i = nth_error (serve_conn_gen authz mac C rs') j.
Proof. exact position_independent. Qed.
Print Assumptions SystemSeq_position_independent.

(* (a) COMPLETE MEDIATION PER REQUEST.  Whatever the host receives for request i implies: the
   connection is attributed this destination and these claims, and request i ITSELF passed every check
   under what was in force AT request i (counter, no "..", not the local endpoint, rules of that moment
   read and not forbidding), its gate was open, its body within the limit of its own class and sent
   whole, the upstream connection usable at that moment; and it is the only message for request i *)
Theorem SystemSeq_mediation_per_request : forall authz mac C rs i o ip port u,
  nth_error (serve_conn_gen authz mac C rs) i = Some o -> In (ip, port, u) (so_upstream o) ->
  exists r c rl,
    nth_error rs i = Some r /\
    let sr := server_request (sq_req (rq_sys r)) in
    cx_dest (ci_ctx C) = Some (ip, port) /\ cx_claims (ci_ctx C) = Some c /\
    e_counter_ok (se_env (rq_env r)) = true /\ has_traversal sr = false /\ is_provision sr = false /\
    e_claims_json_ok (se_env (rq_env r)) c = true /\
    rules_for (se_env (rq_env r)) (ipv4_text ip) port = ROk rl /\
    authz (ipv4_text ip) port c (url_of sr) rl <> AForbidden /\
    gate_open (rq_sys r) = true /\
    total (q_frames (sq_req (rq_sys r))) <= limit_of (q_method (sq_req (rq_sys r))) (q_uri (sq_req (rq_sys r))) /\
    r_body (u_request u) = concat (q_frames (sq_req (rq_sys r))) /\
    se_up (rq_env r) = true /\ so_upstream o = [(ip, port, u)].
Proof. exact seq_mediation. Qed.
Print Assumptions SystemSeq_mediation_per_request.

(* ... contrapositive, independent of history: a request the rules in force at ITS turn forbid is not
   relayed, whatever was relayed or refused before it on the same connection *)
Theorem SystemSeq_forbidden_not_relayed : forall authz mac C rs i r ip port c,
  nth_error rs i = Some r ->
  cx_dest (ci_ctx C) = Some (ip, port) -> cx_claims (ci_ctx C) = Some c ->
  (forall rl, rules_for (se_env (rq_env r)) (ipv4_text ip) port = ROk rl ->
              authz (ipv4_text ip) port c (url_of (server_request (sq_req (rq_sys r)))) rl = AForbidden) ->
  exists o, nth_error (serve_conn_gen authz mac C rs) i = Some o /\
            so_upstream o = [] /\ sy_upstream (so_result o) = [].
Proof. exact seq_forbidden_not_relayed. Qed.
Print Assumptions SystemSeq_forbidden_not_relayed.

(* (b) PROXY-OWNED NAMES EXACTLY ONCE OVER HEAD AND TRAILER SECTIONS.  In everything the host receives
   for request i -- head fields and trailer fields, names read case-insensitively -- claims occurs
   exactly once with the connection's elevation bit, date exactly once with the clock of request i,
   nothing else carries either name, the trailer section is empty, and on a signed request the
   authorization name occurs exactly once, naming the key latched at request i *)
Theorem SystemSeq_owned_once_head_and_trailers : forall authz mac C rs i o ip port u,
  nth_error (serve_conn_gen authz mac C rs) i = Some o -> In (ip, port, u) (so_upstream o) ->
  exists r c,
    nth_error rs i = Some r /\ cx_claims (ci_ctx C) = Some c /\
    hm_get_all claims_header (all_fields u) = [claims_text (k_elevated c)] /\
    hm_get_all date_header (all_fields u) = [se_now (rq_env r)] /\
    (forall n v, In (n, v) (all_fields u) ->
       (lower n = claims_header -> v = claims_text (k_elevated c)) /\
       (lower n = date_header -> v = se_now (rq_env r))) /\
    u_trailers u = [] /\
    (is_signed (key_value (se_key (rq_env r))) (key_guid (se_key (rq_env r))) (collected (sq_req (rq_sys r))) = true ->
     exists k sig, se_key (rq_env r) = Some k /\
       hm_get_all auth_header (all_fields u) = [auth_value (SignRace.guid k) sig] /\
       forall n v, In (n, v) (all_fields u) -> lower n = auth_header -> v = auth_value (SignRace.guid k) sig).
Proof. exact seq_owned_once. Qed.
Print Assumptions SystemSeq_owned_once_head_and_trailers.

(* ... and that identity is the KERNEL's: for a connection accepted from source port p, every message
   of every request of the sequence goes to the recorded destination and carries the elevation bit of
   the record found under p at accept time *)
Theorem SystemSeq_owned_kernel_identity : forall mac os fr m p cip cmd rs i o ip port u,
  nth_error (serve_accepted mac os fr m p cip cmd rs) i = Some o -> In (ip, port, u) (so_upstream o) ->
  exists rec,
    alookup N.eqb p m = Some rec /\ ip = ae_ip rec /\ port = ae_port rec /\
    hm_get_all claims_header (all_fields u) = [claims_text (run_as_elevated (audit_view rec))] /\
    u_trailers u = [].
Proof. exact seq_owned_kernel_identity. Qed.
Print Assumptions SystemSeq_owned_kernel_identity.

(* (c) OVER-LIMIT REQUESTS ARE NEVER RELAYED, whatever their position: over the limit of its OWN class
   (chosen per request), declared or chunked, first or after any number of relayed/refused requests *)
Theorem SystemSeq_over_limit_never_relayed : forall authz mac C rs i r,
  nth_error rs i = Some r ->
  limit_of (q_method (sq_req (rq_sys r))) (q_uri (sq_req (rq_sys r))) < total (q_frames (sq_req (rq_sys r))) ->
  exists o, nth_error (serve_conn_gen authz mac C rs) i = Some o /\
            so_upstream o = [] /\ sy_upstream (so_result o) = [].
Proof. exact seq_over_limit_never_relayed. Qed.
Print Assumptions SystemSeq_over_limit_never_relayed.

(* (d) VIEWS.  Projecting the sequence model to a single request gives back System.v: a one-request
   connection is [system_step_gen] (so parts I-III above are the n = 1 case), the results of any
   sequence are System.v's keep-alive connection [system_conn], and the messages' heads are System.v's
   written requests *)
Theorem SystemSeq_projects_to_system : forall authz mac C r rs,
  (serve_conn_gen authz mac C [r] = [serve_request_gen authz mac C r] /\
   map so_result (serve_conn_gen authz mac C [r]) = [system_step_gen authz mac (rq_env r) C (rq_sys r)]) /\
  map (fun x => (fst (fst x), snd (fst x), u_request (snd x))) (so_upstream (serve_request_gen authz mac C r))
    = sy_upstream (system_step_gen authz mac (rq_env r) C (rq_sys r)) /\
  map so_result (serve_conn mac C rs) = system_conn mac C (map step_of rs) /\
  serve_conn_gen authz mac C (rs ++ [r]) = serve_conn_gen authz mac C rs ++ [serve_request_gen authz mac C r].
Proof.
  intros authz mac C r rs. split; [exact (singleton_is_system_step authz mac C r)|].
  split; [exact (upstream_heads authz mac C r)|]. split; [exact (results_are_system_conn mac C rs)|].
  exact (conn_app authz mac C rs [r]).
Qed.
Print Assumptions SystemSeq_projects_to_system.

(* the grown per-property models are views too: LimitSeq.v's connection (C15) -- client-answer kind and
   written requests at every position, under the key latched then; Trailers.v's wire request (C05) --
   every message is Trailers.forward_wire of the request as it is on the wire *)
Theorem SystemSeq_limit_seq_view : forall authz mac C rs k,
  (forall r, limit_view (so_result (serve_request_gen authz mac C r)) =
             serve_one mac (key_value (se_key (rq_env r))) (key_guid (se_key (rq_env r))) (conn_request_of authz C r)) /\
  (Forall (fun r => se_key (rq_env r) = k) rs ->
   map (fun o => limit_view (so_result o)) (serve_conn_gen authz mac C rs) =
   serve_connection mac (key_value k) (key_guid k) (map (conn_request_of authz C) rs)).
Proof.
  intros authz mac C rs k. split; [exact (limit_seq_view_one authz mac C)|exact (limit_seq_view authz mac C rs k)].
Qed.
Print Assumptions SystemSeq_limit_seq_view.

Theorem SystemSeq_trailers_view : forall authz mac C r ip port u,
  In (ip, port, u) (so_upstream (serve_request_gen authz mac C r)) ->
  exists up,
    fst (handled authz (rq_env r) C (rq_sys r)) = Relay up /\ ip = up_ip up /\ port = up_port up /\
    In (ip, port, u_request u) (sy_upstream (system_step_gen authz mac (rq_env r) C (rq_sys r))) /\
    forward_wire mac (audit_of_upstream up) (se_now (rq_env r)) (key_value (se_key (rq_env r)))
                 (key_guid (se_key (rq_env r))) (wire_request_of r) = Some u.
Proof. exact trailers_view. Qed.
Print Assumptions SystemSeq_trailers_view.

(* non-vacuity: one attributed keep-alive connection (nobody -> IMDS) of five requests: relayed and
   signed with spoofed claims in head AND trailer section; refused under a deny policy installed in
   between (403, nothing to the host); relayed again under the rotated key once the policy is back;
   an over-limit declared length (413); host down for the last one (502).  Positions do not interact. *)
Module SystemSeq_examples.
  Import Coq.Strings.String.
  Import System_examples.
  Definition key2 := Some (SignRace.Key (B"guid-2") (B"abcd")).
  Definition chunked_post : sys_request :=
    req (B"POST") (B"/metadata/instance") None (spoof ++ [(B"Trailer", B"x-ms-azure-host-claims")])%list
        [B"ab"; B"c"] None.
  Definition tr_spoof : list (bytes * bytes) :=
    [(B"X-MS-AZURE-HOST-CLAIMS", claims_text true); (B"x-ms-azure-host-date", B"tomorrow")].
  Definition big : sys_request := req (B"POST") (B"/metadata/instance") None spoof [] (Some 102401).
  Definition rs5 : list seq_request :=
    [ {| rq_env := env_ (ROk None) key1 true host_ok; rq_sys := chunked_post; rq_trailers := tr_spoof |};
      {| rq_env := env_ (rules Enforce) key1 true host_ok; rq_sys := get_md; rq_trailers := [] |};
      {| rq_env := env_ (ROk None) key2 true host_ok; rq_sys := chunked_post; rq_trailers := tr_spoof |};
      {| rq_env := env_ (ROk None) key2 true host_ok; rq_sys := big; rq_trailers := [] |};
      {| rq_env := env_ (ROk None) key2 false host_ok; rq_sys := get_md; rq_trailers := [] |} ].

Example SystemSeq_nonvacuous :
  map (fun o => (snd (fst (fst (client_code (sy_client (so_result o))))),
                 map (fun x => (hm_get_all claims_header (all_fields (snd x)),
                                hm_get_all auth_header (all_fields (snd x)),
                                r_body (u_request (snd x)), u_trailers (snd x))) (so_upstream o),
                 map effect_code (sy_effects (so_result o))))
      (serve_accepted zero_mac os false m 40003 (B"127.0.0.1") (B"curl x") rs5) =
  [ (200, [([claims_text false], [auth_value (B"guid-1") []], B"abc", [])], [(0, 0); (2, 200)]);
    (403, [], [(1, 403); (2, 403)]);
    (200, [([claims_text false], [auth_value (B"guid-2") []], B"abc", [])], [(0, 0); (2, 200)]);
    (413, [], []);
    (502, [], [(2, 502)]) ] /\
  map fst (seq_case os false m 40003 (B"127.0.0.1") (B"curl x") rs5) =
  map (fun r => system_case os false m 40003 (B"127.0.0.1") (B"curl x") (rq_env r) (rq_sys r)) rs5.
Proof. vm_compute. split; reflexivity. Qed.
End SystemSeq_examples.

(* ============================================================================================ *)
(* V. The code since /repo c9df24c (finding F3d of C04, found by the System leg)                  *)
(* ============================================================================================ *)
(* Model/SystemWire.v.  Relay.v / Limit.v / Trailers.v / LimitSeq.v -- hence parts I-IV -- are stated over
   Headers.proxy_forward, the forwarding function before the repair "do not sign a transfer-encoding
   header that is not sent".  [system_step_c9] / [serve_conn_c9] are System.v / SystemSeq.v with the written
   request recomputed by Headers.proxy_forward_c9 (Canon.hyper_wire: the transfer-encoding header of an
   EMPTY collected body is dropped before signing); everything else is unchanged.  These are what the
   end-to-end leg evaluates.  The theorems below carry parts I-IV over to the repaired code. *)
From GPA.Model Require Import SystemWire.
From GPA.Proofs Require Import SystemWireProofs.
From GPA Require Import HeadersWireProofs.

(* the repaired system IS System.v on every request that is exempt or has a non-empty body ... *)
Theorem SystemC9_same_unless_empty_signed : forall authz mac E C q,
  empty_signed q = false -> system_step_c9 authz mac E C q = system_step_gen authz mac E C q.
Proof. exact c9_same_unless_empty_signed. Qed.
Print Assumptions SystemC9_same_unless_empty_signed.

(* ... and it never writes where System.v does not: every "nothing is written" statement of parts III and
   IV (root-only, self, forbidden, over the limit, gate, unattributed) holds for it verbatim *)
Theorem SystemC9_no_new_writes : forall authz mac E C q,
  sy_upstream (system_step_gen authz mac E C q) = [] ->
  system_step_c9 authz mac E C q = system_step_gen authz mac E C q.
Proof. exact c9_no_new_writes. Qed.
Print Assumptions SystemC9_no_new_writes.

(* a write of the repaired code implies a write of System.v to the same destination (so System_mediation's
   facts hold for it), with the same client answer and effects; it is the only write *)
Theorem SystemC9_write_implies_system_write : forall authz mac E C q ip port o9,
  In (ip, port, o9) (sy_upstream (system_step_c9 authz mac E C q)) ->
  exists u out,
    fst (handled authz E C q) = Relay u /\
    In (ip, port, out) (sy_upstream (system_step_gen authz mac E C q)) /\
    forward_c9 mac u E q = Forwarded o9 /\
    sy_upstream (system_step_c9 authz mac E C q) = [(ip, port, o9)] /\
    sy_client (system_step_c9 authz mac E C q) = sy_client (system_step_gen authz mac E C q) /\
    sy_effects (system_step_c9 authz mac E C q) = sy_effects (system_step_gen authz mac E C q).
Proof. exact c9_upstream_inv. Qed.
Print Assumptions SystemC9_write_implies_system_write.

(* what the host receives from the repaired code: method, target, body unchanged; exactly one claims and one
   date header; on a signed request exactly one authorization header whose MAC is over the canonical string
   of the head AS WRITTEN -- which, for an empty body, names no transfer-encoding header (F3d repaired) *)
Theorem SystemC9_host_receives : forall authz mac E C q ip port o9,
  In (ip, port, o9) (sy_upstream (system_step_c9 authz mac E C q)) ->
  exists u,
    fst (handled authz E C q) = Relay u /\ ip = up_ip u /\ port = up_port u /\
    r_method o9 = q_method (sq_req q) /\ r_uri o9 = q_uri (sq_req q) /\ r_body o9 = concat (q_frames (sq_req q)) /\
    hm_get_all claims_header (r_headers o9) = [claims_text (k_elevated (up_claims u))] /\
    hm_get_all date_header (r_headers o9) = [se_now E] /\
    (is_signed (key_value (se_key E)) (key_guid (se_key E)) (collected (sq_req q)) = true ->
     exists key guid sig,
       key_value (se_key E) = Some key /\ key_guid (se_key E) = Some guid /\
       compute_signature mac key
         (as_sig_input (q_method (sq_req q)) (concat (q_frames (sq_req q)))
                       (wire_head (audit_of_upstream u) (se_now E) (collected (sq_req q))) (q_uri (sq_req q))) = Some sig /\
       hm_get_all auth_header (r_headers o9) = [auth_value guid sig]) /\
    (concat (q_frames (sq_req q)) = [] ->
     hm_get_all te (wire_head (audit_of_upstream u) (se_now E) (collected (sq_req q))) = []).
Proof. exact c9_host_receives. Qed.
Print Assumptions SystemC9_host_receives.

(* sequences: the repaired connection is SystemSeq's when no request is an empty-bodied signed one, and at
   every position where SystemSeq writes nothing it gives SystemSeq's outcome *)
Theorem SystemC9_sequences : forall authz mac C rs,
  (Forall (fun r => empty_signed (rq_sys r) = false) rs ->
   serve_conn_c9 authz mac C rs = serve_conn_gen authz mac C rs) /\
  (forall i r, nth_error rs i = Some r -> so_upstream (serve_request_gen authz mac C r) = [] ->
     nth_error (serve_conn_c9 authz mac C rs) i = Some (serve_request_gen authz mac C r)) /\
  (forall i, nth_error (serve_conn_c9 authz mac C rs) i =
             option_map (serve_request_c9 authz mac C) (nth_error rs i)).
Proof.
  intros authz mac C rs. split; [exact (seq_c9_same authz mac C rs)|].
  split; [exact (seq_c9_writes_only_where_system_writes authz mac C rs)|exact (seq_c9_nth authz mac C rs)].
Qed.
Print Assumptions SystemC9_sequences.

(* non-vacuity: the request of the false alarm -- POST /a?a=b&c=.. chunked, EMPTY body, key latched:
   System.v (pre-repair pipeline) forwards and signs transfer-encoding, the repaired code drops it; with a
   non-empty body, and for the exempt upload with an empty body, the two agree *)
Module SystemC9_examples.
  Import Coq.Strings.String.
  Import System_examples.
  Definition te_wire : list (bytes * bytes) := [(B"Host", B"x"); (B"Transfer-Encoding", B"chunked")].
  Definition empty_post := req (B"POST") (B"/a") (Some (B"a=b&c=..")) te_wire [] None.
  Definition full_post := req (B"POST") (B"/a") (Some (B"a=b&c=..")) te_wire [B"x"] None.
  Definition empty_put := req (B"PUT") (B"/vmAgentLog") None te_wire [] None.
  Definition te_of (res : sys_result) :=
    flat_map (fun x => hm_get_all te (r_headers (snd x))) (sy_upstream res).
Example SystemC9_nonvacuous :
  empty_signed empty_post = true /\
  te_of (system_step zero_mac E0 (conn_ 40001) empty_post) = [B"chunked"] /\
  te_of (system_step_c9 authorize_at zero_mac E0 (conn_ 40001) empty_post) = [] /\
  List.length (sy_upstream (system_step_c9 authorize_at zero_mac E0 (conn_ 40001) empty_post)) = 1%nat /\
  system_step_c9 authorize_at zero_mac E0 (conn_ 40001) full_post = system_step zero_mac E0 (conn_ 40001) full_post /\
  te_of (system_step_c9 authorize_at zero_mac E0 (conn_ 40001) full_post) = [B"chunked"] /\
  system_step_c9 authorize_at zero_mac E0 (conn_ 40001) empty_put = system_step zero_mac E0 (conn_ 40001) empty_put.
Proof. vm_compute. repeat split. Qed.
End SystemC9_examples.
