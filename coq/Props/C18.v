(* C18 -- Telemetry is delivered at most once, well-formed, in bounded batches.
   Property theorems only: each is closed by [exact lemma] and followed by Print Assumptions.
   Model: Model/Telemetry.v (tied to proxy_agent/src/telemetry/{event_reader,telemetry_event}.rs,
   common/helpers.rs::xml_escape and host_clients/wire_server_client.rs by the correspondence
   check tools/checks/c18.py). *)
From Coq Require Import String.
From GPA Require Import Telemetry TelemetryProofs.
From Coq Require Import Permutation.

(* the limit the property text names; re-proved whenever Consts.v is regenerated *)
Theorem C18_limit_is_64KiB : max_message_size = 65536.
Proof. exact max_message_size_is_64KiB. Qed.
Print Assumptions C18_limit_is_64KiB.

(* escaping: the output holds none of the bytes 60 62 34 39 (less-than, greater-than, double
   quote, apostrophe); every ampersand starts one of the five predefined
   entity references; the CDATA terminator cannot occur.  For every byte string. *)
Theorem C18_escape_safe : forall s : bytes,
  no_byte 60 (xml_escape s) = true /\ no_byte 62 (xml_escape s) = true /\
  no_byte 34 (xml_escape s) = true /\ no_byte 39 (xml_escape s) = true /\
  amp_ok (xml_escape s) = true /\ contains (xml_escape s) cdata_end = false.
Proof. exact xml_escape_safe. Qed.
Print Assumptions C18_escape_safe.

(* the five sequential String::replace calls are one pass over the input (no replacement
   re-reads the output of an earlier one) *)
Theorem C18_escape_single_pass : forall s : bytes, xml_escape s = flat_map esc_byte s.
Proof. exact xml_escape_single_pass. Qed.
Print Assumptions C18_escape_single_pass.

(* escaping loses nothing: expanding the entity references gives the text back *)
Theorem C18_escape_injective : forall s : bytes, unescape (xml_escape s) = s.
Proof. exact unescape_xml_escape. Qed.
Print Assumptions C18_escape_injective.

Theorem C18_escape_injective' : forall s1 s2 : bytes, xml_escape s1 = xml_escape s2 -> s1 = s2.
Proof. exact xml_escape_injective. Qed.
Print Assumptions C18_escape_injective'.

(* well-formedness: for any events whose texts (and the VM / machine texts) are free of control
   characters, the rendered batch is accepted by the parser for the emitted document shape
   (prolog, TelemetryData/Provider, Event elements with one CDATA section each, whose content is
   a sequence of attribute-only Param elements; CDATA ends at the first terminator, attribute
   values end at the first quote and may hold '&' only as an entity reference), and what the
   parser reads back is exactly the events' fields: the texts are data and cannot alter the
   structure. *)
Theorem C18_batch_wellformed : forall (vm : vmmeta) (env : envinfo) (evs : list event),
  vm_text_ok vm = true -> env_text_ok env = true -> forallb event_text_ok evs = true ->
  parse_batch (to_xml (map (fun e => from_event_log e vm env) evs)) =
  Some (map (fun e => tev_fields (from_event_log e vm env)) evs).
Proof. exact batch_wellformed_events. Qed.
Print Assumptions C18_batch_wellformed.

(* every POSTed body is the rendering of the batch of its round, which is non-empty, and is
   smaller than 64 KiB -- for every event list and every pattern of upload failures *)
Theorem C18_batch_bound : forall vm env (evs : list event) (o : oracle) rs o',
  send_events vm env evs o = Some (rs, o') ->
  Forall (fun r => Forall (fun a => fst a = to_xml (r_batch r) /\ r_batch r <> [] /\
                                    blen (fst a) < 65536) (r_attempts r)) rs.
Proof. exact send_events_bodies_64KiB. Qed.
Print Assumptions C18_batch_bound.

(* at most once: the batches and the dropped events together are a rearrangement of the input
   (as multisets of telemetry events): no event is duplicated, none is in two batches, none is
   both batched and dropped *)
Theorem C18_at_most_once : forall vm env (evs : list event) (o : oracle) rs o',
  send_events vm env evs o = Some (rs, o') ->
  Permutation (flat_map r_batch rs ++
               map (fun e => from_event_log e vm env) (flat_map r_dropped rs))
              (map (fun e => from_event_log e vm env) evs).
Proof. exact send_events_partition. Qed.
Print Assumptions C18_at_most_once.

Theorem C18_at_most_once_nodup : forall vm env (evs : list event) (o : oracle) rs o',
  send_events vm env evs o = Some (rs, o') ->
  NoDup (map (fun e => from_event_log e vm env) evs) ->
  NoDup (flat_map r_batch rs ++ map (fun e => from_event_log e vm env) (flat_map r_dropped rs)).
Proof. exact send_events_nodup. Qed.
Print Assumptions C18_at_most_once_nodup.

(* retries resend the identical batch: per round at most 5 POSTs, all with the rendering of the
   round's batch as body, at most one of them answered 2xx and nothing sent after it; nothing
   is sent for an empty batch *)
Theorem C18_retry_same_batch : forall vm env (evs : list event) (o : oracle) rs o',
  send_events vm env evs o = Some (rs, o') ->
  Forall (fun r =>
    (length (r_attempts r) <= 5)%nat /\
    (length (filter snd (r_attempts r)) <= 1)%nat /\
    Forall (fun a => fst a = to_xml (r_batch r)) (r_attempts r) /\
    (forall pre a post, r_attempts r = pre ++ a :: post -> snd a = true -> post = []) /\
    (r_batch r = [] -> r_attempts r = [])) rs.
Proof. exact send_events_retries. Qed.
Print Assumptions C18_retry_same_batch.

(* stopping the reader (service stop: the cancellation token drops the loop at an await point)
   after any number n of POSTs: among the POSTs the host has seen, each event is in at most one
   accepted (2xx) batch *)
Theorem C18_stopped_at_most_once : forall vm env (evs : list event) (o : oracle) rs o' (n : nat),
  send_events vm env evs o = Some (rs, o') ->
  NoDup (map (fun e => from_event_log e vm env) evs) ->
  NoDup (accepted (stopped_after n rs)).
Proof. exact stopped_at_most_once. Qed.
Print Assumptions C18_stopped_at_most_once.

(* an event too large for any batch (alone it already reaches the limit) is dropped, exactly
   those are dropped, and every other event is still batched (in pop order) *)
Theorem C18_oversize_dropped_not_blocking : forall vm env (evs : list event) (o : oracle) rs o',
  send_events vm env evs o = Some (rs, o') ->
  map (fun e => from_event_log e vm env) (flat_map r_dropped rs) =
    filter tover (map (fun e => from_event_log e vm env) (rev evs)) /\
  flat_map r_batch rs =
    filter (fun t => negb (tover t)) (map (fun e => from_event_log e vm env) (rev evs)).
Proof. exact send_events_oversize. Qed.
Print Assumptions C18_oversize_dropped_not_blocking.

(* termination: fuel = number of events always suffices (every round consumes an event), and
   more fuel changes nothing *)
Theorem C18_terminates : forall vm env (evs : list event) (o : oracle),
  send_events vm env evs o <> None /\
  forall fuel, (length evs <= fuel)%nat ->
    send_loop vm env fuel (rev evs) o = send_events vm env evs o.
Proof. exact send_events_total. Qed.
Print Assumptions C18_terminates.

(* one pass over the event directory, whatever the contents and the upload outcomes: it
   terminates; afterwards the directory holds exactly the entries that are not ".json" files;
   every ".json" file (readable or not) was handled, in name order *)
Theorem C18_files_removed : forall vm env (dir : list file) (o : oracle),
  exists frs dir' n o', process_events vm env dir o = Some (frs, dir', n, o') /\
    dir' = filter (fun f => negb (is_json_name (fst f))) dir /\
    map f_name frs = map fst (search_files dir).
Proof. exact process_events_spec. Qed.
Print Assumptions C18_files_removed.

(* the evaluation-only variant used by the correspondence check (size carried along instead of
   re-rendered) is the same function *)
Theorem C18_fast_model_equal : forall vm env (dir : list file) (o : oracle),
  process_events_fast vm env dir o = process_events vm env dir o.
Proof. exact process_events_fast_eq. Qed.
Print Assumptions C18_fast_model_equal.

(* non-vacuity: three events, the middle one too large, first POST answered with a failure.
   Pop order is last-first: round 1 batches e2 (the large event overflows it and is put back),
   is POSTed twice with the same body (fail, ok); round 2 drops the large event without a POST;
   round 3 delivers e1. *)
Example C18_nonvacuous :
  let vm := mk_vm (B"c") (B"t") (B"r") (B"ri") (B"s") (B"g") (B"v") 1 in
  let env := mk_env (B"Linux") (B"{}") 1024 2 in
  let ev m i := mk_event (B"Info") m (B"1.0") (B"task") (B"12") (B"+7") i (B"ts") in
  let big := repeat 38 (N.to_nat 14000) in      (* 14000 '&' -> 70000 bytes escaped *)
  match send_events vm env [ev (B"a<b") (B"1"); ev big (B"2"); ev (B"]]>") (B"3")] [false; true] with
  | Some (rs, _) =>
      map (fun r => (map t_context3 (r_batch r), map ev_opid (r_dropped r),
                     map snd (r_attempts r))) rs =
      [([B"3"], [], [false; true]); ([], [B"2"], []); ([B"1"], [], [true])]
  | None => False
  end.
Proof. vm_compute. reflexivity. Qed.

Example C18_escape_nonvacuous :
  xml_escape (B"a&b<c>]]>""'&amp;") = B"a&amp;b&lt;c&gt;]]&gt;&quot;&apos;&amp;amp;" /\
  unescape (B"a&amp;b&lt;c&gt;]]&gt;&quot;&apos;&amp;amp;") = B"a&b<c>]]>""'&amp;".
Proof. vm_compute. split; reflexivity. Qed.
