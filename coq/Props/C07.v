(* C07 -- Attribution is single-use: a connection never inherits another's identity.
   Property theorems only: each is closed by [exact lemma] and followed by Print Assumptions.
   Model: Model/Accept.v (two-step accept over the source-port-keyed audit map, per-connection
   context written once), tied to proxy_connection.rs / redirector.rs / proxy_server.rs by the
   correspondence check tools/checks/c07.py (end-to-end runs of the real listener).

   Reading guide.  A history is ANY list of operations: kernel writes [KRecord c p e] (c is a ghost
   tag naming the connection the write was made for), the two accept steps [Lookup c p] and
   [Remove c ok] of each connection (separately schedulable), requests and closes.  [exclusive h]
   is the named environment assumption SOURCE-PORT EXCLUSIVITY (from the kernel's write for c on
   port p until c's own remove step nothing else touches port p); it constrains nothing about
   steps on different ports, requests or closes.  [removes_ok h] is the hypothesis that no map
   delete fails (the code only logs such a failure). *)
From GPA Require Import Accept AcceptProofs AcceptAddr AcceptAddrProofs Server ServerProofs.

Section C07.
Context {R Q : Type}.
Notation state := (state R).
Notation op := (op R Q).

(* The record is consumed when the connection is accepted: after both accept steps of c (the
   remove succeeding), port p has no record -- from ANY state, with ANY steps of other
   connections and kernel writes to other ports scheduled between c's two steps. *)
Theorem C07_consumed : forall (s : state) (c p : N) (h : list op),
  conn_of s c = None -> no_krecord_on p h = true -> removes_ok h = true ->
  alookup N.eqb p (audit (final s (Lookup c p :: h ++ [Remove c true]))) = None.
Proof. exact consumed. Qed.

(* A later connection c' reusing the same source port without a fresh kernel record is
   unattributed ... *)
Theorem C07_reuse_unattributed : forall (s : state) (c p : N) (h1 h2 : list op) (c' : N),
  conn_of s c = None -> conn_of s c' = None -> c' <> c ->
  no_krecord_on p (h1 ++ h2) = true -> removes_ok (h1 ++ h2) = true ->
  no_lookup_of c' (h1 ++ h2) = true ->
  ctx_in (final s ((Lookup c p :: h1 ++ [Remove c true]) ++ h2 ++ [Lookup c' p])) c' = Some None.
Proof. exact reuse_unattributed. Qed.

(* ... and every request ever served on c' is decided with the unattributed context *)
Theorem C07_reuse_requests_unattributed :
  forall (s : state) (c p : N) (h1 h2 : list op) (c' : N) (h3 : list op) (r : Q) (x : option R),
  conn_of s c = None -> conn_of s c' = None -> c' <> c ->
  no_krecord_on p (h1 ++ h2) = true -> removes_ok (h1 ++ h2) = true ->
  no_lookup_of c' (h1 ++ h2) = true ->
  In (Decided c' r x)
     (outs s (((Lookup c p :: h1 ++ [Remove c true]) ++ h2 ++ [Lookup c' p]) ++ h3)) ->
  x = None.
Proof. exact reuse_requests_unattributed. Qed.

(* Every request on a connection -- keep-alive, any number, whatever is interleaved -- is decided
   with the context stored for that connection, which is written once: it is the value the audit
   map had under the connection's source port at the moment of the connection's Lookup. *)
Theorem C07_requests_use_conn_ctx : forall (s : state) (h : list op) (c : N) (r : Q) (x : option R),
  conn_of s c = None ->
  In (Decided c r x) (outs s h) ->
  ctx_in (final s h) c = Some x /\
  exists h1 p h2, h = h1 ++ Lookup c p :: h2 /\ no_lookup_of c h1 = true /\
                  x = alookup N.eqb p (audit (final s h1)).
Proof.
  intros s h c r x Hn Hin. split.
  - exact (decided_final_ctx h s c r x Hin).
  - exact (decided_ctx_from_lookup h s c r x Hn Hin).
Qed.

Theorem C07_requests_same_ctx :
  forall (s : state) (h : list op) (c : N) (r1 r2 : Q) (x1 x2 : option R),
  In (Decided c r1 x1) (outs s h) -> In (Decided c r2 x2) (outs s h) -> x1 = x2.
Proof. exact (fun s h c r1 r2 x1 x2 => decided_same_ctx h s c r1 x1 r2 x2). Qed.

(* Under every exclusive schedule: an identity can only come from the kernel write made for that
   very connection on the very port it was accepted from (never another connection's) ... *)
Theorem C07_ctx_only_own_record : forall (h : list op) (c : N) (cs : cstate R) (e : R),
  exclusive h = true -> removes_ok h = true ->
  conn_of (final init h) c = Some cs -> cs_ctx cs = Some e ->
  In (KRecord c (cs_port cs) e) h.
Proof. exact ctx_only_own_record. Qed.

(* ... the connection the kernel wrote a record for gets exactly that record ... *)
Theorem C07_ctx_is_own_record : forall (h : list op) (c p : N) (e : R),
  exclusive h = true -> removes_ok h = true ->
  In (KRecord c p e) h -> In (Lookup c p) h ->
  ctx_in (final init h) c = Some (Some e).
Proof. exact ctx_is_own_record. Qed.

(* ... and a connection the kernel wrote nothing for (direct, or reusing a port) has none *)
Theorem C07_ctx_none_without_record : forall (h : list op) (c p : N),
  exclusive h = true -> removes_ok h = true ->
  In (Lookup c p) h -> (forall e, ~ In (KRecord c p e) h) ->
  ctx_in (final init h) c = Some None.
Proof. exact ctx_none_without_record. Qed.

(* The two combined, per request: whatever the concurrency, each request of each connection is
   decided with that connection's own record (or with none if the kernel wrote none for it). *)
Theorem C07_requests_decided_with_own_record :
  forall (h : list op) (c : N) (r : Q) (x : option R),
  exclusive h = true -> removes_ok h = true ->
  In (Decided c r x) (outs init h) ->
  exists p, In (Lookup c p) h /\
    match x with
    | Some e => In (KRecord c p e) h
    | None => forall e, ~ In (KRecord c p e) h
    end.
Proof. exact decided_with_own_record. Qed.

(* "Under every interleaving": the real accept is two separately scheduled steps; under every
   exclusive schedule (with map deletes succeeding) it is indistinguishable from the ATOMIC
   specification in which an accept looks the record up and consumes it in one indivisible step
   ([spec_run]: Lookup = atomic accept, Remove = nothing): same decision context for every request,
   same context for every connection. *)
Theorem C07_two_step_accept_refines_atomic : forall h : list op,
  exclusive h = true -> removes_ok h = true ->
  outs init h = snd (spec_run init h) /\
  forall c, ctx_in (final init h) c = ctx_in (fst (spec_run init h)) c.
Proof. exact two_step_refines_atomic. Qed.

(* The remove failure, honestly.  A failed remove is only logged: it changes neither the map nor
   any connection's context ... *)
Theorem C07_remove_failure_is_logged_not_trusted : forall (s : state) (c c' : N) (x : option R),
  audit (fst (step s (Remove c false : op))) = audit s /\
  (ctx_in s c' = Some x -> ctx_in (fst (step s (Remove c false : op))) c' = Some x).
Proof.
  intros s c c' x. split.
  - exact (failed_remove_keeps_map s c).
  - exact (failed_remove_keeps_ctx s c c' x).
Qed.

(* ... so the record STAYS, and without the hypothesis [removes_ok] the next connection from that
   port inherits it: for every state, port and record *)
Theorem C07_without_remove_ok_stale_record_inherited :
  forall (s : state) (c p : N) (e : R) (c' : N),
  conn_of s c = None -> conn_of s c' = None -> c' <> c ->
  alookup N.eqb p (audit s) = Some e ->
  ctx_in (final s [Lookup c p : op; Remove c false; Lookup c' p]) c' = Some (Some e).
Proof. exact failed_remove_stale. Qed.

End C07.

Print Assumptions C07_consumed.
Print Assumptions C07_reuse_unattributed.
Print Assumptions C07_reuse_requests_unattributed.
Print Assumptions C07_requests_use_conn_ctx.
Print Assumptions C07_requests_same_ctx.
Print Assumptions C07_ctx_only_own_record.
Print Assumptions C07_ctx_is_own_record.
Print Assumptions C07_ctx_none_without_record.
Print Assumptions C07_requests_decided_with_own_record.
Print Assumptions C07_two_step_accept_refines_atomic.
Print Assumptions C07_remove_failure_is_logged_not_trusted.
Print Assumptions C07_without_remove_ok_stale_record_inherited.

(* ---------------------------------------------------------------------------------------------- *)
(* Refutations: what fails without each hypothesis (witnesses by computation, R = Q = N)            *)
(* ---------------------------------------------------------------------------------------------- *)
Definition w_e1 : N := 111.   (* stands for "uid 0 / pid 1 / WireServer" *)

(* without [removes_ok]: an EXCLUSIVE history in which a direct connection (no kernel write for
   it) ends up with another connection's record *)
Theorem C07_ctx_only_own_record_refuted_without_remove_ok :
  exists h : list (op N N),
    exclusive h = true /\ removes_ok h = false /\
    ctx_in (final init h) 2 = Some (Some w_e1) /\ forall p e, ~ In (KRecord 2 p e) h.
Proof.
  exists [KRecord 1 5000 w_e1; Lookup 1 5000; Remove 1 false; Close 1; Lookup 2 5000; Remove 2 true].
  split; [vm_compute; reflexivity|]. split; [vm_compute; reflexivity|].
  split; [vm_compute; reflexivity|].
  intros p e H. cbn in H. repeat (destruct H as [H|H]; [discriminate|]). exact H.
Qed.
Print Assumptions C07_ctx_only_own_record_refuted_without_remove_ok.

(* without [exclusive] (source-port exclusivity): a second connection accepted from the same port
   inside the first one's lookup/remove window gets the first one's record, with every remove
   succeeding *)
Theorem C07_ctx_only_own_record_refuted_without_exclusivity :
  exists h : list (op N N),
    exclusive h = false /\ removes_ok h = true /\
    ctx_in (final init h) 2 = Some (Some w_e1) /\ forall p e, ~ In (KRecord 2 p e) h.
Proof.
  exists [KRecord 1 5000 w_e1; Lookup 1 5000; Lookup 2 5000; Remove 1 true; Remove 2 true].
  split; [vm_compute; reflexivity|]. split; [vm_compute; reflexivity|].
  split; [vm_compute; reflexivity|].
  intros p e H. cbn in H. repeat (destruct H as [H|H]; [discriminate|]). exact H.
Qed.
Print Assumptions C07_ctx_only_own_record_refuted_without_exclusivity.

(* ---------------------------------------------------------------------------------------------- *)
(* Tie to C01's request path                                                                        *)
(* ---------------------------------------------------------------------------------------------- *)
(* Server.accept (the one-step accept C01 reasons about) is the two steps run back to back *)
Theorem C07_two_step_is_server_accept :
  forall (os : os_view) (m : audit_map) (p c : N) (ok : bool),
  let s' := final (Q := unit) {| audit := m; conns := [] |} [Lookup c p; Remove c ok] in
  option_map (server_ctx os) (ctx_in s' c) = Some (fst (accept os (negb ok) m p)) /\
  audit s' = snd (accept os (negb ok) m p).
Proof. exact two_step_is_server_accept. Qed.
Print Assumptions C07_two_step_is_server_accept.

(* "treated as unattributed AND REFUSED": the handler answers 421 and writes nothing upstream *)
Theorem C07_unattributed_is_refused_421 : forall (os : os_view) (e : env) (r : request),
  e_counter_ok e = true -> has_traversal r = false -> is_provision r = false ->
  fst (handle e (server_ctx os None) r) = Resp 421 /\
  writes_upstream (snd (handle e (server_ctx os None) r)) = false.
Proof. exact unattributed_is_421. Qed.
Print Assumptions C07_unattributed_is_refused_421.

(* ---------------------------------------------------------------------------------------------- *)
(* Full source addresses (Model/AcceptAddr.v): connections from ANY local addresses                 *)
(* ---------------------------------------------------------------------------------------------- *)
(* WHAT THE KEY IS.  Kernel side (linux-ebpf/socket.h sock_addr_audit_key {protocol, source_port}, written by
   update_audit_map_entry_sk(skc.skc_num, ..)) and Rust side (sock_addr_audit_key::from_source_port(client_addr.port()))
   key the audit map by (TCP, SOURCE PORT): the client's local ip is not part of the key, so two clients that differ only
   in their local address share a slot. *)
Theorem C07_key_is_the_source_port_only : forall ip1 ip2 p : N,
  kernel_key (ip1, p) = rust_key (ip2, p).
Proof. exact key_is_port_only. Qed.
Print Assumptions C07_key_is_the_source_port_only.

(* consumed, for a client at any address, whatever is scheduled between its two accept steps *)
Theorem C07_consumed_any_address :
  forall (R Q : Type) (s : state R) (c : N) (a : addr) (h : list (aop R Q)),
  conn_of s c = None -> no_write_on_port (snd a) h = true -> aremoves_ok h = true ->
  alookup N.eqb (snd a) (audit (afinal s (ALookup c a :: h ++ [ARemove c true]))) = None.
Proof. exact (fun R Q => @a_consumed R Q). Qed.
Print Assumptions C07_consumed_any_address.

(* the source port reused from ANY local ip ip' (the same or another one) without a fresh kernel write: unattributed *)
Theorem C07_reuse_unattributed_any_address :
  forall (R Q : Type) (s : state R) (c : N) (a : addr) (h1 h2 : list (aop R Q)) (c' ip' : N),
  conn_of s c = None -> conn_of s c' = None -> c' <> c ->
  no_write_on_port (snd a) (h1 ++ h2) = true -> aremoves_ok (h1 ++ h2) = true ->
  no_accept_of c' (h1 ++ h2) = true ->
  ctx_in (afinal s ((ALookup c a :: h1 ++ [ARemove c true]) ++ h2 ++ [ALookup c' (ip', snd a)])) c' = Some None.
Proof. exact (fun R Q => @a_reuse_unattributed R Q). Qed.
Print Assumptions C07_reuse_unattributed_any_address.

(* own record, for histories of connections from any local addresses, under every schedule that is exclusive PER PORT *)
Theorem C07_ctx_only_own_record_any_address :
  forall (R Q : Type) (h : list (aop R Q)) (c : N) (cs : cstate R) (e : R),
  aexclusive h = true -> aremoves_ok h = true ->
  conn_of (afinal init h) c = Some cs -> cs_ctx cs = Some e ->
  exists a, In (AKRecord c a e) h /\ snd a = cs_port cs.
Proof. exact (fun R Q => @a_ctx_only_own_record R Q). Qed.
Print Assumptions C07_ctx_only_own_record_any_address.

Theorem C07_ctx_is_own_record_any_address :
  forall (R Q : Type) (h : list (aop R Q)) (c : N) (a : addr) (e : R),
  aexclusive h = true -> aremoves_ok h = true ->
  In (AKRecord c a e) h -> In (ALookup c a) h ->
  ctx_in (afinal init h) c = Some (Some e).
Proof. exact (fun R Q => @a_ctx_is_own_record R Q). Qed.
Print Assumptions C07_ctx_is_own_record_any_address.

Theorem C07_ctx_none_without_record_any_address :
  forall (R Q : Type) (h : list (aop R Q)) (c : N) (a : addr),
  aexclusive h = true -> aremoves_ok h = true ->
  In (ALookup c a) h -> (forall a' e, snd a' = snd a -> ~ In (AKRecord c a' e) h) ->
  ctx_in (afinal init h) c = Some None.
Proof. exact (fun R Q => @a_ctx_none_without_record R Q). Qed.
Print Assumptions C07_ctx_none_without_record_any_address.

(* exclusivity of full ADDRESSES (what TCP's 4-tuple uniqueness gives when clients bind different local addresses) is
   not enough: two connections with different addresses 127.0.0.1:5000 and 127.0.0.2:5000, the second accepted inside
   the first one's lookup/remove window, and the second gets the first one's record *)
Theorem C07_address_exclusivity_is_not_enough :
  exists h : list (aop N N),
    (2130706433, 5000) <> (2130706434, 5000) /\ aexclusive h = false /\ aremoves_ok h = true /\
    ctx_in (afinal init h) 2 = Some (Some w_e1) /\ forall a e, ~ In (AKRecord 2 a e) h.
Proof.
  exists [AKRecord 1 (2130706433, 5000) w_e1; ALookup 1 (2130706433, 5000); ALookup 2 (2130706434, 5000);
          ARemove 1 true; ARemove 2 true].
  split; [discriminate|]. split; [vm_compute; reflexivity|]. split; [vm_compute; reflexivity|].
  split; [vm_compute; reflexivity|].
  intros a e H. cbn in H. repeat (destruct H as [H|H]; [discriminate|]). exact H.
Qed.
Print Assumptions C07_address_exclusivity_is_not_enough.

(* ---------------------------------------------------------------------------------------------- *)
(* Non-vacuity                                                                                      *)
(* ---------------------------------------------------------------------------------------------- *)
(* an exclusive history with real interleaving: connections 1 (port 5000) and 2 (port 5001) are
   accepted concurrently -- 1's lookup, the kernel's write for 2, 2's lookup, 2's remove, a request
   on 2, 1's remove -- then 3 reuses port 5000 without a record and 4 comes with a fresh record on
   5000; keep-alive requests on all of them *)
Definition w_hist : list (op N N) :=
  [KRecord 1 5000 111; Lookup 1 5000; KRecord 2 5001 222; Lookup 2 5001; Remove 2 true;
   Request 2 7; Remove 1 true; Request 1 8; Request 1 9; Request 2 10; Close 1;
   Lookup 3 5000; Request 3 11; Request 3 12; Close 3;
   KRecord 4 5000 444; Lookup 4 5000; Remove 4 true; Request 4 13; Request 2 14].

Example C07_nonvacuous :
  exclusive w_hist = true /\ removes_ok w_hist = true /\
  outs init w_hist =
    [Decided 2 7 (Some 222); Decided 1 8 (Some 111); Decided 1 9 (Some 111);
     Decided 2 10 (Some 222); Decided 3 11 None; Decided 3 12 None; Decided 4 13 (Some 444);
     Decided 2 14 (Some 222)] /\
  audit (final init w_hist) = [].
Proof. vm_compute. repeat split. Qed.
