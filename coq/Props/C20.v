(* C20 -- Extension health has hysteresis.  Property theorems only: each is closed by
   [exact lemma] and followed by Print Assumptions.  Model: Model/Health.v (tied to
   proxy_agent_extension/src/common.rs and service_state.rs by the correspondence check). *)
From GPA Require Import Health HealthProofs.
From GPA Require Import HealthHistoryProofs.
From GPA Require Import HealthExactProofs.

(* Error only after at least 20 consecutive failed observations: whenever the report after a
   history [obs] (from StatusState::new()) is Error, the history has >= 20 observations and
   its last 20 are all failures. *)
Theorem C20_error_needs_20 : forall obs : list bool,
  cur (run_state ss_new obs) = Error ->
  (20 <= length obs)%nat /\ Forall (fun x => x = false) (firstn 20 (rev obs)).
Proof. exact error_last_20_failed. Qed.
Print Assumptions C20_error_needs_20.

(* never Error directly after a success -- from ANY state, reachable or not *)
Theorem C20_never_error_after_success : forall s : status_state,
  cur (update_state s true) <> Error.
Proof. exact success_never_error. Qed.
Print Assumptions C20_never_error_after_success.

(* a single success always moves the report away from Error *)
Theorem C20_success_leaves_error : forall s : status_state,
  cur s = Error -> cur (update_state s true) <> Error.
Proof. intros s _. exact (success_never_error s). Qed.
Print Assumptions C20_success_leaves_error.

(* two consecutive successes always yield Success -- from ANY state *)
Theorem C20_two_successes : forall s : status_state,
  cur (update_state (update_state s true) true) = Success.
Proof. exact two_successes. Qed.
Print Assumptions C20_two_successes.

(* counters saturating at MAX_CONSECUTIVE_COUNT never change the report: for every observation
   sequence (of any length) the outputs equal those of the machine with unbounded counters *)
Theorem C20_saturation_harmless : forall obs : list bool,
  run ss_new obs = run_unb ss_new obs.
Proof. exact saturation_harmless. Qed.
Print Assumptions C20_saturation_harmless.

(* notifications: first occurrence of a key is emitted *)
Theorem C20_notify_first : forall (m : smap) (k v : bytes) (mx : N),
  alookup beq k m = None ->
  snd (update_entry m k v mx) = true /\ alookup beq k (fst (update_entry m k v mx)) = Some (v, 1).
Proof. exact update_first. Qed.
Print Assumptions C20_notify_first.

(* a change of value is emitted *)
Theorem C20_notify_on_change : forall (m : smap) (k v v0 : bytes) (c mx : N),
  alookup beq k m = Some (v0, c) -> v0 <> v ->
  snd (update_entry m k v mx) = true /\ alookup beq k (fst (update_entry m k v mx)) = Some (v, 1).
Proof. exact update_changed. Qed.
Print Assumptions C20_notify_on_change.

(* repetitions: after an emission, the next 119 identical notifications are silent and the
   120th is emitted -- at most once per 120 repetitions *)
Theorem C20_notify_rate : forall (m : smap) (k v : bytes),
  alookup beq k m = Some (v, 1) ->
  run_entries m (repeat (k, v) 120) Consts.ext_max_state_count = repeat false 119 ++ [true].
Proof. exact notify_rate. Qed.
Print Assumptions C20_notify_rate.

(* a value that returns to one notified before is a change again: A, B, A emits at B and at the second A
   (the entry of a key holds ONE value; there is no memory of older values) *)
Theorem C20_notify_value_returns : forall (m : smap) (k v v' : bytes) (c mx : N),
  alookup beq k m = Some (v, c) -> v <> v' ->
  run_entries m [(k, v'); (k, v)] mx = [true; true].
Proof. exact value_returns. Qed.
Print Assumptions C20_notify_value_returns.

(* other keys are not disturbed *)
Theorem C20_notify_keys_independent : forall (m : smap) (k k' v : bytes) (mx : N),
  beq k' k = false -> alookup beq k' (fst (update_entry m k v mx)) = alookup beq k' m.
Proof. exact update_other_key. Qed.
Print Assumptions C20_notify_keys_independent.

(* ---- whole histories with several keys interleaved ---- *)

(* what is emitted for key k depends only on k's own notifications, whatever else is notified in between *)
Theorem C20_notify_history_keys_independent : forall (ops : list (bytes * bytes)) (m : smap) (k : bytes) (mx : N),
  kouts k ops (run_entries m ops mx) = run_entries m (kproj k ops) mx.
Proof. exact proj_outs. Qed.
Print Assumptions C20_notify_history_keys_independent.

(* an emission leaves the key at (value, 1) ... *)
Theorem C20_emission_resets : forall (m : smap) (k v : bytes) (mx : N),
  snd (update_entry m k v mx) = true -> alookup beq k (fst (update_entry m k v mx)) = Some (v, 1).
Proof. exact emission_resets. Qed.
Print Assumptions C20_emission_resets.

(* ... and from there, in ANY interleaving with other keys, the next 119 notifications of the same value are
   silent and the 120th is emitted: at most once per 120 repetitions, at history level *)
Theorem C20_notify_rate_interleaved : forall (ops : list (bytes * bytes)) (m : smap) (k v : bytes),
  alookup beq k m = Some (v, 1) -> kproj k ops = repeat (k, v) 120 ->
  kouts k ops (run_entries m ops Consts.ext_max_state_count) = repeat false 119 ++ [true].
Proof. exact rate_interleaved_120. Qed.
Print Assumptions C20_notify_rate_interleaved.

(* a notification is silent only when it repeats the stored value below the limit *)
Theorem C20_silent_only_when_repeated : forall (m : smap) (k v : bytes) (mx : N),
  snd (update_entry m k v mx) = false ->
  exists c, alookup beq k m = Some (v, c) /\ (c < mx)%N /\ alookup beq k (fst (update_entry m k v mx)) = Some (v, (c + 1)%N).
Proof. exact silent_means_same. Qed.
Print Assumptions C20_silent_only_when_repeated.

(* ---- monitor-loop level: one poll of the agent's aggregate status file = one observation ---- *)

(* Error is reported only after at least 20 consecutive failed POLLS (unreadable file or version mismatch) *)
Theorem C20_poll_error_needs_20 : forall ps : list poll,
  cur (state_after_polls ss_new ps) = Error ->
  (20 <= length ps)%nat /\ Forall (fun p => poll_ok p = false) (firstn 20 (rev ps)).
Proof. exact poll_error_last_20_failed. Qed.
Print Assumptions C20_poll_error_needs_20.

Theorem C20_healthy_poll_never_error : forall s : status_state, cur (poll_step s PollHealthy) <> Error.
Proof. exact healthy_poll_never_error. Qed.
Print Assumptions C20_healthy_poll_never_error.

Theorem C20_two_healthy_polls : forall s : status_state,
  cur (poll_step (poll_step s PollHealthy) PollHealthy) = Success.
Proof. exact two_healthy_polls. Qed.
Print Assumptions C20_two_healthy_polls.

(* StatusState::default() is StatusState::new() (the monitor loop may reset to either) *)
Theorem C20_default_is_new : ss_default = ss_new.
Proof. exact default_is_new. Qed.
Print Assumptions C20_default_is_new.

(* ---- exact characterisation (both directions of the hysteresis) ---- *)

(* after ANY history from StatusState::new(): the report is Error if and only if the history ends with at
   least 20 consecutive failed observations *)
Theorem C20_error_iff_sustained_failure : forall obs : list bool,
  cur (run_state ss_new obs) = Error <-> (20 <= trailing false obs)%N.
Proof. exact error_iff_20. Qed.
Print Assumptions C20_error_iff_sustained_failure.

(* whatever happened before, 20 or more further consecutive failures are reported as Error: the hysteresis
   never hides a sustained failure *)
Theorem C20_sustained_failure_reports_error : forall (obs : list bool) (n : nat),
  (20 <= n)%nat -> cur (run_state ss_new (obs ++ repeat false n)) = Error.
Proof. exact sustained_failure_reports_error. Qed.
Print Assumptions C20_sustained_failure_reports_error.

(* fewer than 20 failures after a success are never reported as Error, whatever happened before *)
Theorem C20_short_failure_never_error : forall (obs : list bool) (n : nat),
  (n < 20)%nat -> cur (run_state ss_new (obs ++ true :: repeat false n)) <> Error.
Proof. exact short_failure_never_error. Qed.
Print Assumptions C20_short_failure_never_error.

(* a failed observation is never reported as Success *)
Theorem C20_failure_never_success : forall obs : list bool,
  cur (run_state ss_new (obs ++ [false])) <> Success.
Proof. exact failure_never_success. Qed.
Print Assumptions C20_failure_never_success.

(* the same at the level of polls of the aggregate status file *)
Theorem C20_poll_error_iff : forall ps : list poll,
  cur (state_after_polls ss_new ps) = Error <-> (20 <= trailing false (map poll_ok ps))%N.
Proof. exact poll_error_iff. Qed.
Print Assumptions C20_poll_error_iff.

(* one success after a history is reported as Success exactly when the history does not end with 20 or more
   failures (i.e. the report before it was not Error) *)
Theorem C20_success_after : forall obs : list bool,
  cur (run_state ss_new (obs ++ [true])) = Success <-> (trailing false obs < 20)%N.
Proof. exact success_after. Qed.
Print Assumptions C20_success_after.

(* recovery from Error takes exactly two successes: Transitioning after the first, Success after the second *)
Theorem C20_recovery_needs_two : forall obs : list bool,
  (20 <= trailing false obs)%N ->
  cur (run_state ss_new (obs ++ [true])) = Transitioning /\
  cur (run_state ss_new (obs ++ [true; true])) = Success.
Proof. exact recovery_needs_two. Qed.
Print Assumptions C20_recovery_needs_two.

(* non-vacuity: a reachable Error state exists (20 failures), 19 do not suffice *)
Example C20_nonvacuous :
  cur (run_state ss_new (repeat false 20)) = Error /\
  cur (run_state ss_new (repeat false 19)) = Transitioning /\
  cur (run_state ss_new (repeat false 20 ++ [true])) = Transitioning /\
  cur (run_state ss_new (repeat false 20 ++ [true; true])) = Success.
Proof. vm_compute. repeat split. Qed.
