(* C17 -- Agent upgrade is reversible: backup, install and restore reinstate files exactly.
   Property theorems only: each is closed by [exact lemma] and followed by Print Assumptions.
   Model: Model/SetupFs.v + Model/Setup.v (tied to proxy_agent_setup/src/{main,linux,backup,
   running,setup}.rs and proxy_agent_shared/src/service/linux_service.rs by the correspondence
   check tools/checks/c17.py, which runs the REAL proxy_agent_setup binary in a private root).

   Every theorem is for ALL worlds (arbitrary file contents and modes, arbitrary other files,
   any package beside the tool, any service state), for EVERY oracle [runnable] deciding
   whether executing a file with `--version` succeeds, and for EVERY oracle [fails] deciding which
   systemctl invocations fail (non-zero exit, no effect): what is said about FILES, exit codes and
   the call/write log holds whatever systemctl answers; what is said about the resulting service
   state (running, enabled) carries the hypothesis that no invocation fails. *)
From GPA Require Import Setup SetupProofs.

(* REVERSIBLE.  From any world in which a version is installed (the four system files present,
   the agent executable answers --version), after backup; install (of whatever package is there,
   complete, partial, broken or absent); restore (with or without deleting the backup) the four
   system files are exactly (mode and content) what they were, and the service is running and
   enabled. *)
Theorem C17_reversible : forall (runnable : file -> bool) (fails : verb -> list event -> bool) (d : bool) (w : world),
  installed runnable w = true ->
  let w' := exec runnable fails (Restore d) (exec runnable fails Install (exec runnable fails Backup w)) in
  (forall l, In l sys_locs -> fs_get l (wfs w') = fs_get l (wfs w)) /\
  ((forall v l, fails v l = false) -> wrunning w' = true /\ wenabled w' = true).
Proof. exact reversible. Qed.
Print Assumptions C17_reversible.

(* REVERSIBLE, file by file.  When the installed agent answers --version, every system file that
   was present is reinstated exactly by backup; install; restore -- also from a partial install
   (a file that was absent is not constrained: C17_reversible_needs_all_files). *)
Theorem C17_reversible_each_present_file : forall (runnable : file -> bool) (fails : verb -> list event -> bool)
    (d : bool) (w : world) (l : loc) (f : file),
  version_ok runnable SysExe w = true -> In l sys_locs -> fs_get l (wfs w) = Some f ->
  fs_get l (wfs (exec runnable fails (Restore d) (exec runnable fails Install (exec runnable fails Backup w)))) = Some f.
Proof. exact reversible_each. Qed.
Print Assumptions C17_reversible_each_present_file.

(* STOP BEFORE REPLACE.  In what ANY command appends to the ordered call/write log, every
   creation, replacement or removal of a system file is preceded by a `systemctl stop` with no
   `systemctl start` between that stop and the mutation ... *)
Theorem C17_stop_before_replace : forall (runnable : file -> bool) (fails : verb -> list event -> bool) (c : cmd) (w : world)
    (pre : list event) (ev : event) (post : list event),
  step_events runnable fails c w = pre ++ ev :: post -> sys_mutation ev = true ->
  exists p1 p2, pre = p1 ++ ECall VStop :: p2 /\ ~ In (ECall VStart) p2.
Proof. exact stop_before_replace. Qed.
Print Assumptions C17_stop_before_replace.

(* ... hence nothing is replaced after the start (a later mutation needs another stop) ... *)
Theorem C17_no_replace_after_start : forall (runnable : file -> bool) (fails : verb -> list event -> bool) (c : cmd) (w : world)
    (pre mid : list event) (ev : event) (post : list event),
  step_events runnable fails c w = pre ++ ECall VStart :: mid ++ ev :: post ->
  sys_mutation ev = true -> In (ECall VStop) mid.
Proof. exact no_replace_after_start. Qed.
Print Assumptions C17_no_replace_after_start.

(* ... install, restore and uninstall do nothing before `systemctl stop` ... *)
Theorem C17_stop_first : forall (runnable : file -> bool) (fails : verb -> list event -> bool) (c : cmd) (w : world),
  match c with Install | Restore _ | Uninstall _ => True | _ => False end ->
  step_events runnable fails c w = [] \/ exists es, step_events runnable fails c w = ECall VStop :: es.
Proof. exact stop_first. Qed.
Print Assumptions C17_stop_first.

(* ... and a complete install / a restore of a complete backup log exactly: stop, the four
   writes, unmask, daemon-reload, enable, start (then the removal of the backup folder). *)
Theorem C17_install_log : forall (runnable : file -> bool) (fails : verb -> list event -> bool) (w : world) (e c b u : file),
  fs_get PkgExe (wfs w) = Some e -> fs_get PkgCfg (wfs w) = Some c ->
  fs_get PkgEbpf (wfs w) = Some b -> fs_get PkgUnit (wfs w) = Some u -> runnable e = true ->
  step_events runnable fails Install w =
  [ECall VStop; EWrite SysExe; EWrite SysCfg; EWrite SysEbpf; EWrite SysUnit;
   ECall VUnmask; ECall VDaemonReload; ECall VEnable; ECall VStart].
Proof. exact install_complete_log. Qed.
Print Assumptions C17_install_log.

Theorem C17_restore_log : forall (runnable : file -> bool) (fails : verb -> list event -> bool) (d : bool) (w : world) (e c b u : file),
  fs_get BakExe (wfs w) = Some e -> fs_get BakCfg (wfs w) = Some c ->
  fs_get BakEbpf (wfs w) = Some b -> fs_get BakUnit (wfs w) = Some u -> runnable e = true ->
  step_events runnable fails (Restore d) w =
  [ECall VStop; EWrite SysExe; EWrite SysCfg; EWrite SysEbpf; EWrite SysUnit;
   ECall VUnmask; ECall VDaemonReload; ECall VEnable; ECall VStart]
  ++ (if d then [ERemoveBackupDir] else []).
Proof. exact restore_complete_log. Qed.
Print Assumptions C17_restore_log.

(* INSTALL EXACT.  With a complete package the four system files are exactly the packaged
   files, the service is running and enabled, exit code 0. *)
Theorem C17_install_exact : forall (runnable : file -> bool) (fails : verb -> list event -> bool) (w : world) (e c b u : file),
  fs_get PkgExe (wfs w) = Some e -> fs_get PkgCfg (wfs w) = Some c ->
  fs_get PkgEbpf (wfs w) = Some b -> fs_get PkgUnit (wfs w) = Some u -> runnable e = true ->
  let w' := exec runnable fails Install w in
  fs_get SysExe (wfs w') = Some e /\ fs_get SysCfg (wfs w') = Some c /\
  fs_get SysEbpf (wfs w') = Some b /\ fs_get SysUnit (wfs w') = Some u /\
  exit_code runnable fails Install w = 0 /\
  ((forall v l, fails v l = false) -> wrunning w' = true /\ wenabled w' = true).
Proof. exact install_complete. Qed.
Print Assumptions C17_install_exact.

(* install writes nothing but system paths (the package and the backup are left alone) *)
Theorem C17_install_only_system_paths : forall (runnable : file -> bool) (fails : verb -> list event -> bool) (w : world) (l : loc),
  is_sys l = false -> fs_get l (wfs (exec runnable fails Install w)) = fs_get l (wfs w).
Proof. exact install_sys_only. Qed.
Print Assumptions C17_install_only_system_paths.

(* BACKUP EXACT.  Each present system file is copied to its backup location (a missing one
   leaves a stale backup entry in place); nothing else changes. *)
Theorem C17_backup_exact : forall (runnable : file -> bool) (fails : verb -> list event -> bool) (w : world) (l : loc),
  fs_get l (wfs (exec runnable fails Backup w)) =
  match l with
  | BakCfg => match fs_get SysCfg (wfs w) with Some f => Some f | None => fs_get BakCfg (wfs w) end
  | BakEbpf => match fs_get SysEbpf (wfs w) with Some f => Some f | None => fs_get BakEbpf (wfs w) end
  | BakExe => match fs_get SysExe (wfs w) with Some f => Some f | None => fs_get BakExe (wfs w) end
  | BakUnit => match fs_get SysUnit (wfs w) with Some f => Some f | None => fs_get BakUnit (wfs w) end
  | BakTmp => match fs_get SysExe (wfs w) with Some _ => None | None => fs_get BakTmp (wfs w) end
  | _ => fs_get l (wfs w)
  end.
Proof. exact backup_get. Qed.
Print Assumptions C17_backup_exact.

(* RESTORE EXACT.  With a complete backup whose agent runs, the four system files are exactly
   the backed-up files. *)
Theorem C17_restore_exact : forall (runnable : file -> bool) (fails : verb -> list event -> bool) (d : bool) (w : world) (e c b u : file),
  fs_get BakExe (wfs w) = Some e -> fs_get BakCfg (wfs w) = Some c ->
  fs_get BakEbpf (wfs w) = Some b -> fs_get BakUnit (wfs w) = Some u -> runnable e = true ->
  let w' := exec runnable fails (Restore d) w in
  fs_get SysExe (wfs w') = Some e /\ fs_get SysCfg (wfs w') = Some c /\
  fs_get SysEbpf (wfs w') = Some b /\ fs_get SysUnit (wfs w') = Some u /\
  exit_code runnable fails (Restore d) w = 0 /\
  ((forall v l, fails v l = false) -> wrunning w' = true /\ wenabled w' = true).
Proof. exact restore_complete. Qed.
Print Assumptions C17_restore_exact.

(* RESTORE WITHOUT A BACKUP changes nothing: the world is the same record except for the
   banner in the tool's own log (no file, no service state, no systemctl call). *)
Theorem C17_restore_without_backup_identity : forall (runnable : file -> bool) (fails : verb -> list event -> bool) (d : bool) (w : world),
  backup_exists w = false -> exec runnable fails (Restore d) w = log_tool (Restore d) w.
Proof. exact restore_without_backup. Qed.
Print Assumptions C17_restore_without_backup_identity.

(* UNINSTALL in package mode removes the four installed files and leaves everything else;
   the service ends stopped and disabled.  Service mode removes only the unit file. *)
Theorem C17_uninstall_package_removes : forall (runnable : file -> bool) (fails : verb -> list event -> bool) (w : world) (l : loc),
  In l sys_locs -> fs_get l (wfs (exec runnable fails (Uninstall UPackage) w)) = None.
Proof. exact uninstall_package_removes. Qed.
Print Assumptions C17_uninstall_package_removes.

Theorem C17_uninstall_only_system_paths : forall (runnable : file -> bool) (fails : verb -> list event -> bool) (m : umode) (w : world) (l : loc),
  is_sys l = false -> fs_get l (wfs (exec runnable fails (Uninstall m) w)) = fs_get l (wfs w).
Proof. exact uninstall_sys_only. Qed.
Print Assumptions C17_uninstall_only_system_paths.

Theorem C17_uninstall_service_keeps_files : forall (runnable : file -> bool) (fails : verb -> list event -> bool) (w : world) (l : loc),
  l <> SysUnit -> fs_get l (wfs (exec runnable fails (Uninstall UService) w)) = fs_get l (wfs w).
Proof. exact uninstall_service_keeps. Qed.
Print Assumptions C17_uninstall_service_keeps_files.

Theorem C17_uninstall_stops_and_disables : forall (runnable : file -> bool) (fails : verb -> list event -> bool) (m : umode) (w : world),
  exit_code runnable fails (Uninstall m) w = 0 /\
  ((forall v l, fails v l = false) ->
   wrunning (exec runnable fails (Uninstall m) w) = false /\ wenabled (exec runnable fails (Uninstall m) w) = false).
Proof. exact uninstall_service_state. Qed.
Print Assumptions C17_uninstall_stops_and_disables.

(* PURGE removes the backup folder and only that: every other location, the service state
   and the systemctl log are untouched. *)
Theorem C17_purge_only_backup : forall (runnable : file -> bool) (fails : verb -> list event -> bool) (w : world) (l : loc),
  fs_get l (wfs (exec runnable fails Purge w)) = if in_backup l then None else fs_get l (wfs w).
Proof. exact purge_get. Qed.
Print Assumptions C17_purge_only_backup.

Theorem C17_purge_no_service_effect : forall (runnable : file -> bool) (fails : verb -> list event -> bool) (w : world),
  wrunning (exec runnable fails Purge w) = wrunning w /\ wenabled (exec runnable fails Purge w) = wenabled w /\
  step_events runnable fails Purge w = [ERemoveBackupDir] /\ exit_code runnable fails Purge w = 0.
Proof. exact purge_rest. Qed.
Print Assumptions C17_purge_no_service_effect.

(* FRAME.  No command alters a location outside the four system paths and the backup folder
   (the tool's own log is the [wtool] component, not a location) -- in the file system ... *)
Theorem C17_frame : forall (runnable : file -> bool) (fails : verb -> list event -> bool) (c : cmd) (w : world) (l : loc),
  allowed l = false -> fs_get l (wfs (exec runnable fails c w)) = fs_get l (wfs w).
Proof. exact exec_frame. Qed.
Print Assumptions C17_frame.

(* ... and in the write log: every logged mutation targets an allowed location. *)
Theorem C17_frame_log : forall (runnable : file -> bool) (fails : verb -> list event -> bool) (c : cmd) (w : world),
  forallb event_allowed (step_events runnable fails c w) = true.
Proof. exact exec_events_allowed. Qed.
Print Assumptions C17_frame_log.

(* HISTORIES.  For every sequence of commands from every world: locations outside the allowed
   set are untouched (in particular the package beside the tool) ... *)
Theorem C17_histories_frame : forall (runnable : file -> bool) (fails : verb -> list event -> bool) (cmds : list cmd) (w : world) (l : loc),
  allowed l = false -> fs_get l (wfs (run runnable fails cmds w)) = fs_get l (wfs w).
Proof. exact run_frame. Qed.
Print Assumptions C17_histories_frame.

Theorem C17_histories_package_untouched : forall (runnable : file -> bool) (fails : verb -> list event -> bool) (cmds : list cmd) (w : world) (l : loc),
  In l pkg_locs -> fs_get l (wfs (run runnable fails cmds w)) = fs_get l (wfs w).
Proof. exact package_untouched. Qed.
Print Assumptions C17_histories_package_untouched.

(* ... every system file is only ever created, replaced or removed while the last stop/start
   call was a stop, whatever the service state at the beginning ... *)
Theorem C17_histories_stop_before_replace : forall (runnable : file -> bool) (fails : verb -> list event -> bool) (cmds : list cmd) (w : world) (r : bool),
  log_safe r (history_events runnable fails cmds w) = true.
Proof. exact history_events_safe. Qed.
Print Assumptions C17_histories_stop_before_replace.

(* ... and whenever a history has led to an installed version, appending backup; install;
   restore brings back exactly the four files present before that backup. *)
Theorem C17_histories_reversible : forall (runnable : file -> bool) (fails : verb -> list event -> bool) (cmds : list cmd) (d : bool) (w : world),
  installed runnable (run runnable fails cmds w) = true ->
  let w0 := run runnable fails cmds w in
  let w' := run runnable fails (cmds ++ [Backup; Install; Restore d]) w in
  (forall l, In l sys_locs -> fs_get l (wfs w') = fs_get l (wfs w0)) /\
  ((forall v l, fails v l = false) -> wrunning w' = true /\ wenabled w' = true).
Proof. exact reversible_after_history. Qed.
Print Assumptions C17_histories_reversible.

(* A package whose agent is missing or does not run: install copies nothing (and leaves the
   service stopped -- the tool panics after `systemctl stop`). *)
Theorem C17_install_bad_package_keeps_files : forall (runnable : file -> bool) (fails : verb -> list event -> bool) (w : world),
  version_ok runnable PkgExe w = false ->
  wfs (exec runnable fails Install w) = wfs w /\ exit_code runnable fails Install w = 101 /\
  (fails VStop (wlog w) = false -> wrunning (exec runnable fails Install w) = false).
Proof. exact install_bad_package. Qed.
Print Assumptions C17_install_bad_package_keeps_files.

(* The hypothesis [installed] of C17_reversible cannot be dropped.  With one of the four files
   missing (not "a version installed": information only) the newer file stays after restore;
   with an agent executable that cannot be run restore panics after the stop (known finding). *)
Theorem C17_reversible_needs_all_files :
  exists w, version_ok standin_runnable SysExe w = true /\ installed standin_runnable w = false /\
    fs_get SysEbpf (wfs (triple standin_runnable true w)) <> fs_get SysEbpf (wfs w).
Proof. exact reversible_needs_all_files. Qed.
Print Assumptions C17_reversible_needs_all_files.

Theorem C17_reversible_refuted :
  exists w, four_present w = true /\ KnownClass_C17_agent_not_runnable standin_runnable w = true /\
    fs_get SysExe (wfs (triple standin_runnable true w)) <> fs_get SysExe (wfs w) /\
    wrunning (triple standin_runnable true w) = false.
Proof. exact reversible_refuted. Qed.
Print Assumptions C17_reversible_refuted.

(* KNOWN FINDING C17-K1.  The statement "from every world with the four files installed, backup;
   install; restore reinstates them" is refuted just above (the installed agent executable does not
   answer --version: restore panics after the stop).  Outside that class it holds -- this is
   C17_reversible again with the class predicate as the hypothesis, so that any OTHER failure of
   reversibility is still a violation. *)
Theorem C17_reversible_outside_known_class : forall (runnable : file -> bool) (fails : verb -> list event -> bool) (d : bool) (w : world),
  four_present w = true -> KnownClass_C17_agent_not_runnable runnable w = false ->
  let w' := exec runnable fails (Restore d) (exec runnable fails Install (exec runnable fails Backup w)) in
  (forall l, In l sys_locs -> fs_get l (wfs w') = fs_get l (wfs w)) /\
  ((forall v l, fails v l = false) -> wrunning w' = true /\ wenabled w' = true).
Proof. exact reversible_outside_known_class. Qed.
Print Assumptions C17_reversible_outside_known_class.

(* CRASH POINTS INSIDE BACKUP (the tool dies: SIGKILL, OOM, time-out).  `backup` saves configuration,
   eBPF object and unit file, then copies the executable to azure-proxy-agent.tmp and renames it onto
   azure-proxy-agent, the file `restore` takes as the sign that a backup exists (/repo d891b48).
   For EVERY cut point j (the first j of the five operations complete; j >= 5 = the whole backup),
   from any installed version without a backup marker, whatever else is there, whatever package is
   installed afterwards: restore either refuses -- the world is the same but for its own log -- or
   reinstates the four files exactly (and, systemctl permitting, the service runs, enabled). *)
Theorem C17_backup_cut_safe : forall (runnable : file -> bool) (fails : verb -> list event -> bool)
    (j : nat) (w : world) (d : bool),
  installed runnable w = true -> fs_get BakExe (wfs w) = None ->
  let w1 := backup_crash runnable fails j w in
  let w2 := exec runnable fails Install w1 in
  let w3 := exec runnable fails (Restore d) w2 in
  w3 = log_tool (Restore d) w2 \/
  ((forall l, In l sys_locs -> fs_get l (wfs w3) = fs_get l (wfs w)) /\
   ((forall v l, fails v l = false) -> wrunning w3 = true /\ wenabled w3 = true)).
Proof. exact backup_cut_safe. Qed.
Print Assumptions C17_backup_cut_safe.

(* The same when the tool died INSIDE a copy: with an arbitrary file at the destination of the copy
   in flight (any location but the executable's final name, which is only ever written by rename)
   after at most four complete operations, restore refuses. *)
Theorem C17_backup_cut_inflight_refused : forall (runnable : file -> bool) (fails : verb -> list event -> bool)
    (j : nat) (w : world) (d : bool) (l : loc) (f : file),
  (j <= 4)%nat -> fs_get BakExe (wfs w) = None -> l <> BakExe ->
  let w1 := inflight l f (backup_crash runnable fails j w) in
  exec runnable fails (Restore d) (exec runnable fails Install w1) = log_tool (Restore d) (exec runnable fails Install w1).
Proof. exact backup_cut_inflight_refused. Qed.
Print Assumptions C17_backup_cut_inflight_refused.

(* before the first four operations are complete there is no marker *)
Theorem C17_backup_cut_no_marker : forall (runnable : file -> bool) (fails : verb -> list event -> bool) (j : nat) (w : world),
  (j <= 4)%nat -> fs_get BakExe (wfs w) = None -> fs_get BakExe (wfs (backup_crash runnable fails j w)) = None.
Proof. exact backup_crash_no_marker. Qed.
Print Assumptions C17_backup_cut_no_marker.

(* information (finding C17-K2, fixed by d891b48): with the old order -- executable third, directly
   under its final name -- a cut after three copies made restore put three files back, fail on the
   unit file and leave the service stopped *)
Theorem C17_old_backup_order_unsafe :
  let w1 := run_ops standin_runnable never_fails (firstn 3 old_backup_ops) ex_installed in
  let w2 := exec standin_runnable never_fails Install w1 in
  let w3 := exec standin_runnable never_fails (Restore true) w2 in
  fs_get SysUnit (wfs w3) <> fs_get SysUnit (wfs ex_installed) /\
  fs_get SysExe (wfs w3) = fs_get SysExe (wfs ex_installed) /\ wrunning w3 = false /\
  exit_code standin_runnable never_fails (Restore true) w2 = 1.
Proof. exact old_backup_order_unsafe. Qed.
Print Assumptions C17_old_backup_order_unsafe.

(* faults are not vacuous: with `systemctl stop` failing at every call, uninstall package still
   removes the four files and exits 0 (the service is still reported running: nothing stopped it);
   a failing `disable` leaves the service enabled while the unit file is removed all the same *)
Theorem C17_faults_nonvacuous :
  (forall l, In l sys_locs ->
     fs_get l (wfs (exec standin_runnable stop_always_fails (Uninstall UPackage) ex_installed)) = None) /\
  wrunning (exec standin_runnable stop_always_fails (Uninstall UPackage) ex_installed) = true /\
  exit_code standin_runnable stop_always_fails (Uninstall UPackage) ex_installed = 0 /\
  step_events standin_runnable (fails_of [false; true]) (Uninstall UService) ex_installed =
    [ECall VStop; ECall VDisable; ERemove SysUnit; ECall VDaemonReload] /\
  wenabled (exec standin_runnable (fails_of [false; true]) (Uninstall UService) (clear_log ex_installed)) = true.
Proof. exact fault_example. Qed.
Print Assumptions C17_faults_nonvacuous.

(* the rendering of locations to path strings (from the regenerated constants) is injective on
   the twelve computed paths for the harness' setup directory, keeps system and package paths
   outside the backup folder, and the two spellings of the unit file name in the sources agree *)
Theorem C17_layout : layout_ok harness_setup_dir = true /\
  Consts.setup_service_config_file_name = unit_file_name /\
  render harness_setup_dir SysExe = pjoin Consts.shared_exe_folder_path Consts.setup_service_name.
Proof. exact (conj harness_layout_ok (conj unit_names_agree exe_names_agree)). Qed.
Print Assumptions C17_layout.

(* non-vacuity: a concrete installed world with a complete package; the upgrade really changes
   the files (config after install = the packaged one), the triple really restores them, the
   backup exists in between and is gone (kept) after restore with (without) deletion *)
Example C17_nonvacuous :
  installed standin_runnable ex_installed = true /\ package_complete standin_runnable ex_installed = true /\
  (forall l, In l sys_locs -> fs_get l (wfs (triple standin_runnable true ex_installed)) = fs_get l (wfs ex_installed)) /\
  fs_get SysCfg (wfs (exec standin_runnable never_fails Install (exec standin_runnable never_fails Backup ex_installed))) = Some (420, [5]) /\
  backup_exists (exec standin_runnable never_fails Backup ex_installed) = true /\
  backup_exists (triple standin_runnable true ex_installed) = false /\
  backup_exists (triple standin_runnable false ex_installed) = true /\
  step_events standin_runnable never_fails Install ex_installed =
    [ECall VStop; EWrite SysExe; EWrite SysCfg; EWrite SysEbpf; EWrite SysUnit;
     ECall VUnmask; ECall VDaemonReload; ECall VEnable; ECall VStart].
Proof. exact nonvacuous_examples. Qed.
