(* C10 -- The key id in a signature always names the key that produced the MAC.
   Property theorems only.  Model: Model/SignRace.v over the interleaving semantics of
   Model/Sched.v; proofs: Proofs/SignRaceProofs.v.  Every statement quantifies over ALL schedules
   (lists of task ids of any length), ALL task lists [ps] (any number of key keepers and signers --
   in fact arbitrary programs over the actor's SetKey/GetKey messages) and every initial content
   of the key slot.  [mac] is an arbitrary function (no equation about HMAC is assumed). *)
From Coq Require Import List Arith.
Import ListNotations.
From GPA Require Import Sched SignRace SignRaceProofs.

Notation run := (@Sched.run world amsg areply loc handle).

(* ---- the call sites as they are in /repo now (the main model, [route_reads]) -------------- *)
(* After the repair of finding F5 every signing call site takes the id and the secret from ONE
   actor reply (get_current_key_guid_and_value). *)
Theorem C10_current_code_is_single_read : forall r, route_reads r = single_read_route r.
Proof. reflexivity. Qed.
Print Assumptions C10_current_code_is_single_read.

(* THE FULL STATEMENT for the code as it is: for every schedule, every behaviour of the key keeper
   (and of any other task), any number of concurrent signers, every initial content of the slot
   and every MAC function: every authorization header emitted by any signing call site pairs the
   id of a key that was set (initially or by a processed SetKey) with the MAC under that key. *)
Theorem C10_pairing :
  forall (M : Type) (mac : bytes -> bytes -> M) k0 ps t r sched l input g m,
  nth_error ps t = Some (signer0 (route_reads r)) ->
  result_of (run (init (w_init k0) ps) sched) t = Some l ->
  header mac input l = Some (g, m) ->
  exists k, In (Some k) (k0 :: set_args (trace (run (init (w_init k0) ps) sched))) /\
            guid k = g /\ m = mac (value k) input.
Proof. exact (route_pairing_if_single route_reads single_read_route_ok). Qed.
Print Assumptions C10_pairing.

(* ---- finding F5 (repaired): with the former two-accessor call sites the statement was FALSE ------------- *)
(* The full statement fails for the two-accessor call sites: there are a MAC function, a keeper
   behaviour and a schedule in which a signer emits a header whose id and MAC belong to no single
   key that was ever set. *)
Theorem C10_pairing_refuted :
  exists (M : Type) (mac : bytes -> bytes -> M) k0 ops r sched l input g m,
    let c := run (init (w_init k0) [keeper ops; signer0 (two_read_route r)]) sched in
    result_of c 1%nat = Some l /\ header mac input l = Some (g, m) /\
    ~ exists k, In (Some k) (k0 :: set_args (trace c)) /\ guid k = g /\ m = mac (value k) input.
Proof. exact torn_read_mac. Qed.
Print Assumptions C10_pairing_refuted.

(* the witness on the proxied route: secret of k1 -- SetKey k2 -- id of k2; it lies in the known
   class (KnownClass_C10 = [setkey_between_reads]) and violates the pairing *)
Theorem C10_torn_read_refuted :
  let c := run (init (w_init (Some k1)) [keeper [Some k2]; signer0 (two_read_route ProxiedRequest)]) ([1; 0; 1]%nat) in
  exists l, result_of c 1%nat = Some l /\ hdr l = Some (guid k2, value k1) /\
            setkey_between_reads l = true /\ ~ paired (cur (shared c) :: past (shared c)) l.
Proof. exact torn_read_proxied. Qed.
Print Assumptions C10_torn_read_refuted.

(* the witness on the host-client routes (id first): id of k1 -- SetKey k2 -- secret of k2 *)
Theorem C10_torn_read_host_refuted :
  let c := run (init (w_init (Some k1)) [keeper [Some k2]; signer0 (two_read_route WsGoalState)]) ([1; 0; 1]%nat) in
  exists l, result_of c 1%nat = Some l /\ hdr l = Some (guid k1, value k2) /\
            setkey_between_reads l = true /\ ~ paired (cur (shared c) :: past (shared c)) l.
Proof. exact torn_read_host. Qed.
Print Assumptions C10_torn_read_host_refuted.

(* ---- the strongest true statement for ANY reader (partial; hypothesis = class predicate) --- *)
(* Outside the known class -- no SetKey processed between the read that supplied the secret and
   the read that supplied the id -- every header pairs the id of a key with the MAC under that
   key's secret, and that key was the content of the slot at the epoch of those reads (the old
   key or the new key, never a stale or a mixed one). *)
Theorem C10_two_read_safe_without_rotation :
  forall (M : Type) (mac : bytes -> bytes -> M) w0 ps t rds sched l input g m,
  nth_error ps t = Some (signer0 rds) ->
  result_of (run (init w0 ps) sched) t = Some l ->
  setkey_between_reads l = false ->
  header mac input l = Some (g, m) ->
  exists k n, key_at (shared (run (init w0 ps) sched)) n = Some (Some k) /\
              guid k = g /\ m = mac (value k) input /\
              lv l = Some (Some (value k), n) /\ lg l = Some (Some g, n).
Proof. exact @pairing_without_rotation. Qed.
Print Assumptions C10_two_read_safe_without_rotation.

(* ---- the repaired behaviour: full statement, every schedule ------------------------------- *)
(* a signer that takes both fields from ONE GetKey reply *)
Theorem C10_single_read_pairing :
  forall (M : Type) (mac : bytes -> bytes -> M) w0 ps t rds sched l input g m,
  nth_error ps t = Some (signer0 rds) -> ends_whole rds = true ->
  result_of (run (init w0 ps) sched) t = Some l ->
  header mac input l = Some (g, m) ->
  exists k n, key_at (shared (run (init w0 ps) sched)) n = Some (Some k) /\
              guid k = g /\ m = mac (value k) input /\
              lv l = Some (Some (value k), n) /\ lg l = Some (Some g, n).
Proof. exact @single_read_pairing. Qed.
Print Assumptions C10_single_read_pairing.

(* the full pairing statement for all five call sites once each reads the key once: every emitted
   (id, MAC) satisfies: some key ever set (initial content or argument of a processed SetKey) has
   that id and produces that MAC *)
Theorem C10_repaired_routes_pairing :
  forall (M : Type) (mac : bytes -> bytes -> M) k0 ps t r sched l input g m,
  nth_error ps t = Some (signer0 (single_read_route r)) ->
  result_of (run (init (w_init k0) ps) sched) t = Some l ->
  header mac input l = Some (g, m) ->
  exists k, In (Some k) (k0 :: set_args (trace (run (init (w_init k0) ps) sched))) /\
            guid k = g /\ m = mac (value k) input.
Proof. exact (route_pairing_if_single single_read_route single_read_route_ok). Qed.
Print Assumptions C10_repaired_routes_pairing.

(* ---- all or nothing (any reader, any schedule) --------------------------------------------- *)
Theorem C10_all_or_nothing :
  forall w0 ps t rds sched l,
  nth_error ps t = Some (signer0 rds) ->
  result_of (run (init w0 ps) sched) t = Some l ->
  let w := shared (run (init w0 ps) sched) in
  hdr l = None \/
  exists kv kg nv ng, key_at w nv = Some (Some kv) /\ key_at w ng = Some (Some kg) /\
                      lv l = Some (Some (value kv), nv) /\ lg l = Some (Some (guid kg), ng) /\
                      hdr l = Some (guid kg, value kv).
Proof. exact all_or_nothing. Qed.
Print Assumptions C10_all_or_nothing.

(* a read that found the slot empty (cleared key) -> no authorization header at all *)
Theorem C10_none_on_either_read_no_header :
  forall (M : Type) (mac : bytes -> bytes -> M) w0 ps t rds sched l n,
  nth_error ps t = Some (signer0 rds) ->
  result_of (run (init w0 ps) sched) t = Some l ->
  key_at (shared (run (init w0 ps) sched)) n = Some None ->
  (option_map snd (lv l) = Some n \/ option_map snd (lg l) = Some n) ->
  header mac [] l = None /\ hdr l = None.
Proof. exact @none_on_either_read_no_header. Qed.
Print Assumptions C10_none_on_either_read_no_header.

(* ---- what leaves the agent ---------------------------------------------------------------------- *)
(* An authorization header leaves the agent only as the signer's own (id, secret) pair with a secret
   compute_signature accepts -- so every pairing theorem above applies to it; with an unusable secret
   (not hex) the proxied request goes out WITHOUT a header and the agent's own call sends NOTHING
   (never a MAC under some other key's secret); on the proxied route the agent's header REPLACES
   whatever the client supplied under that name. *)
Theorem C10_only_own_usable_header_leaves :
  forall usable r l,
  (forall g v, route_outcome usable r l = Sent (Some (g, v)) -> hdr l = Some (g, v) /\ usable v = true) /\
  (forall g v, hdr l = Some (g, v) -> usable v = false ->
     route_outcome usable r l = match r with ProxiedRequest => Sent None | _ => NotSent end) /\
  (forall (X : Type) (client : list X) h, forwarded_auth client (Some h) = [h]).
Proof.
  intros. split; [|split].
  - intros g v. apply route_outcome_sent.
  - intros g v. apply route_outcome_unusable.
  - reflexivity.
Qed.
Print Assumptions C10_only_own_usable_header_leaves.

(* ---- pairing at LATCH time ------------------------------------------------------------------ *)
(* The key keeper only ever sends the actor WHOLE key documents: the document found in the key file
   selected by the guid the host reports ([LatchLocal], whatever guid that document carries), or the
   document the host answered to the acquire call ([LatchAcquired]), or a clear.  If every document in
   the key folder and every document the host hands out is an ISSUED key, then -- for every sequence
   of polls, any number of concurrent signing call sites and every schedule -- every authorization
   header pairs the id of an issued document with the MAC under THAT document's secret. *)
Theorem C10_latch_pairing :
  forall (M : Type) (mac : bytes -> bytes -> M) (issued : list key) f ls k0 rs t r sched l input g m,
  (forall n d, In (n, d) f -> In d issued) ->
  (forall d, In (LatchAcquired d) ls -> In d issued) ->
  (forall k, k0 = Some k -> In k issued) ->
  let ps := keeper (latch_ops f ls) :: map (fun r => signer0 (route_reads r)) rs in
  nth_error ps t = Some (signer0 (route_reads r)) ->
  result_of (run (init (w_init k0) ps) sched) t = Some l ->
  header mac input l = Some (g, m) ->
  exists k, In k issued /\ guid k = g /\ m = mac (value k) input.
Proof. exact latch_pairing. Qed.
Print Assumptions C10_latch_pairing.

(* non-vacuity: the file G2.key holds the document of (G1, K1): the slot gets (G1, K1), whole *)
Example C10_latch_nonvacuous :
  latch_run [([2], k1)] None [LatchLocal [2]; LatchAcquired k2; LatchClear] =
    [Some (guid k1, value k1); Some (guid k2, value k2); None].
Proof. vm_compute. reflexivity. Qed.

(* ---- meaning of the ghost state ------------------------------------------------------------- *)
(* the slot's contents over time are exactly the initial content followed by the arguments of the
   SetKey messages in the order the actor processed them, and the epoch counts them *)
Theorem C10_history_is_trace :
  forall k0 ps sched,
  let c := run (init (w_init k0) ps) sched in
  cur (shared c) :: past (shared c) = set_args (trace c) ++ [k0] /\
  epoch (shared c) = length (set_args (trace c)).
Proof. intros. split; [apply history_is_trace|apply epoch_counts_setkeys]. Qed.
Print Assumptions C10_history_is_trace.

(* ---- non-vacuity ---------------------------------------------------------------------------- *)
(* two single-read signers racing a rotation and a clear: one signs entirely with the old key,
   the other entirely with the new key; a third one after the clear emits no header *)
Example C10_nonvacuous :
  sim (Some k1) [[RdWhole]; [RdWhole]; [RdWhole]] [Some k2; None] ([1; 0; 2; 0; 3]%nat) =
    [Some (Some (guid k1, value k1), false, (Some 0, Some 0)%nat);
     Some (Some (guid k2, value k2), false, (Some 1, Some 1)%nat);
     Some (None, false, (Some 2, Some 2)%nat)].
Proof. vm_compute. reflexivity. Qed.

(* the two-read programs in the same schedules: torn, and flagged by the class predicate *)
Example C10_nonvacuous_torn :
  sim (Some k1) [[RdValue; RdGuid]; [RdGuid; RdValue]] [Some k2] ([1; 2; 0]%nat) =
    [Some (Some (guid k2, value k1), true, (Some 0, Some 1)%nat);
     Some (Some (guid k1, value k2), true, (Some 1, Some 0)%nat)].
Proof. vm_compute. reflexivity. Qed.
