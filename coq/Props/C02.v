(* C02 -- RBAC decision equals the declared rule semantics, deterministically.
   Property theorems only: each is closed by [exact lemma] and followed by Print Assumptions.
   Model: Model/Rbac.v (authorization_rules.rs from_authorization_item / is_allowed, key.rs
   Privilege::is_match / Identity::is_match, hyper_client.rs query_pairs), tied to the code by the
   correspondence check tools/checks/c02.py.

   [is_allowed] / [compute] model the code AFTER the repair of finding F1 (/repo commit 2eead23,
   patches/fix-C02-rule-path-case.diff); [is_allowed_current] is the pinned behaviour before it.
   [lower] is ASCII lower-casing: Rust's to_lowercase agrees with it on strings whose cased
   characters are ASCII (always true of a request URL -- http::Uri admits only ASCII); case
   changes of non-ASCII letters in a RULE are outside the model.  Determinism is by construction:
   the decision is a function of (rule document, URL, claims). *)
From Coq Require Import Permutation.
From GPA Require Import Rbac RbacProofs.

(* ---------------------------------------------------------------------------------------------- *)
(* The decision equals the declarative reading of the rule document                                *)
(* ---------------------------------------------------------------------------------------------- *)

(* For EVERY rule document without duplicate names (dangling role / privilege / identity names,
   missing sections, empty lists, unknown mode strings, upper-case paths all included), every URL
   and every caller: the flattened, loop-with-early-return decision of the code is the declarative
   three-way reading [spec_allowed] of the document. *)
Theorem C02_decision_equals_spec : forall (it : item) (u : url) (k : claims),
  has_duplicate_names it = false -> is_allowed (compute it) u k = spec_allowed it u k.
Proof. exact decision_equals_spec. Qed.
Print Assumptions C02_decision_equals_spec.

(* ... where [spec_allowed] says, in Prop: allow iff some listed privilege matches the URL and is
   granted (an assignment names a DEFINED role listing the privilege and a DEFINED identity that
   matches the caller); otherwise deny if some privilege matched; otherwise the default access *)
Theorem C02_spec_reading : forall it ps rs ids ras (u : url) (k : claims),
  sections it = Some (ps, rs, ids, ras) -> parse_mode (it_mode it) <> Disabled ->
  (spec_allowed it u k = true <->
     (exists p, In p ps /\ priv_match_spec p u = true /\ Grants rs ids ras p k) \/
     ((forall p, In p ps -> priv_match_spec p u = false) /\ default_of it = true)).
Proof. exact spec_allowed_reading. Qed.
Print Assumptions C02_spec_reading.

(* "matches the URL": case-insensitive path prefix, and every listed query parameter equals, up to
   case, the FIRST request parameter carrying its key (up to case) *)
Theorem C02_priv_match_reading : forall (p : privilege) (u : url),
  priv_match_spec p u = true <->
  (exists rest, lower (u_path u) = lower (p_path p) ++ rest) /\
  (forall listed, p_query p = Some listed ->
     forall k v, In (k, v) listed ->
       exists v', first_value (query_pairs (u_query u)) k v' /\ lower v' = lower v).
Proof. exact priv_match_spec_iff. Qed.
Print Assumptions C02_priv_match_reading.

(* "every stated attribute equals the caller's" (executable path: equality of path components) *)
Theorem C02_identity_match_reading : forall (i : identity) (k : claims),
  id_match i k = true <->
  (forall n, i_user i = Some n -> n = k_user k) /\
  (forall n, i_proc i = Some n -> n = k_proc k) /\
  (forall n, i_exe i = Some n -> path_eq n (k_exe k) = true) /\
  (forall g, i_group i = Some g -> In g (k_groups k)).
Proof. exact id_match_iff. Qed.
Print Assumptions C02_identity_match_reading.

(* the three-way decision on the flattened item, branch by branch, for both behaviours *)
Theorem C02_three_way : forall (fixed : bool) (c : computed) (u : url) (k : claims),
  is_allowed_gen fixed c u k =
  match branch_of fixed c u k with
  | BrDisabled | BrIdentity => true
  | BrPrivilegeOnly => false
  | BrDefault => c_default c
  end.
Proof. exact decision_branches. Qed.
Print Assumptions C02_three_way.

(* mode Disabled (or any unknown mode string) allows everything *)
Theorem C02_disabled_allows : forall (fixed : bool) (it : item) (u : url) (k : claims),
  parse_mode (it_mode it) = Disabled -> is_allowed_gen fixed (compute it) u k = true.
Proof. exact disabled_allows. Qed.
Print Assumptions C02_disabled_allows.

(* a document lacking any of its four sections defines no privilege: the default access decides *)
Theorem C02_missing_sections : forall (it : item) (u : url) (k : claims),
  sections it = None -> parse_mode (it_mode it) <> Disabled ->
  is_allowed (compute it) u k = default_of it.
Proof. exact missing_sections_default. Qed.
Print Assumptions C02_missing_sections.

(* ---------------------------------------------------------------------------------------------- *)
(* "does not depend on ... anything else": iteration order of the hash containers                  *)
(* ---------------------------------------------------------------------------------------------- *)

(* any re-enumeration of the three HashMaps and of every HashSet leaves the decision unchanged *)
Theorem C02_hash_order_irrelevant : forall (fixed : bool) (c c' : computed) (u : url) (k : claims),
  wf_computed c -> hash_reordered c c' ->
  is_allowed_gen fixed c u k = is_allowed_gen fixed c' u k.
Proof. exact hash_order_irrelevant. Qed.
Print Assumptions C02_hash_order_irrelevant.

(* ... and what from_authorization_item builds is such a well-formed item (unique keys) *)
Theorem C02_computed_wellformed : forall it : item, wf_computed (compute it).
Proof. exact compute_wf. Qed.
Print Assumptions C02_computed_wellformed.

(* the queryParameters HashMap of a privilege *)
Theorem C02_query_hash_order_irrelevant : forall (qm qm' : list (bytes * bytes)) (q : bytes),
  Permutation qm qm' -> query_match qm q = query_match qm' q.
Proof. exact query_hash_order_irrelevant. Qed.
Print Assumptions C02_query_hash_order_irrelevant.

(* ---------------------------------------------------------------------------------------------- *)
(* Listing order and letter case                                                                   *)
(* ---------------------------------------------------------------------------------------------- *)

(* the order in which privileges, roles, identities and assignments are listed *)
Theorem C02_listing_order_irrelevant : forall (it it' : item) (u : url) (k : claims),
  has_duplicate_names it = false -> listing_permuted it it' ->
  is_allowed (compute it) u k = is_allowed (compute it') u k.
Proof. exact listing_order_irrelevant. Qed.
Print Assumptions C02_listing_order_irrelevant.

(* ... and the order inside a role's privilege list and an assignment's identity list *)
Theorem C02_inner_order_irrelevant : forall (it it' : item) (u : url) (k : claims),
  has_duplicate_names it = false -> inner_permuted it it' ->
  is_allowed (compute it) u k = is_allowed (compute it') u k.
Proof. exact inner_order_irrelevant. Qed.
Print Assumptions C02_inner_order_irrelevant.

(* any change of ASCII letter case in the request's path and query (lower, upper, mixed),
   for every flattened item, for both behaviours *)
Theorem C02_request_case_irrelevant : forall (fixed : bool) (f : N -> N) (c : computed) (u : url) (k : claims),
  case_change f -> is_allowed_gen fixed c (url_map (map f) u) k = is_allowed_gen fixed c u k.
Proof. exact request_case_irrelevant. Qed.
Print Assumptions C02_request_case_irrelevant.

Theorem C02_request_lower_upper : forall (fixed : bool) (c : computed) (u : url) (k : claims),
  is_allowed_gen fixed c (url_map lower u) k = is_allowed_gen fixed c u k /\
  is_allowed_gen fixed c (url_map upper u) k = is_allowed_gen fixed c u k.
Proof. exact request_lower_upper. Qed.
Print Assumptions C02_request_lower_upper.

(* any change of ASCII letter case in the RULE's paths, query keys and query values *)
Theorem C02_rule_case_irrelevant : forall (f : N -> N) (it : item) (u : url) (k : claims),
  has_duplicate_names it = false -> case_change f ->
  is_allowed (compute (item_recase (map f) it)) u k = is_allowed (compute it) u k.
Proof. exact rule_case_irrelevant. Qed.
Print Assumptions C02_rule_case_irrelevant.

(* ---------------------------------------------------------------------------------------------- *)
(* Findings.  F1 (repaired): the pinned behaviour, its class predicate and its refutation          *)
(* ---------------------------------------------------------------------------------------------- *)

(* outside the class "some privilege path contains an upper-case letter" the pinned behaviour is
   the repaired one, hence equals the specification *)
Theorem C02_current_equals_fixed_partial : forall (it : item) (u : url) (k : claims),
  KnownClass_C02_F1 it = false -> is_allowed_current (compute it) u k = is_allowed (compute it) u k.
Proof. exact current_equals_fixed. Qed.
Print Assumptions C02_current_equals_fixed_partial.

Theorem C02_current_equals_spec_partial : forall (it : item) (u : url) (k : claims),
  KnownClass_C02_F1 it = false -> has_duplicate_names it = false ->
  is_allowed_current (compute it) u k = spec_allowed it u k.
Proof. exact current_equals_spec_partial. Qed.
Print Assumptions C02_current_equals_spec_partial.

(* inside the class it was wrong: rule path "/Test", request "/test", caller granted -- denied
   before the repair, allowed by the specification and after the repair *)
Theorem C02_F1_witness :
  KnownClass_C02_F1 w_f1_item = true /\ has_duplicate_names w_f1_item = false /\
  is_allowed_current (compute w_f1_item) w_f1_url w_claims = false /\
  spec_allowed w_f1_item w_f1_url w_claims = true /\
  is_allowed (compute w_f1_item) w_f1_url w_claims = true.
Proof. exact f1_witness. Qed.
Print Assumptions C02_F1_witness.

Theorem C02_rule_case_refuted_current :
  exists f it u k, case_change f /\ has_duplicate_names it = false /\
    is_allowed_current (compute (item_recase (map f) it)) u k <> is_allowed_current (compute it) u k.
Proof. exact rule_case_refuted_current. Qed.
Print Assumptions C02_rule_case_refuted_current.

(* ---------------------------------------------------------------------------------------------- *)
(* F2 (known finding): with duplicate names the full-strength statements are false                 *)
(* ---------------------------------------------------------------------------------------------- *)
Theorem C02_dup_names_refuted :
  exists it it' u k, has_duplicate_names it = true /\ listing_permuted it it' /\
    is_allowed (compute it) u k <> is_allowed (compute it') u k.
Proof. exact dup_names_refuted. Qed.
Print Assumptions C02_dup_names_refuted.

Theorem C02_dup_names_spec_refuted :
  exists it u k, has_duplicate_names it = true /\ is_allowed (compute it) u k <> spec_allowed it u k.
Proof. exact dup_names_spec_refuted. Qed.
Print Assumptions C02_dup_names_spec_refuted.

Theorem C02_dup_qkeys_refuted :
  exists f it u k, case_change f /\ has_duplicate_names it = true /\
    is_allowed (compute (item_recase (map f) it)) u k <> is_allowed (compute it) u k.
Proof. exact dup_qkeys_refuted. Qed.
Print Assumptions C02_dup_qkeys_refuted.

(* ---------------------------------------------------------------------------------------------- *)
(* Non-vacuity: a 3-privilege, 2-role document with a dangling identity, a dangling role and a     *)
(* dangling privilege name, exercising all four branches                                           *)
(* ---------------------------------------------------------------------------------------------- *)
Module Ex.
  Import Coq.Strings.String.
  Definition doc (mode : bytes) : item :=
    {| it_default := B"Allow"; it_mode := mode;
       it_rules := Some {|
         s_privileges := Some [
           {| p_name := B"goalstate"; p_path := B"/machine";
              p_query := Some [(B"comp", B"goalstate")] |};
           {| p_name := B"meta"; p_path := B"/Metadata/Instance"; p_query := None |};
           {| p_name := B"unassigned"; p_path := B"/vmSettings"; p_query := None |} ];
         s_roles := Some [
           {| r_name := B"reader"; r_privs := [B"goalstate"; B"nosuchprivilege"] |};
           {| r_name := B"metareader"; r_privs := [B"meta"] |} ];
         s_identities := Some [
           {| i_name := B"agent"; i_user := Some (B"root"); i_group := None;
              i_exe := Some (B"/usr/sbin/waagent"); i_proc := Some (B"waagent") |};
           {| i_name := B"admins"; i_user := None; i_group := Some (B"adm"); i_exe := None; i_proc := None |} ];
         s_assignments := Some [
           {| a_role := B"reader"; a_ids := [B"agent"; B"nosuchidentity"] |};
           {| a_role := B"metareader"; a_ids := [B"admins"] |};
           {| a_role := B"nosuchrole"; a_ids := [B"agent"] |} ] |} |}.
  Definition agent : claims :=
    {| k_user := B"root"; k_groups := [B"root"]; k_proc := B"waagent";
       k_exe := B"/usr//sbin/./waagent"; k_elevated := true |}.
  Definition other : claims :=
    {| k_user := B"bob"; k_groups := [B"users"; B"adm"]; k_proc := B"curl";
       k_exe := B"/usr/bin/curl"; k_elevated := false |}.
  Definition u1 : url := {| u_path := B"/Machine/x"; u_query := B"x=1&COMP=GoalState&comp=other" |}.
  Definition u2 : url := {| u_path := B"/metadata/instance/compute"; u_query := B"" |}.
  Definition u3 : url := {| u_path := B"/vmsettings"; u_query := B"" |}.
  Definition u4 : url := {| u_path := B"/other"; u_query := B"" |}.
  Definition u5 : url := {| u_path := B"/machine"; u_query := B"comp=other&comp=goalstate" |}.
End Ex.

Example C02_nonvacuous :
  has_duplicate_names (Ex.doc Lit.enforce) = false /\
  (* identity branch *)
  is_allowed (compute (Ex.doc Lit.enforce)) Ex.u1 Ex.agent = true /\
  branch_of true (compute (Ex.doc Lit.enforce)) Ex.u1 Ex.agent = BrIdentity /\
  is_allowed (compute (Ex.doc Lit.enforce)) Ex.u2 Ex.other = true /\
  (* privilege matched but no identity: denied although the default is allow *)
  is_allowed (compute (Ex.doc Lit.enforce)) Ex.u1 Ex.other = false /\
  branch_of true (compute (Ex.doc Lit.enforce)) Ex.u1 Ex.other = BrPrivilegeOnly /\
  is_allowed (compute (Ex.doc Lit.enforce)) Ex.u3 Ex.agent = false /\
  (* nothing matched: default access *)
  is_allowed (compute (Ex.doc Lit.enforce)) Ex.u4 Ex.other = true /\
  branch_of true (compute (Ex.doc Lit.enforce)) Ex.u4 Ex.other = BrDefault /\
  (* the first occurrence of a repeated request key decides *)
  branch_of true (compute (Ex.doc Lit.enforce)) Ex.u5 Ex.agent = BrDefault /\
  (* disabled *)
  is_allowed (compute (Ex.doc Lit.disabled)) Ex.u1 Ex.other = true /\
  (* the pinned behaviour missed the upper-case rule path *)
  is_allowed_current (compute (Ex.doc Lit.enforce)) Ex.u2 Ex.other = true /\
  branch_of false (compute (Ex.doc Lit.enforce)) Ex.u2 Ex.other = BrDefault.
Proof. vm_compute. repeat split. Qed.
