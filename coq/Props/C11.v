(* C11 -- Enforce blocks, audit forwards and records; every denial is recorded once.
   Property theorems only.  Models: Model/Server.v ([handle]: the request handler with its effects
   FailedSummary / Summary / UpstreamWrite in code order), Model/Authorizer.v + Model/Rbac.v (the
   decision), Model/Summary.v (the summary key, the actor's two maps, publication).  Tied to
   proxy_server.rs / proxy_authorizer.rs / proxy_summary.rs / agent_status_wrapper.rs /
   proxy_agent_status.rs by tools/checks/c11.py (end-to-end runs of the real listener, the real
   actor and a real ProxyAgentStatusTask).

   "The rules deny" = [rules_deny rl r c] for a caller that passes the authorizer's built-in
   precondition ([builtin_ok]: WireServer / HostGAPlugin are root-only whatever the rules and the
   mode say -- that is property C03, and such a refusal is also recorded once, see
   C11_one_record_per_request). *)
From GPA Require Import Summary SummaryProofs SummaryMerge SummaryMergeProofs ServerProofs.
From Coq Require Import Permutation.

(* enforce mode: 403 to the client, exactly one failed-summary record, nothing written upstream *)
Theorem C11_enforce_blocks :
  forall e cx r ip port c rl,
  reaches e cx r ip port c (Some rl) ->
  builtin_ok (kind_of (ipv4_text ip) port) c = true ->
  c_mode rl = Enforce -> rules_deny rl r c = true ->
  handle e cx r = (Resp 403, [FailedSummary 403; Summary 403]).
Proof. exact enforce_blocks. Qed.
Print Assumptions C11_enforce_blocks.

(* audit mode: relayed -- and relayed exactly as an allowed request is: the same upstream request
   (destination, claims header source, request line/headers/body) and the same upstream writes as
   under any policy that allows it *)
Theorem C11_audit_forwards :
  forall e cx r ip port c rl,
  reaches e cx r ip port c (Some rl) ->
  builtin_ok (kind_of (ipv4_text ip) port) c = true ->
  c_mode rl = Audit -> rules_deny rl r c = true ->
  handle e cx r = (Relay (relay_of ip port c r),
                   [FailedSummary 403; UpstreamWrite (relay_of ip port c r)]).
Proof. exact audit_forwards. Qed.
Print Assumptions C11_audit_forwards.

Theorem C11_audit_forwards_identically :
  forall e e' cx r ip port c rl rs',
  reaches e cx r ip port c (Some rl) -> reaches e' cx r ip port c rs' ->
  builtin_ok (kind_of (ipv4_text ip) port) c = true ->
  c_mode rl = Audit -> rules_deny rl r c = true ->
  match rs' with Some rl' => rules_deny rl' r c = false | None => True end ->
  fst (handle e cx r) = fst (handle e' cx r) /\
  write_effects (snd (handle e cx r)) = write_effects (snd (handle e' cx r)).
Proof. exact audit_forwards_identically. Qed.
Print Assumptions C11_audit_forwards_identically.

(* disabled mode: privileges, roles, identities and the default are not consulted ... *)
Theorem C11_disabled_not_consulted :
  forall kd c u rl rl',
  c_mode rl = Disabled -> c_mode rl' = Disabled ->
  authorize kd c u (Some rl) = authorize kd c u (Some rl').
Proof. exact disabled_not_consulted. Qed.
Print Assumptions C11_disabled_not_consulted.

(* ... the request is relayed and nothing is recorded as failed *)
Theorem C11_disabled_forwards :
  forall e cx r ip port c rl,
  reaches e cx r ip port c (Some rl) ->
  builtin_ok (kind_of (ipv4_text ip) port) c = true ->
  c_mode rl = Disabled ->
  handle e cx r = (Relay (relay_of ip port c r), [UpstreamWrite (relay_of ip port c r)]).
Proof. exact disabled_forwards. Qed.
Print Assumptions C11_disabled_forwards.

(* an allowed request (any mode, or no rules): relayed, NO failed-summary record *)
Theorem C11_allowed_not_recorded :
  forall e cx r ip port c rs,
  reaches e cx r ip port c rs ->
  builtin_ok (kind_of (ipv4_text ip) port) c = true ->
  match rs with Some rl => rules_deny rl r c = false | None => True end ->
  handle e cx r = (Relay (relay_of ip port c r), [UpstreamWrite (relay_of ip port c r)]).
Proof. exact allowed_forwards. Qed.
Print Assumptions C11_allowed_not_recorded.

(* exactly one record per denial and none otherwise, for EVERY request in EVERY environment: the
   number of failed-summary records is 1 when [records_failure] (authorization answered
   OkWithAudit or Forbidden, or the destination is attributed but the caller unknown) and 0 in all
   other cases -- never 2 *)
Theorem C11_one_record_per_request :
  forall e cx r,
  failed_effects (snd (handle e cx r)) = if records_failure e cx r then 1%nat else 0%nat.
Proof. exact failed_effects_exact. Qed.
Print Assumptions C11_one_record_per_request.

(* the record carries the caller's user, process, command line and destination *)
Theorem C11_record_carries_caller :
  forall ci st ip port c,
  cx_dest (ci_ctx ci) = Some (ip, port) -> cx_claims (ci_ctx ci) = Some c ->
  let s := summary_of ci st in
  sm_user s = k_user c /\ sm_groups s = k_groups c /\ sm_path s = k_exe c /\
  sm_cmd s = ci_cmd ci /\ sm_client_ip s = ci_client_ip ci /\
  sm_ip s = ipv4_text ip /\ sm_port s = port /\ sm_status s = status_text st.
Proof. exact summary_of_caller. Qed.
Print Assumptions C11_record_carries_caller.

(* counts over arbitrary histories of actor messages (adds from any callers, reads, clears; [key]
   is ANY key function): the count under k is the number of failed-summary records with key k
   since the last clear *)
Theorem C11_counts_over_histories :
  forall (key : summary -> bytes) (ms : list msg) (k : bytes),
  count_of (failed (arun key agent0 ms)) k =
  N.of_nat (length (filter (is_failed_for key k) (since_clear ms))).
Proof. exact failed_count_history. Qed.
Print Assumptions C11_counts_over_histories.

(* any set of requests (any callers, rule sets, modes, endpoints), the actor receiving their
   messages in ANY order (concurrent connections): the count under k is the number of requests
   whose record has key k; each request contributes at most one *)
Theorem C11_counts_over_request_histories :
  forall (key : summary -> bytes) (reqs : list reqev) (ms : list msg) (k : bytes),
  Permutation ms (flat_map msgs_of reqs) ->
  count_of (failed (arun key agent0 ms)) k =
  N.of_nat (length (filter (fun s => beq (key s) k) (flat_map failed_of reqs))).
Proof. exact counts_over_request_histories. Qed.
Print Assumptions C11_counts_over_request_histories.

Theorem C11_request_contributes_at_most_one :
  forall rv : reqev, (length (failed_of rv) <= 1)%nat.
Proof. exact failed_of_le_1. Qed.
Print Assumptions C11_request_contributes_at_most_one.

(* publication: status.json's failedAuthenticateSummary shows exactly the map's entries, one per
   key (so, with the counting theorem, exactly the counts since the last clear) *)
Theorem C11_publish_shows_exactly_the_counts :
  forall (key : summary -> bytes) (ms : list msg) (e : entry),
  In e (snd (publish key (arun key agent0 ms))) <->
  exists k, alookup beq k (failed (arun key agent0 ms)) = Some e.
Proof. exact publish_failed_exact. Qed.
Print Assumptions C11_publish_shows_exactly_the_counts.

Theorem C11_publish_one_entry_per_key :
  forall (key : summary -> bytes) (ms : list msg),
  NoDup (map fst (failed (arun key agent0 ms))) /\
  length (snd (publish key (arun key agent0 ms))) = length (failed (arun key agent0 ms)).
Proof.
  intros key ms. split.
  - exact (proj1 (arun_nodup key ms)).
  - exact (publish_failed_length key ms).
Qed.
Print Assumptions C11_publish_one_entry_per_key.

(* ---------------------------------------------------------------------------------------------- *)
(* Attribution of the entry's fields at full strength (finding F8, repaired by commit cfce1cc)       *)
(* ---------------------------------------------------------------------------------------------- *)
(* the key the code computes NOW: the pinned argument order, joined by the separator the source
   says -- NUL since the repair (both regenerated from proxy_summary.rs on every run) *)
Theorem C11_key_order_is_pinned : Consts.summary_key_fields = std_order.
Proof. reflexivity. Qed.
Print Assumptions C11_key_order_is_pinned.

Theorem C11_key_separator_is_nul : Consts.summary_key_sep = NUL.
Proof. reflexivity. Qed.
Print Assumptions C11_key_separator_is_nul.

Theorem C11_key_string_is : key_string = key_string_sep NUL.
Proof. reflexivity. Qed.
Print Assumptions C11_key_string_is.

(* FULL STRENGTH, for the key as the code computes it: for every history l of failed-summary records
   (any callers, any number, any order) and every record s of it, the entry s is counted under
   shows s's own user, destination, process, command line and status.  Hypothesis [sep_free NUL]:
   no field contains a NUL byte -- an environment fact, not a restriction on callers: user names,
   IP texts, executable paths (readlink of /proc/pid/exe), command-line arguments (NUL-separated in
   /proc/pid/cmdline and joined by spaces) and status texts cannot contain NUL. *)
Theorem C11_entry_fields_are_callers :
  forall l : list summary,
  forallb (sep_free NUL) l = true ->
  forall s, In s l ->
  exists e, alookup beq (key_string s) (adds key_string l) = Some e /\ shown_e e = shown s.
Proof.
  intros l Hl. apply entry_fields_partial. apply sep_free_no_collision; auto.
Qed.
Print Assumptions C11_entry_fields_are_callers.

(* ... and for ANY key function: outside the collision class (two records of the history with equal
   keys and different shown fields) every record is counted under an entry that shows its own
   fields; the class predicate is what the check's Python side evaluates *)
Theorem C11_entry_fields_are_callers_partial :
  forall (key : summary -> bytes) (l : list summary),
  KnownClass_C11_F8 key l = false ->
  forall s, In s l ->
  exists e, alookup beq (key s) (adds key l) = Some e /\ shown_e e = shown s.
Proof. exact entry_fields_partial. Qed.
Print Assumptions C11_entry_fields_are_callers_partial.

(* histories whose key fields do not contain the separator (any non-digit separator byte) are
   outside the class *)
Theorem C11_separator_free_fields_never_collide :
  forall (sep : N) (l : list summary),
  is_digit sep = false -> forallb (sep_free sep) l = true ->
  KnownClass_C11_F8 (key_string_sep sep) l = false.
Proof. exact sep_free_no_collision. Qed.
Print Assumptions C11_separator_free_fields_never_collide.

(* DOCUMENTED LEMMA (the defect as it was, finding F8): with the fields joined by single spaces --
   the key up to commit cfce1cc -- full-strength attribution is REFUTED: the executable ".../a b"
   with command line "c 600" and the executable ".../a" with command line "b c 600" (same user and
   destination) share one entry, which shows the first caller's fields with both callers' counts.
   Reproduced on the real code before the repair (notes/C11.md). *)
Module C11_w.
  Import Coq.Strings.String.
  Definition f8_a : summary :=
    {| sm_user := B"root"; sm_groups := [B"root"]; sm_client_ip := B"127.0.0.1";
       sm_ip := B"169.254.169.254"; sm_port := 80; sm_path := B"/tmp/x/a b"; sm_cmd := B"c 600";
       sm_status := B"403 Forbidden" |}.
  Definition f8_b : summary :=
    {| sm_user := B"root"; sm_groups := [B"root"]; sm_client_ip := B"127.0.0.1";
       sm_ip := B"169.254.169.254"; sm_port := 80; sm_path := B"/tmp/x/a"; sm_cmd := B"b c 600";
       sm_status := B"403 Forbidden" |}.
End C11_w.
Notation f8_a := C11_w.f8_a.
Notation f8_b := C11_w.f8_b.

Theorem C11_space_joined_key_refuted :
  exists (l : list summary) (s : summary) (e : entry),
    In s l /\ alookup beq (key_string_sep SPACE s) (adds (key_string_sep SPACE) l) = Some e /\
    shown_e e <> shown s /\ en_count e = 2.
Proof.
  exists [f8_a; f8_b], f8_b.
  eexists. split; [right; left; reflexivity|]. split; [vm_compute; reflexivity|].
  split; [vm_compute; discriminate|reflexivity].
Qed.
Print Assumptions C11_space_joined_key_refuted.

(* the same two records under the repaired key: two entries, each showing its own caller *)
Theorem C11_repaired_key_separates_the_witness :
  KnownClass_C11_F8 (key_string_sep SPACE) [f8_a; f8_b] = true /\
  KnownClass_C11_F8 key_string [f8_a; f8_b] = false /\
  length (adds key_string [f8_a; f8_b]) = 2%nat.
Proof. vm_compute. repeat split. Qed.
Print Assumptions C11_repaired_key_separates_the_witness.

(* ---------------------------------------------------------------------------------------------- *)
(* Clients, the mailbox, and what one-message-at-a-time buys (Model/SummaryMerge.v)                  *)
(* ---------------------------------------------------------------------------------------------- *)
(* Clients c1..cn each issue a list of messages; the actor handles ONE message at a time from its mailbox.  For EVERY
   interleaving of the clients' lists (any number of clients, any keys -- equal or different --, reads and clears at
   any position) the count under every key is the number of add_one messages for it since the last clear. *)
Theorem C11_actor_counts_every_interleaving :
  forall (key : summary -> bytes) (merged : list msg) (lists : list (list msg)),
  is_merge merged lists ->
  forall k, count_of (failed (arun key agent0 merged)) k = count_spec key merged k.
Proof. exact actor_counts_every_interleaving. Qed.
Print Assumptions C11_actor_counts_every_interleaving.

(* conservation: when no client sends a clear, the result does not depend on the interleaving at all -- the count
   under k is the sum over the clients of the adds each of them made for k (the burst leg of the check) *)
Theorem C11_actor_conserves_every_interleaving :
  forall (key : summary -> bytes) (merged : list msg) (lists : list (list msg)),
  is_merge merged lists -> forallb no_clear lists = true ->
  forall k, count_of (failed (arun key agent0 merged)) k = N.of_nat (clients_total key k lists).
Proof. exact actor_conserves_every_interleaving. Qed.
Print Assumptions C11_actor_conserves_every_interleaving.

(* DOCUMENTED LEMMA (seeded change s1, not the code): with add_one split into "look the key up under a read lock" and
   "insert or increment under a write lock", two first denials of one never-seen key interleaved read, read, write,
   write lose an occurrence -- the map shows 1 where the actor, fed the same two adds in either order, shows 2 *)
Theorem C11_read_then_write_refuted :
  exists (s : summary) (l : list rwop),
    l = [RwRead 1 s; RwRead 2 s; RwWrite 1 s; RwWrite 2 s] /\
    count_of (rw_map (rw_run key_string l)) (key_string s) = 1 /\
    count_of (failed (arun key_string agent0 [AddFailed s; AddFailed s])) (key_string s) = 2.
Proof.
  exists f8_a. eexists. split; [reflexivity|]. split; vm_compute; reflexivity.
Qed.
Print Assumptions C11_read_then_write_refuted.

(* sequentially (read, write, read, write) the variant counts correctly: the loss needs the interleaving *)
Theorem C11_read_then_write_sequential_ok :
  count_of (rw_map (rw_run key_string [RwRead 1 f8_a; RwWrite 1 f8_a; RwRead 2 f8_a; RwWrite 2 f8_a])) (key_string f8_a) = 2.
Proof. vm_compute. reflexivity. Qed.
Print Assumptions C11_read_then_write_sequential_ok.

(* ---------------------------------------------------------------------------------------------- *)
(* Non-vacuity                                                                                      *)
(* ---------------------------------------------------------------------------------------------- *)
Module C11_v.
  Import Coq.Strings.String.
Definition w_deny_enforce : computed :=
  {| c_default := false; c_mode := Enforce; c_privs := []; c_assign := []; c_ids := [] |}.
Definition w_deny_audit : computed :=
  {| c_default := false; c_mode := Audit; c_privs := []; c_assign := []; c_ids := [] |}.
Definition w_claims : claims :=
  {| k_user := B"root"; k_groups := [B"root"]; k_proc := B"curl"; k_exe := B"/usr/bin/curl";
     k_elevated := true |}.
Definition w_imds : N := 4272553641.     (* 169.254.169.254 as recorded *)
Definition w_cx : conn_ctx := {| cx_claims := Some w_claims; cx_dest := Some (w_imds, 80) |}.
Definition w_env (rl : computed) : env :=
  {| e_counter_ok := true; e_claims_json_ok := fun _ => true;
     e_ws := ROk None; e_ga := ROk None; e_imds := ROk (Some rl) |}.
Definition w_req : request :=
  {| rq_method := B"GET"; rq_uri := origin_uri B"/metadata/instance" (Some B"api-version=2021-02-01") |}.
Definition w_ci : conn_info := {| ci_ctx := w_cx; ci_client_ip := B"127.0.0.1"; ci_cmd := B"curl -s x" |}.
Definition w_rv (rl : computed) : reqev := {| rv_env := w_env rl; rv_conn := w_ci; rv_req := w_req |}.
End C11_v.

Module C11_x.
  Import Coq.Strings.String.
  Example C11_nonvacuous :
  result_codes (handle (C11_v.w_env C11_v.w_deny_enforce) C11_v.w_cx C11_v.w_req) = ((0, 403), [(1, 403); (2, 403)]) /\
  result_codes (handle (C11_v.w_env C11_v.w_deny_audit) C11_v.w_cx C11_v.w_req) = ((2, 0), [(1, 403); (0, 0)]) /\
  map entry_code
      (snd (publish key_string
              (arun key_string agent0
                    (flat_map msgs_of [C11_v.w_rv C11_v.w_deny_enforce; C11_v.w_rv C11_v.w_deny_audit; C11_v.w_rv C11_v.w_deny_enforce])))) =
    [(B"root", [B"root"], B"169.254.169.254", 80, B"/usr/bin/curl", B"curl -s x", B"403 Forbidden", 3)].
Proof. vm_compute. repeat split. Qed.
End C11_x.
