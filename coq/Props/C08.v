(* C08 -- A key is never latched at the host unless the guest can recover it.
   Property theorems only: each is closed by [exact lemma] and followed by Print Assumptions.
   Models: Model/KeyKeeper.v (the poll, incl. the "if !key_found" block), Model/CrashFs.v (file
   system with crash points after every event and inside every write), Model/KeyStore.v (key JSON
   codec, temp-file + rename store, host, fault alphabet, low-level trace of a poll).  Tied to the
   code by tools/checks/c08.py: the real KeyKeeper is SIGKILLed by strace at its file-system and
   socket calls and restarted on the surviving key directory. *)
From GPA Require Import KeyStore KeyKeeperProofs KeyStoreProofs.

(* Every history of the whole system from the empty world -- polls under ANY fault pattern
   (status / acquire / store / attest / transient failure of the local look-up), each either completing or dying after ANY number n of
   low-level events (request reaching the host, file created, ONE BYTE written, rename, ...), host
   rotations in between: whenever the host holds a latch, the local store returns a key of that
   guid which the host issued. *)
Theorem C08_latched_implies_recoverable : forall (ss : list sys_step) (g : bytes),
  let w := sys_run world0 ss in
  h_latched (snd (w_st w)) = Some g ->
  exists k, fetch (fst (w_st w)) g = Some k /\ key_guid k = g /\ In k (h_issued (snd (w_st w))).
Proof. intros ss g. exact (proj1 (sys_good ss) g). Qed.
Print Assumptions C08_latched_implies_recoverable.

(* The same at every crash point of one poll started from ANY world and ANY agent memory
   (damaged store, foreign latch, ...): a latch the agent performs is recoverable; a latch that was
   already there is either untouched or recoverable; and what was recoverable stays so. *)
Theorem C08_latch_recoverable_from_any_world : forall (st : wstate) (mem : kk) (f : faults) (n : nat) (g : bytes),
  let st' := run_levs st (firstn n (trace st mem f)) in
  (h_latched (snd st') = Some g -> h_latched (snd st) = Some g \/ rec st' g) /\
  (rec st g -> rec st' g).
Proof. intros. split; [apply latched_recoverable|apply recoverable_stays]. Qed.
Print Assumptions C08_latch_recoverable_from_any_world.

(* Restart: a fresh process (empty memory) whose host names a recoverable guid reaches "key in
   memory" from the local store, without acquire, store or attest -- whatever the acquire / attest
   answers would have been (provided the look-up itself does not fail transiently; when it does,
   C08_latch_recoverable_from_any_world still says that nothing recoverable is lost). *)
Theorem C08_restart_uses_local_key : forall (st : wstate) (f : faults) (d : doc) (g : bytes),
  f_status f = StatusDoc d -> f_local_fail f = false -> validate d = true -> disabled d = false ->
  d_guid d = Some g -> rec st g ->
  ~ In EAcquire (effects_of st kk_init f) /\
  (forall k, ~ In (EStore k) (effects_of st kk_init f)) /\
  (forall k, ~ In (EAttest k) (effects_of st kk_init f)) /\
  exists k, k_key (mem_after st kk_init f) = Some k /\ fetch (fst st) g = Some k /\
            key_guid k = g /\ In k (h_issued (snd st)).
Proof. exact restart_uses_local_key. Qed.
Print Assumptions C08_restart_uses_local_key.

(* Order inside a poll (any memory, any answers): an attestation request is immediately preceded
   by the store of that very key and its read-back, the store succeeded and the read-back matched. *)
Theorem C08_attest_after_readback : forall (mem : kk) (a : answers) (k : key),
  In (EAttest k) (snd (poll mem a)) ->
  exists p s, snd (poll mem a) = p ++ EStore k :: EReadBack k :: EAttest k :: s /\
              a_acquire a = Some k /\ a_store a = true /\ check_ok k (a_readback a) = true.
Proof. exact attest_after_readback. Qed.
Print Assumptions C08_attest_after_readback.

(* ... and semantically, on the modelled file system and host: at the moment an attestation
   reaches the host, the final file name holds exactly the key being attested and the host issued it. *)
Theorem C08_attest_only_stored_key : forall (st : wstate) (mem : kk) (f : faults) (l1 l2 : list lev) (k : key),
  trace st mem f = l1 ++ LAttest k true :: l2 ->
  fetch (fst (run_levs st l1)) (key_guid k) = Some k /\ In k (h_issued (snd (run_levs st l1))).
Proof. intros. eapply attest_after_store_semantic. eassumption. Qed.
Print Assumptions C08_attest_only_stored_key.

(* The final name never holds a partial file: in every history, every `<guid>.key` is absent or
   holds the complete encoding of a key of that guid (partial content only ever exists under the
   temp name, which is never read). *)
Theorem C08_final_name_atomic : forall (ss : list sys_step) (g : bytes),
  let fs := fst (w_st (sys_run world0 ss)) in
  fs (keyfile g) = None \/ exists k, fs (keyfile g) = Some (encode k) /\ key_guid k = g.
Proof.
  intros ss g fs. destruct (fs (keyfile g)) as [c|] eqn:E; [right|left; reflexivity].
  destruct (proj1 (proj2 (sys_good ss)) g c E) as [k [Hc Hg]]. exists k. subst c. auto.
Qed.
Print Assumptions C08_final_name_atomic.

(* ... and at every crash point of a poll from any world whose key files are whole *)
Theorem C08_final_name_atomic_any_world : forall (st : wstate) (mem : kk) (f : faults) (n : nat),
  files_ok (fst st) -> files_ok (fst (run_levs st (firstn n (trace st mem f)))).
Proof. exact final_names_whole. Qed.
Print Assumptions C08_final_name_atomic_any_world.

(* The key file codec: what store_local_key writes reads back as the same key -- for every key
   (any bytes in the four strings, any incarnation number or none). *)
Theorem C08_codec_roundtrip : forall k : key, decode (encode k) = Some k.
Proof. exact codec_roundtrip. Qed.
Print Assumptions C08_codec_roundtrip.

(* The local-store contract that C09_converges assumes holds in this closed system: the key in the
   agent's memory is always backed by a readable key file. *)
Theorem C08_memory_key_is_backed : forall (ss : list sys_step) (f : faults) (d : doc),
  f_status f = StatusDoc d -> f_local_fail f = false ->
  let w := sys_run world0 ss in
  mem_backed (w_mem w) d (answers_of (w_st w) f).
Proof. exact mem_backed_closed. Qed.
Print Assumptions C08_memory_key_is_backed.

(* non-vacuity: a fresh latch; the same poll killed inside the write (60 events in: partial temp
   file, nothing under the final name, nothing latched); killed right after the attestation reached
   the host (latched, file whole, memory lost) and the restart that recovers from the file alone. *)
Example C08_nonvacuous :
  (let w := sys_run world0 [SPoll (nv_faults None (nvk 1)) None] in
   h_latched (snd (w_st w)) = Some [103; 1] /\ fetch (fst (w_st w)) [103; 1] = Some (nvk 1) /\
   k_key (w_mem w) = Some (nvk 1)) /\
  (let w := sys_run world0 [SPoll (nv_faults None (nvk 1)) (Some 60%nat)] in
   h_latched (snd (w_st w)) = None /\ fst (w_st w) (keyfile [103; 1]) = None /\
   fst (w_st w) (tmpfile [103; 1]) = Some (firstn 57 (encode (nvk 1))) /\ k_key (w_mem w) = None) /\
  (let n := (length (trace (w_st world0) kk_init (nv_faults None (nvk 1))) - 1)%nat in
   let w := sys_run world0 [SPoll (nv_faults None (nvk 1)) (Some n)] in
   h_latched (snd (w_st w)) = Some [103; 1] /\ k_key (w_mem w) = None /\
   let w2 := sys_apply w (SPoll (nv_faults (Some [103; 1]) (nvk 2)) None) in
   k_key (w_mem w2) = Some (nvk 1) /\ length (h_issued (snd (w_st w2))) = 1%nat).
Proof. vm_compute. repeat split. Qed.
